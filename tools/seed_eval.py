#!/venv/bin/python
"""Handling of independently seeded regressions (see DESIGN section 11).

  import  <src_dir> <name>     copy patch.diff / demo.py / meta.json of a seeding agent to /verif/seeded/<name>/
  confirm <name> [...]         in a scratch git worktree of /repo (under /tmp): demo passes on the clean tree, fails with the
                               patch; the repository's full suite with the patch passes exactly the baseline stable set
  detect  <name> [...]         git -C /repo apply <patch>; run the property's check (quick, then thorough if missed and
                               --thorough given); git -C /repo checkout -- . ; result stored in seeded/<name>/result.json
"""
import os
import sys
import json
import shutil
import subprocess
import xml.etree.ElementTree as ET

HERE = os.path.dirname(os.path.dirname(os.path.abspath(__file__)))
SEEDED = os.path.join(HERE, 'seeded')
REPO = '/repo'
PY = '/venv/bin/python'


def sh(cmd, **kw):
    return subprocess.run(cmd, stdout=subprocess.PIPE, stderr=subprocess.STDOUT, **kw)


def cmd_import(src, name):
    dst = os.path.join(SEEDED, name)
    os.makedirs(dst, exist_ok=True)
    for f in ('patch.diff', 'demo.py', 'meta.json'):
        shutil.copy(os.path.join(src, f), os.path.join(dst, f))
    print('imported', name)


def run_demo(tree, demo, data_dir):
    env = dict(os.environ, BCL_DATA_DIR=data_dir, PYTHONPATH=tree, PYTHONDONTWRITEBYTECODE='1')
    shutil.rmtree(data_dir, ignore_errors=True)
    os.makedirs(data_dir)
    try:
        p = subprocess.run([PY, demo], cwd=tree, env=env, stdout=subprocess.PIPE, stderr=subprocess.STDOUT, timeout=600)
        return p.returncode, p.stdout.decode(errors='replace')[-600:]
    except subprocess.TimeoutExpired:
        return 124, 'timeout'


def baseline_set():
    return set(json.load(open('/root/.vp/BASELINE.json'))['stable_pass'])


def run_suite(tree, data_dir, junit):
    env = dict(os.environ, BCL_DATA_DIR=data_dir)
    shutil.rmtree(data_dir, ignore_errors=True)
    os.makedirs(data_dir)
    sh([PY, '-m', 'pytest', '-q', '-p', 'no:cacheprovider', '--timeout=900', '--continue-on-collection-errors', '--junitxml=' + junit],
       cwd=tree, env=env, timeout=3600)
    passed = set()
    for tc in ET.parse(junit).iter('testcase'):
        if not any(ch.tag in ('failure', 'error', 'skipped') for ch in tc):
            passed.add('%s::%s' % (tc.get('classname'), tc.get('name')))
    return passed


def cmd_confirm(name, run_tests=True):
    d = os.path.join(SEEDED, name)
    patch = os.path.join(d, 'patch.diff')
    tree = '/tmp/vfseed_%s' % name.replace('-', '_')     # a valid package directory name (the repo has a root __init__.py)
    data = tree + '_data'
    shutil.rmtree(tree, ignore_errors=True)
    sh(['git', '-C', REPO, 'worktree', 'prune'])
    r = sh(['git', '-C', REPO, 'worktree', 'add', '-q', '--detach', tree, 'HEAD'])
    res = {'name': name}
    try:
        demo = os.path.join(d, 'demo.py')
        rc0, out0 = run_demo(tree, demo, data)
        a = sh(['git', '-C', tree, 'apply', patch])
        res['applies'] = a.returncode == 0
        if not res['applies']:
            res['apply_error'] = a.stdout.decode()[-300:]
        rc1, out1 = run_demo(tree, demo, data)
        res['demo_clean_exit'] = rc0
        res['demo_patched_exit'] = rc1
        res['demo_patched_tail'] = out1[-300:]
        c = sh([PY, '-c', 'import bitcoinlib.wallets, bitcoinlib.services.services, bitcoinlib.blocks'], cwd=tree,
               env=dict(os.environ, BCL_DATA_DIR=data, PYTHONPATH=tree))
        res['imports'] = c.returncode == 0
        if run_tests and res['applies']:
            passed = run_suite(tree, data, tree + '_junit.xml')
            base = baseline_set()
            res['stable_pass_missing'] = sorted(base - passed)[:10]
            res['tests_ok'] = not (base - passed)
            res['n_passed'] = len(passed)
        res['confirmed'] = bool(res['applies'] and rc0 == 0 and rc1 not in (0, 124) and res['imports'] and res.get('tests_ok', not run_tests))
    finally:
        sh(['git', '-C', REPO, 'worktree', 'remove', '--force', tree])
        shutil.rmtree(tree, ignore_errors=True)
        shutil.rmtree(data, ignore_errors=True)
        for f in (tree + '_junit.xml',):
            if os.path.exists(f):
                os.remove(f)
    json.dump(res, open(os.path.join(d, 'confirm.json'), 'w'), indent=1)
    print(json.dumps(res)[:600])
    return res


def cmd_detect_wt(name, thorough=False, seeds=(0,), jobs=None):
    """Same as detect, but the patch is applied to a scratch worktree and the check is pointed at it with VERIF_REPO
    (used while other checks are running against /repo itself)."""
    d = os.path.join(SEEDED, name)
    meta = json.load(open(os.path.join(d, 'meta.json')))
    prop = meta.get('property') or name.split('-')[0]
    tree = '/tmp/vfdet_%s' % name.replace('-', '_')
    shutil.rmtree(tree, ignore_errors=True)
    sh(['git', '-C', REPO, 'worktree', 'prune'])
    sh(['git', '-C', REPO, 'worktree', 'add', '-q', '--detach', tree, 'HEAD'])
    out = {'name': name, 'property': prop, 'runs': [], 'mode': 'VERIF_REPO worktree'}
    try:
        a = sh(['git', '-C', tree, 'apply', os.path.join(d, 'patch.diff')])
        if a.returncode != 0:
            out['error'] = 'patch does not apply: ' + a.stdout.decode()[-200:]
        else:
            env = dict(os.environ, VERIF_REPO=tree)
            if jobs:
                env['VERIF_JOBS'] = str(jobs)
            for tier in ['quick'] + (['thorough'] if thorough else []):
                for seed in seeds:
                    p = sh([os.path.join(HERE, 'check'), prop, '--tier', tier, '--seed', str(seed)], cwd=HERE, env=env)
                    txt = p.stdout.decode(errors='replace')
                    keys = [l.strip()[:300] for l in txt.splitlines() if l.strip().startswith('key=') or l.strip().startswith('unkeyed')][:6]
                    out['runs'].append({'tier': tier, 'seed': seed, 'exit': p.returncode, 'first_lines': keys,
                                        'inconclusive': [l[:200] for l in txt.splitlines() if 'INCONCLUSIVE' in l][:3]})
                    if p.returncode == 1:
                        break
                if out['runs'] and out['runs'][-1]['exit'] == 1:
                    break
            out['caught'] = any(r['exit'] == 1 for r in out['runs'])
            out['caught_by'] = next(('%s seed %d' % (r['tier'], r['seed']) for r in out['runs'] if r['exit'] == 1), None)
    finally:
        sh(['git', '-C', REPO, 'worktree', 'remove', '--force', tree])
        shutil.rmtree(tree, ignore_errors=True)
    json.dump(out, open(os.path.join(d, 'result.json'), 'w'), indent=1)
    print(name, 'caught' if out.get('caught') else 'MISSED', out.get('caught_by'), '|', ' || '.join(out['runs'][-1]['first_lines'][:2]) if out.get('runs') else out.get('error'))
    return out


def cmd_detect(name, thorough=False, seeds=(0,)):
    d = os.path.join(SEEDED, name)
    meta = json.load(open(os.path.join(d, 'meta.json')))
    prop = meta.get('property') or name.split('-')[0]
    patch = os.path.join(d, 'patch.diff')
    st = sh(['git', '-C', REPO, 'status', '--porcelain'])
    if st.stdout.strip():
        print('REFUSING: /repo working tree is not clean')
        return None
    a = sh(['git', '-C', REPO, 'apply', patch])
    out = {'name': name, 'property': prop, 'runs': []}
    try:
        if a.returncode != 0:
            out['error'] = 'patch does not apply: ' + a.stdout.decode()[-200:]
        else:
            tiers = ['quick'] + (['thorough'] if thorough else [])
            for tier in tiers:
                for seed in seeds:
                    p = sh([os.path.join(HERE, 'check'), prop, '--tier', tier, '--seed', str(seed)], cwd=HERE)
                    txt = p.stdout.decode(errors='replace')
                    keys = [l.strip()[:300] for l in txt.splitlines() if l.strip().startswith('key=') or l.strip().startswith('unkeyed')][:6]
                    out['runs'].append({'tier': tier, 'seed': seed, 'exit': p.returncode, 'first_lines': keys,
                                        'inconclusive': [l[:200] for l in txt.splitlines() if 'INCONCLUSIVE' in l][:3]})
                    if p.returncode == 1:
                        break
                if out['runs'] and out['runs'][-1]['exit'] == 1:
                    break
            out['caught'] = any(r['exit'] == 1 for r in out['runs'])
            out['caught_by'] = next(('%s seed %d' % (r['tier'], r['seed']) for r in out['runs'] if r['exit'] == 1), None)
    finally:
        sh(['git', '-C', REPO, 'checkout', '--', '.'])
    json.dump(out, open(os.path.join(d, 'result.json'), 'w'), indent=1)
    print(name, 'caught' if out.get('caught') else 'MISSED', out.get('caught_by'), '|', ' || '.join(out['runs'][-1]['first_lines'][:2]) if out.get('runs') else out.get('error'))
    return out


def main(argv):
    if argv[1] == 'import':
        cmd_import(argv[2], argv[3])
    elif argv[1] == 'confirm':
        for n in argv[2:]:
            if n == '--no-tests':
                continue
            cmd_confirm(n, run_tests='--no-tests' not in argv)
    elif argv[1] == 'detect-wt':
        names = [a for a in argv[2:] if not a.startswith('--')]
        for n in names:
            cmd_detect_wt(n, thorough='--thorough' in argv, seeds=(0, 1) if '--seeds2' in argv else (0,), jobs=6)
    elif argv[1] == 'detect':
        names = [a for a in argv[2:] if not a.startswith('--')]
        for n in names:
            cmd_detect(n, thorough='--thorough' in argv, seeds=(0, 1) if '--seeds2' in argv else (0,))


if __name__ == '__main__':
    main(sys.argv)
