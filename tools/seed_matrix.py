#!/venv/bin/python
"""Prints the catch matrix of the seeded regressions (markdown) from seeded/*/meta.json + result.json + detect_pass1.log."""
import os, json, glob, re
HERE = os.path.dirname(os.path.dirname(os.path.abspath(__file__)))
first = {}
for p1 in (os.path.join(HERE, 'seeded', 'detect_pass1.log'), os.path.join(HERE, 'seeded', 'detect_pass1_round2.log'),
           os.path.join(HERE, 'seeded', 'detect_pass1_round3.log'), os.path.join(HERE, 'seeded', 'detect_pass1_round4.log'), os.path.join(HERE, 'seeded', 'detect_pass1_round5.log')):
    if os.path.exists(p1):
        for l in open(p1):
            m = re.match(r'(C\d\d-\d) (caught|MISSED)', l)
            if m and m.group(1) not in first:
                first[m.group(1)] = m.group(2)
print('| seed | what it changes | needs | first pass | now | first firing monitor |')
print('|------|-----------------|-------|------------|-----|----------------------|')
for d in sorted(glob.glob(os.path.join(HERE, 'seeded', 'C*-*'))):
    n = os.path.basename(d)
    meta = json.load(open(os.path.join(d, 'meta.json')))
    res = json.load(open(os.path.join(d, 'result.json'))) if os.path.exists(os.path.join(d, 'result.json')) else {}
    def short(x, k=110):
        x = re.sub(r'\s+', ' ', str(x))
        return (x[:k] + '...') if len(x) > k else x
    fl = ''
    if res.get('runs'):
        lines = res['runs'][-1]['first_lines']
        fl = short(lines[0].replace('|', '/'), 120) if lines else ''
    print('| %s | %s | %s | %s | %s | %s |' % (n, short(meta.get('summary', '')).replace('|', '/'), short(meta.get('needs', ''), 90).replace('|', '/'),
                                          first.get(n, 'n/a'), ('caught (%s)' % res.get('caught_by')) if res.get('caught') else 'MISSED', fl))
