#!/venv/bin/python
"""Prints the section 6a table of DESIGN.md from the evidence files (as written by the last run of each check)."""
import json, glob, os
HERE = os.path.dirname(os.path.dirname(os.path.abspath(__file__)))
print('| id | tier | evaluations | distinct non-trivial | input classes | wall |')
print('|----|------|-------------|----------------------|---------------|------|')
for f in sorted(glob.glob(os.path.join(HERE, 'evidence', 'C*.json'))):
    e = json.load(open(f))
    c = e['coverage']
    print('| %s | %s | %d | %d | %d | %.0f s |' % (e['property_id'], e['tier'], c['evaluations'], c['distinct_nontrivial'], c.get('n_classes', 0), e.get('wall_s', 0)))
