"""Known findings: committed, read-only at run time.

known_findings.json = {"findings": [ {property, key, status: "open"|"fixed", what, mechanism, witness?, commit?,
record?} ... ]}

`key` names a mechanism. A violation is absorbed only when the property's classifier gave it exactly the key
of an *open* entry. `fixed` entries suppress nothing.
"""
import json
import os

from vf.env import VERIF_DIR

PATH = os.path.join(VERIF_DIR, 'known_findings.json')


def load(prop_id=None):
    try:
        with open(PATH) as f:
            data = json.load(f)
    except FileNotFoundError:
        data = {}
    out = list(data.get('findings', []))
    extra = os.environ.get('VERIF_EXTRA_FINDINGS')   # development aid only; never set by MANIFEST commands
    if extra and os.path.exists(extra):
        out += json.load(open(extra)).get('findings', [])
    if prop_id is not None:
        out = [e for e in out if e.get('property') == prop_id]
    return out


def open_keys(prop_id):
    return {e['key']: e for e in load(prop_id) if e.get('status') == 'open'}


def fixed_keys(prop_id):
    return {e['key']: e for e in load(prop_id) if e.get('status') == 'fixed'}
