"""Runner: plans shards, runs each in an isolated subprocess, merges, decides, writes evidence.

Exit codes: 0 held on everything observed (open known findings printed as KNOWN-FINDING lines),
            1 VIOLATION (a line `VIOLATION property=<id> replay=<path>` per unexplained mechanism),
            2 INCONCLUSIVE (deciding probe never reached, worker died, watchdog fired, oracle self-check failed).
"""
import os
import sys
import json
import time
import argparse
import importlib
import subprocess
import collections
import concurrent.futures

from vf import env as venv
from vf import findings as vfind
from vf.collect import digest

EVIDENCE_DIR = os.path.join(venv.VERIF_DIR, 'evidence')
REPLAY_DIR = os.path.join(venv.VERIF_DIR, 'replays')


def load_prop(prop_id):
    return importlib.import_module('vf.props.%s' % prop_id.lower())


def run_one_shard(prop_id, spec, idx, keep=False):
    data_dir = venv.make_data_dir('%s-%d' % (prop_id, idx))
    spec_path = os.path.join(data_dir, 'spec.json')
    out_path = os.path.join(data_dir, 'out.json')
    with open(spec_path, 'w') as f:
        json.dump(spec, f)
    extra = dict(spec.get('env', {}))
    env = venv.worker_env(data_dir, extra)
    timeout = spec.get('timeout', 900)
    t0 = time.time()
    res = None
    err = None
    try:
        p = subprocess.run([venv.PYTHON, '-m', 'vf.worker', prop_id, spec_path, out_path], env=env,
                           cwd=venv.VERIF_DIR, stdout=subprocess.PIPE, stderr=subprocess.STDOUT, timeout=timeout)
        if os.path.exists(out_path):
            res = json.load(open(out_path))
        else:
            err = 'worker %d exited %d without result: %s' % (idx, p.returncode, p.stdout.decode(errors='replace')[-1500:])
    except subprocess.TimeoutExpired:
        err = 'worker %d hit the wall-clock watchdog (%ds)' % (idx, timeout)
    finally:
        if not keep:
            venv.cleanup(data_dir)
    return idx, res, err, time.time() - t0


def merge(results):
    m = {'evaluations': 0, 'classes': collections.Counter(), 'nontrivial': set(), 'samples': [],
         'probes': collections.Counter(), 'required': {}, 'violations': {}, 'unkeyed': [], 'unkeyed_count': 0,
         'inconclusive': [], 'anchors': collections.Counter(), 'extra': [], 'unkeyed_hist': collections.Counter()}
    seen_sample_cls = set()
    for r in results:
        m['evaluations'] += r['evaluations']
        m['classes'].update(r['classes'])
        m['nontrivial'].update(r['nontrivial'])
        for s in r['samples']:
            if s['class'] not in seen_sample_cls and len(m['samples']) < 12:
                seen_sample_cls.add(s['class'])
                m['samples'].append(s)
        m['probes'].update(r['probes'])
        for k, v in r['required'].items():
            m['required'][k] = max(m['required'].get(k, 0), v)
        for k, v in r['violations'].items():
            ent = m['violations'].setdefault(k, {'count': 0, 'witnesses': []})
            ent['count'] += v['count']
            for w in v['witnesses']:
                if len(ent['witnesses']) < 3:
                    ent['witnesses'].append(w)
        m['unkeyed_count'] += r['unkeyed_count']
        m['unkeyed_hist'].update(r.get('unkeyed_hist', {}))
        for u in r['unkeyed']:
            if len(m['unkeyed']) < 10:
                m['unkeyed'].append(u)
        m['inconclusive'].extend(r['inconclusive'])
        m['anchors'].update(r.get('anchors', {}))
        if r.get('extra'):
            m['extra'].append(r['extra'])
    return m


def write_replay(prop_id, rec):
    os.makedirs(REPLAY_DIR, exist_ok=True)
    path = os.path.join(REPLAY_DIR, '%s-%s.json' % (prop_id, digest(rec)))
    with open(path, 'w') as f:
        json.dump(dict(rec, property=prop_id), f, indent=1)
    return path


def main(argv=None):
    ap = argparse.ArgumentParser()
    ap.add_argument('prop')
    ap.add_argument('--tier', default=os.environ.get('VERIF_TIER', 'quick'), choices=['quick', 'thorough'])
    ap.add_argument('--seed', type=int, default=int(os.environ.get('VERIF_SEED', '0') or 0))
    ap.add_argument('--jobs', type=int, default=int(os.environ.get('VERIF_JOBS', '0') or 0))
    ap.add_argument('--replay')
    ap.add_argument('--keep', action='store_true')
    ap.add_argument('--scale', type=float, default=float(os.environ.get('VERIF_SCALE', '1') or 1),
                    help='multiply case budgets (for experiments)')
    a = ap.parse_args(argv)
    prop_id = a.prop.upper()
    t0 = time.time()
    mod = load_prop(prop_id)
    for pkg in getattr(mod, 'DEPS', ()):
        if not venv.ensure_deps((pkg,)):
            print('INCONCLUSIVE property=%s could not install %s from the wheelhouse' % (prop_id, pkg))
            return 2

    if a.replay:
        rec = json.load(open(a.replay))
        spec = {'mode': 'replay', 'case': rec.get('case'), 'tier': a.tier, 'seed': a.seed, 'timeout': 1800,
                'env': getattr(mod, 'REPLAY_ENV', {})}
        idx, res, err, wall = run_one_shard(prop_id, spec, 0, keep=a.keep)
        if err or res is None:
            print('INCONCLUSIVE property=%s replay failed: %s' % (prop_id, err))
            return 2
        n = res['unkeyed_count'] + sum(v['count'] for v in res['violations'].values())
        for k, v in res['violations'].items():
            for w in v['witnesses']:
                print('REPLAY violation key=%s: %s\n  observed=%s\n  expected=%s' % (k, w['desc'], json.dumps(w['observed'])[:600], json.dumps(w['expected'])[:600]))
        for w in res['unkeyed']:
            print('REPLAY violation key=None: %s\n  observed=%s\n  expected=%s' % (w['desc'], json.dumps(w['observed'])[:600], json.dumps(w['expected'])[:600]))
        for r in res['inconclusive']:
            print('REPLAY inconclusive: %s' % r)
        print('REPLAY property=%s violations=%d' % (prop_id, n))
        return 1 if n else (2 if res['inconclusive'] else 0)

    specs = mod.plan(a.tier, a.seed, a.scale) if mod.plan.__code__.co_argcount >= 3 else mod.plan(a.tier, a.seed)
    for s in specs:
        s.setdefault('tier', a.tier)
        s.setdefault('seed', a.seed)
        s.setdefault('timeout', 900 if a.tier == 'quick' else 4 * 3600)
    jobs = a.jobs or min(16, os.cpu_count() or 4)
    results = []
    errors = []
    with concurrent.futures.ThreadPoolExecutor(max_workers=jobs) as ex:
        futs = [ex.submit(run_one_shard, prop_id, s, i, a.keep) for i, s in enumerate(specs)]
        for f in concurrent.futures.as_completed(futs):
            idx, res, err, wall = f.result()
            if err:
                errors.append(err)
            if res is not None:
                results.append(res)
    m = merge(results)
    inconclusive = list(errors) + list(m['inconclusive'])
    for name, minimum in m['required'].items():
        if m['probes'].get(name, 0) < minimum:
            inconclusive.append('deciding probe %s observed %d evaluations (< %d)' % (name, m['probes'].get(name, 0), minimum))
    if not results:
        inconclusive.append('no shard produced a result')

    openk = vfind.open_keys(prop_id)
    lines = []
    viol_lines = []
    known_seen = {}
    n_viol = 0
    for key, ent in sorted(m['violations'].items()):
        if key in openk:
            known_seen[key] = ent['count']
            continue
        n_viol += ent['count']
        path = write_replay(prop_id, ent['witnesses'][0])
        viol_lines.append('VIOLATION property=%s replay=%s' % (prop_id, path))
        lines.append('  key=%s count=%d: %s' % (key, ent['count'], ent['witnesses'][0]['desc']))
    if m['unkeyed_count']:
        n_viol += m['unkeyed_count']
        for w in m['unkeyed'][:int(os.environ.get('VERIF_MAX_REPLAYS', '3'))]:
            path = write_replay(prop_id, w)
            viol_lines.append('VIOLATION property=%s replay=%s' % (prop_id, path))
            lines.append('  key=None: %s' % w['desc'])

    wall = time.time() - t0
    nt = len(m['nontrivial'])
    level = getattr(mod, 'LEVEL', 'exploration')
    ev = {
        'property_id': prop_id, 'tier': a.tier, 'seed': a.seed, 'level': level,
        'coverage': {
            'evaluations': m['evaluations'], 'distinct_nontrivial': nt,
            'rule': getattr(mod, 'RULE', ''),
            'samples': m['samples'] or [{'note': 'no sample recorded'}],
            'classes': dict(sorted(m['classes'].items(), key=lambda kv: -kv[1])[:200]),
            'n_classes': len(m['classes']),
            'probes': dict(m['probes']),
            'anchors_reached': dict(sorted(m['anchors'].items(), key=lambda kv: -kv[1])[:80]),
            'n_anchor_functions_reached': len(m['anchors']),
            'trusted_base': list(getattr(mod, 'TRUSTED_BASE', [])),
            'known_findings_seen': known_seen,
            'shards': len(specs), 'shards_completed': len(results),
            'inconclusive': inconclusive[:10],
            'extra': m['extra'][:4],
        },
        'assumptions': list(getattr(mod, 'ASSUMPTIONS', [])) + [
            'python without -O (library asserts active)', 'sqlite back-end', 'fastecdsa code path',
            'repository imported from %s' % venv.repo_dir()],
        'wall_s': round(wall, 2),
        'violations': n_viol,
    }
    if getattr(mod, 'EXHAUSTIVE', None):
        ev['coverage']['exhaustive_subspaces'] = mod.EXHAUSTIVE
    os.makedirs(EVIDENCE_DIR, exist_ok=True)
    evp = os.path.join(EVIDENCE_DIR, '%s.json' % prop_id)
    with open(evp + '.tmp', 'w') as f:
        json.dump(ev, f, indent=1, sort_keys=True)
    os.replace(evp + '.tmp', evp)

    print('%s tier=%s seed=%d evaluations=%d distinct_nontrivial=%d classes=%d shards=%d/%d wall=%.1fs' % (
        prop_id, a.tier, a.seed, m['evaluations'], nt, len(m['classes']), len(results), len(specs), wall))
    for key, e in sorted(openk.items()):
        print('KNOWN-FINDING: property=%s %s [%s] observed=%d' % (prop_id, e.get('what', ''), key, known_seen.get(key, 0)))
    if viol_lines:
        for l in viol_lines:
            print(l)
        for l in lines:
            print(l)
        for d, c in m['unkeyed_hist'].most_common(15):
            print('  unkeyed x%d: %s' % (c, d))
        for r in inconclusive[:5]:
            print('  (also inconclusive: %s)' % str(r)[:300])
        return 1
    if inconclusive:
        for r in inconclusive[:10]:
            print('INCONCLUSIVE property=%s %s' % (prop_id, r))
        return 2
    if nt < 2 or m['evaluations'] < 1:
        print('INCONCLUSIVE property=%s too few non-trivial cases observed (%d)' % (prop_id, nt))
        return 2
    print('HELD property=%s on everything observed' % prop_id)
    return 0


if __name__ == '__main__':
    sys.exit(main())
