"""Worker process: runs one shard of one property and writes its Collector dump.

usage: python -m vf.worker <PROP_ID> <spec.json> <out.json>
"""
import sys
import os
import json
import time
import importlib
import traceback
import faulthandler

from vf.collect import Collector
from vf import env as venv


def load_prop(prop_id):
    return importlib.import_module('vf.props.%s' % prop_id.lower())


def main(argv):
    prop_id, spec_path, out_path = argv[1:4]
    faulthandler.enable()
    spec = json.load(open(spec_path))
    col = Collector(prop_id, spec.get('tier', 'quick'), spec.get('seed', 0))
    t0 = time.time()
    reach = None
    try:
        mod = load_prop(prop_id)
        anchors = getattr(mod, 'ANCHORS', None)
        if anchors and spec.get('reach', True):
            from vf import reach as vreach
            reach = vreach.Reach(venv.repo_dir(), anchors)
            reach.start()
        if spec.get('mode') == 'replay':
            mod.replay(spec['case'], col)
        else:
            mod.run_shard(spec, col)
        try:
            venv.assert_repo_imported()
        except RuntimeError as e:
            col.note_inconclusive(str(e))
    except BaseException as e:  # a crashing harness is inconclusive, never "held"
        col.note_inconclusive('worker exception: %r\n%s' % (e, traceback.format_exc()[-1500:]))
    finally:
        if reach is not None:
            reach.stop()
            col.anchors.update(reach.counts())
    out = col.dump()
    out['wall_s'] = time.time() - t0
    out['spec'] = spec
    tmp = out_path + '.tmp'
    with open(tmp, 'w') as f:
        json.dump(out, f)
    os.replace(tmp, out_path)


if __name__ == '__main__':
    main(sys.argv)
