"""Reference model of wallet key structure (BIP44/49/84 single-sig, BIP45/48 multisig) - stdlib + vf.refs only.

Given the seed(s) the harness chose, derive the key material, locking script and address every wallet key
*should* have for (account, change, address_index).
"""
from vf.refs import bip32, chain
from vf.refs import secp256k1 as ec

H = bip32.HARD
PURPOSE = {('legacy', False): 44, ('p2sh-segwit', False): 49, ('segwit', False): 84,
           ('legacy', True): 45, ('p2sh-segwit', True): 48, ('segwit', True): 48}
SCRIPT_TYPE_48 = {'p2sh-segwit': 1, 'segwit': 2}


def single_path(witness_type, network, account, change, index):
    coin = chain.NETWORKS[network]['bip44_cointype']
    return [PURPOSE[(witness_type, False)] + H, coin + H, account + H, change, index]


def multisig_path(witness_type, network, account, change, index, cosigner_index=0):
    coin = chain.NETWORKS[network]['bip44_cointype']
    if witness_type == 'legacy':
        return [45 + H, cosigner_index, change, index]
    return [48 + H, coin + H, account + H, SCRIPT_TYPE_48[witness_type] + H, change, index]


def path_str(path):
    return 'm/' + '/'.join(("%d'" % (p - H)) if p >= H else str(p) for p in path)


def spk_single(witness_type, pub):
    h = ec.hash160(pub)
    if witness_type == 'legacy':
        return chain.script_p2pkh(h)
    if witness_type == 'segwit':
        return chain.script_witness(0, h)
    return chain.script_p2sh(ec.hash160(chain.script_witness(0, h)))


def spk_multisig(witness_type, redeem):
    if witness_type == 'legacy':
        return chain.script_p2sh(ec.hash160(redeem))
    if witness_type == 'segwit':
        return chain.script_witness(0, ec.sha256(redeem))
    return chain.script_p2sh(ec.hash160(chain.script_witness(0, ec.sha256(redeem))))


class SingleRef:
    """HD single-signature wallet from one seed."""

    def __init__(self, seed, network, witness_type):
        self.master = bip32.master(seed)
        self.network = network
        self.witness_type = witness_type
        self._cache = {}

    def key(self, account, change, index):
        k = (account, change, index)
        if k not in self._cache:
            self._cache[k] = bip32.derive(self.master, single_path(self.witness_type, self.network, account, change, index))
        return self._cache[k]

    def account_key(self, account):
        return bip32.derive(self.master, single_path(self.witness_type, self.network, account, 0, 0)[:3])

    def script(self, account, change, index):
        return spk_single(self.witness_type, self.key(account, change, index).pub)

    def address(self, account, change, index):
        return chain.address_for_script(self.network, self.script(account, change, index))

    def path(self, account, change, index):
        return path_str(single_path(self.witness_type, self.network, account, change, index))

    def secrets(self, account, change, index):
        return [self.key(account, change, index).secret]


class FlatRef:
    """Single-key (non HD) wallet: one secret, one address."""

    def __init__(self, secret, network, witness_type, compressed=True):
        self.secret = secret
        self.network = network
        self.witness_type = witness_type
        self.pub = ec.pub_from_secret(secret, compressed)

    def script(self, *a):
        return spk_single(self.witness_type, self.pub)

    def address(self, *a):
        return chain.address_for_script(self.network, self.script())


class MultisigRef:
    """n cosigner seeds, threshold m."""

    def __init__(self, seeds, m, network, witness_type, sort_keys=True, cosigner_index=0):
        self.masters = [bip32.master(s) for s in seeds]
        self.m = m
        self.network = network
        self.witness_type = witness_type
        self.sort_keys = sort_keys
        self.cosigner_index = cosigner_index
        self._cache = {}

    def keys(self, account, change, index):
        k = (account, change, index)
        if k not in self._cache:
            path = multisig_path(self.witness_type, self.network, account, change, index, self.cosigner_index)
            self._cache[k] = [bip32.derive(mk, path) for mk in self.masters]
        return self._cache[k]

    def account_keys(self, account=0):
        path = multisig_path(self.witness_type, self.network, account, 0, 0, self.cosigner_index)
        cut = 1 if self.witness_type == 'legacy' else 4
        return [bip32.derive(mk, path[:cut]) for mk in self.masters]

    def redeem(self, account, change, index):
        pubs = [k.pub for k in self.keys(account, change, index)]
        if self.sort_keys:
            pubs = sorted(pubs)
        return chain.script_multisig(self.m, pubs)

    def script(self, account, change, index):
        return spk_multisig(self.witness_type, self.redeem(account, change, index))

    def address(self, account, change, index):
        return chain.address_for_script(self.network, self.script(account, change, index))

    def path(self, account, change, index):
        return path_str(multisig_path(self.witness_type, self.network, account, change, index, self.cosigner_index))
