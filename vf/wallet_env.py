"""Harness helpers for wallet workloads: wallet creation from harness-chosen seeds + matching reference model."""
import os
import random
import hashlib

from vf import wallet_ref
from vf.refs import chain as rchain
from vf.refs import secp256k1 as ec

WITNESS_TYPES = ['legacy', 'p2sh-segwit', 'segwit']
KINDS = ['hd', 'single', 'multisig']


def seed_bytes(tag, n=32):
    return hashlib.sha512(('vf-seed-%s' % tag).encode()).digest()[:n]


def reseed(x):
    """The library shuffles outputs / splits change with module-level RNGs; pin them for replay."""
    import numpy
    random.seed(x)
    numpy.random.seed(x % (2 ** 32))


class WalletCtx:
    """A library wallet together with the reference that knows what its keys must be."""

    def __init__(self, name, kind, network, witness_type, tag, db_uri, m=2, n=3, sort_keys=True, compressed=True):
        from bitcoinlib.wallets import Wallet
        from bitcoinlib.keys import HDKey, Key
        self.name, self.kind, self.network, self.witness_type = name, kind, network, witness_type
        self.db_uri = db_uri
        self.extra_priv = []
        if kind == 'hd':
            seed = seed_bytes(tag)
            mk = HDKey.from_seed(seed, network=network, witness_type=witness_type)
            self.w = Wallet.create(name, keys=mk, network=network, witness_type=witness_type, db_uri=db_uri)
            self.ref = wallet_ref.SingleRef(seed, network, witness_type)
        elif kind == 'single':
            secret = int.from_bytes(seed_bytes(tag), 'big') % (ec.N - 1) + 1
            # an old-style uncompressed key (legacy wallets only) is imported the way users have it: as WIF
            k = HDKey('%064x' % secret, network=network, witness_type=witness_type, key_type='single', compressed=compressed)
            self.w = Wallet.create(name, keys=k if compressed else k.wif_key(), network=network, witness_type=witness_type, scheme='single',
                                   db_uri=db_uri)
            self.ref = wallet_ref.FlatRef(secret, network, witness_type, compressed=compressed)
        else:
            seeds = [seed_bytes('%s-cosigner%d' % (tag, i)) for i in range(n)]
            masters = [HDKey.from_seed(s, network=network, witness_type=witness_type, multisig=True) for s in seeds]
            pubs = [mk.public_master_multisig(witness_type=witness_type) for mk in masters]
            self.w = Wallet.create(name, keys=[masters[0]] + pubs[1:], sigs_required=m, network=network,
                                   witness_type=witness_type, db_uri=db_uri, cosigner_id=0, sort_keys=sort_keys)
            self.ref = wallet_ref.MultisigRef(seeds, m, network, witness_type, sort_keys=sort_keys)
            self.extra_priv = masters[1:m]
        self._own = {}

    # reference view ------------------------------------------------------
    def ref_address(self, change, index):
        return self.ref.address(0, change, index)

    def own_scripts(self, change=None, upto=60, accounts=(0,)):
        """script -> (change, index) for this wallet's chains (given accounts) according to the reference"""
        key = (change, upto, tuple(accounts))
        if key not in self._own:
            d = {}
            if self.kind == 'single':
                d[self.ref.script()] = (0, 0)
            else:
                for acc in (accounts if self.kind == 'hd' else (0,)):
                    for ch in ((0, 1) if change is None else (change,)):
                        for i in range(upto):
                            d[self.ref.script(acc, ch, i)] = (ch, i)
            self._own[key] = d
        return self._own[key]

    def own_addresses(self, upto=60, accounts=(0,)):
        key = ('addr', upto, tuple(accounts))
        if key not in self._own:
            self._own[key] = {rchain.address_for_script(self.network, s) for s in self.own_scripts(None, upto, accounts)}
        return self._own[key]

    def reopen(self):
        from bitcoinlib.wallets import Wallet
        try:
            self.w.session.close()
        except Exception:
            pass
        self.w = Wallet(self.name, db_uri=self.db_uri)
        return self.w

    def fresh(self):
        from bitcoinlib.wallets import Wallet
        return Wallet(self.name, db_uri=self.db_uri)


def external_address(rnd, network, witness_type=None):
    """A destination outside every wallet, produced by the reference encoders. -> (address, script)"""
    kinds = ['p2pkh', 'p2sh', 'p2wpkh', 'p2wsh']
    if network.startswith('dogecoin'):
        kinds = ['p2pkh', 'p2sh']
    k = rnd.choice(kinds)
    if k in ('p2pkh', 'p2sh'):
        h = rnd.randbytes(20)
        return rchain.address_base58(network, k, h), (rchain.script_p2pkh(h) if k == 'p2pkh' else rchain.script_p2sh(h))
    prog = rnd.randbytes(20 if k == 'p2wpkh' else 32)
    return rchain.address_segwit(network, 0, prog), rchain.script_witness(0, prog)
