"""C12 - every key export format imports back to the same key and metadata.

Monitor shape: export -> import comparator.  Keys are built by the library from harness-owned material (secret, chain
code, depth, parent fingerprint, child number); every representation the library exports is (1) compared with the
reference encoding of that material and (2) re-imported through every import path with and without hints; the imported
object's attributes are compared with the ORIGINAL material.  Attributes a format does not determine uniquely (shared
prefixes) must lie in the golden table's candidate set; equality is required when a hint is supplied or the set is a
singleton.  Self-describing formats must never flip private <-> public.
"""
import random

from vf.refs import codec, chain, bip32
from vf.refs import secp256k1 as ec

ID = 'C12'
LEVEL = 'exploration'
ANCHORS = ['bitcoinlib/keys.py', 'bitcoinlib/networks.py']
DEPS = ()
RULE = ('cases: one import of one exported representation. Per key (secret classes: 1-3 leading zero bytes, trailing 0x01, small, '
        'near n, random; compressed and uncompressed; random network of the 11 defined) the representations private_hex, '
        'private_byte, secret, wif(), public_hex/_byte, public_compressed_*, public_uncompressed_*, public_point(), HDKey.wif_key(), '
        'HDKey.wif(private/public) for every witness type x multisig of the network (depths 0..255, child numbers 0, 2^31-1, 2^31, '
        '2^32-1, random), encrypt() for a few, the public representations of PUBLIC-ONLY objects (imported from compressed / uncompressed '
        'hex, bytes, point, public(); secrets searched with the reference so that X or Y has leading zero nibbles/bytes), and exports made '
        'after a call history on the same object (repeated exports with other arguments in between, wif(prefix=..), network_change() to a '
        'network with other version bytes) are imported by Key / Key.from_wif / HDKey / HDKey.from_wif without hints, with the '
        'network, and with all hints, and classified by get_key_format. non-trivial = distinct (secret class, representation, '
        'network, hint mode)')
TRUSTED_BASE = ['vf/refs/secp256k1.py (public point of the secret)', 'vf/refs/chain.py + golden/chainparams.json (WIF / extended-key prefixes, candidate sets)',
                'vf/refs/bip32.py (extended-key serialization)', 'vf/refs/codec.py (Base58Check)']
ASSUMPTIONS = ['hex / bytes / integer / point formats do not encode network or (for private material) compression: those attributes are only compared when supplied as hints',
               'a refusal "multiple networks found" of a hint-less import for prefixes shared by litecoin/litecoin_legacy is documented behaviour (class ambiguous-refusal), not a violation',
               'extended keys are exported from compressed keys only (the library warns that uncompressed BIP32 keys are non-standard)',
               'HDKey.wif(multisig=False) cannot override a multisig object (falls back to self.multisig); prefixes are therefore exported from a non-multisig object with overrides and from multisig objects with defaults',
               'BIP38 export is judged by its round trip only (its encoding belongs to C15)']
EXHAUSTIVE = ['witness type x multisig x private/public prefix matrix of the key\'s network for every HD key', 'import path x hint mode matrix per representation']

K_END01 = 'C12/wif/uncompressed-secret-ending-01'

AMBIGUOUS = 'multiple networks found'
CHILDREN = [0, 1, 2 ** 31 - 1, 2 ** 31, 2 ** 32 - 1]
DEPTHS = [0, 1, 2, 3, 5, 127, 128, 255]

_L = {}


def _keys():
    if not _L:
        from bitcoinlib import keys
        _L['keys'] = keys
    return _L['keys']


# ------------------------------------------------------------------ key material
def secret_of_class(rnd, cls):
    if cls.startswith('lead0'):
        z = int(cls[-1])
        return b'\0' * z + bytes([rnd.randint(1, 255)]) + rnd.randbytes(31 - z)
    if cls == 'ends01':
        return rnd.randbytes(31) + b'\x01'
    if cls == 'small':
        return rnd.randint(1, 70000).to_bytes(32, 'big')
    if cls == 'near-n':
        return (ec.N - rnd.randint(1, 70000)).to_bytes(32, 'big')
    if cls == 'y-lead0-nibble':
        return secret_with_point_feature(rnd, 1, 4, rnd.random() < 0.5)
    if cls == 'y-lead0-byte':
        return secret_with_point_feature(rnd, 1, 8, rnd.random() < 0.5)
    if cls == 'x-lead0-byte':
        return secret_with_point_feature(rnd, 0, 8, rnd.random() < 0.5)
    while True:
        b = rnd.randbytes(32)
        if 1 <= int.from_bytes(b, 'big') < ec.N:
            return b


SECRET_CLASSES = ['lead0-1', 'lead0-2', 'lead0-3', 'ends01', 'small', 'near-n', 'rnd', 'y-lead0-nibble', 'y-lead0-byte', 'x-lead0-byte',
                  'rnd', 'y-lead0-nibble']


def secret_with_point_feature(rnd, coord, bits, small):
    """Search (with the reference) a secret whose public point has `bits` leading zero bits in X (coord 0) or Y (coord 1):
    the classes where fixed-width hex / byte exports of a coordinate can lose their zero padding."""
    k = rnd.randint(1, 5000) if small else rnd.randrange(1, ec.N - 100000)
    pt = ec.mul_g(k)
    for _ in range(40000):
        if pt[coord] >> (256 - bits) == 0:
            return k.to_bytes(32, 'big')
        k += 1
        pt = ec.add(pt, ec.G)
    raise RuntimeError('no secret with the requested point feature found')


def gen_key(rnd, i):
    cls = SECRET_CLASSES[i % len(SECRET_CLASSES)]
    if cls == 'ends01' and rnd.random() < 0.3:
        cls2 = 'lead0-1'
        sec = b'\0' + rnd.randbytes(30) + b'\x01'
    else:
        sec = secret_of_class(rnd, cls)
    net = rnd.choice(chain.NETWORK_NAMES)
    depth = rnd.choice(DEPTHS + [rnd.randrange(256)])
    wts = sorted(chain.NETWORKS[net]['hd'])
    lp = lambda x: chain.NETWORKS[x]['hd']['legacy']['single'][0]
    others = [x for x in chain.NETWORK_NAMES if lp(x) != lp(net) and chain.NETWORKS[x]['wif'] != chain.NETWORKS[net]['wif']]
    net2 = rnd.choice(others)
    return {'net2': net2, 'secret': sec.hex(), 'cls': cls, 'compressed': rnd.random() < 0.5, 'network': net,
            'chain': rnd.randbytes(32).hex(), 'depth': depth, 'fp': (rnd.randbytes(4) if depth else b'\0' * 4).hex(),
            'child': (rnd.choice(CHILDREN + [rnd.getrandbits(32), rnd.getrandbits(31)]) if depth else 0),
            'wt0': rnd.choice(wts), 'bip38': False, 'password': rnd.choice(['pw', 'correct horse', 'x y z'])}


# ------------------------------------------------------------------ observation of an imported object
def observe(k, hd):
    o = {'is_private': bool(k.is_private), 'private_hex': k.private_hex, 'compressed': bool(k.compressed), 'network': k.network.name}
    o['secret'] = None if k.secret is None else '%064x' % k.secret
    try:
        x, y = k.public_point()
        o['point'] = ['%064x' % x, '%064x' % y]
    except Exception as e:
        o['point'] = 'EXC %s: %s' % (type(e).__name__, e)
    o['public_hex'] = k.public_hex
    if hd:
        o.update({'chain': bytes(k.chain).hex() if k.chain is not None else None, 'depth': k.depth,
                  'fp': bytes(k.parent_fingerprint).hex() if k.parent_fingerprint is not None else None, 'child': k.child_index,
                  'witness_type': k.witness_type, 'multisig': bool(k.multisig)})
    return o


def importer(mode, rep, kc, ext=None, net=None):
    """-> callable performing the import for `mode`; ext = (wt, ms) of an extended-key representation."""
    keys = _keys()
    n, c = net or kc['network'], kc['compressed']
    if mode == 'Key/nohint':
        return lambda: keys.Key(rep)
    if mode == 'Key/hint':
        return lambda: keys.Key(rep, network=n, compressed=c)
    if mode == 'Key/net':
        return lambda: keys.Key(rep, network=n)
    if mode == 'from_wif/nohint':
        return lambda: keys.Key.from_wif(rep)
    if mode == 'from_wif/net':
        return lambda: keys.Key.from_wif(rep, network=n)
    if mode == 'HDKey/nohint':
        return lambda: keys.HDKey(rep)
    if mode == 'HDKey/hint':
        return lambda: keys.HDKey(rep, network=n, compressed=c)
    if mode == 'HDKey/net':
        return lambda: keys.HDKey(rep, network=n)
    if mode == 'HDKey/full':
        return lambda: keys.HDKey(rep, network=n, witness_type=ext[0], multisig=ext[1])
    if mode == 'HDfrom_wif/nohint':
        return lambda: keys.HDKey.from_wif(rep)
    if mode == 'HDfrom_wif/net':
        return lambda: keys.HDKey.from_wif(rep, network=n)
    if mode == 'HDfrom_wif/full':
        return lambda: keys.HDKey.from_wif(rep, network=n, multisig=ext[1])
    if mode == 'Key/bip38':
        return lambda: keys.Key(rep, password=kc['password'], network=n)
    raise ValueError(mode)


# ------------------------------------------------------------------ tally (aggregated col.case)
class Tally:
    def __init__(self):
        self.n = {}
        self.ident = {}
        self.sample = {}

    def add(self, cls, ident, sample):
        self.n[cls] = self.n.get(cls, 0) + 1
        self.ident.setdefault(cls, set()).add(ident)
        if cls not in self.sample:
            self.sample[cls] = sample

    def flush(self, col):
        for cls, n in self.n.items():
            ids = sorted(self.ident[cls])
            col.case(cls, nontrivial=ids[0], sample=self.sample[cls], n=n)
            for i in ids[1:]:
                col.case(cls, nontrivial=i, n=0)
        self.n.clear()


# ------------------------------------------------------------------ the comparator
def check_import(col, tally, kc, truth, rep_name, rep, mode, expect, ext=None, hd=False, only=None, net=None):
    """expect: attr -> ('eq', value) | ('in', [values]) | ('readings', [[net, wt, ms], ...])"""
    if only and only != (rep_name, mode):
        return
    case = dict(kc, rep=rep_name, mode=mode)
    col.probe('import')
    col.probe(mode.split('/')[0])
    tally.add('%s/%s' % (rep_name.split(':')[0], mode), (kc['cls'], rep_name, kc['network'], mode),
              {'rep': rep_name, 'mode': mode, 'network': kc['network'], 'secret_class': kc['cls'], 'value': rep if isinstance(rep, str) else repr(rep)[:140]})
    try:
        k = importer(mode, rep, kc, ext, net)()
        o = observe(k, hd)
    except Exception as e:
        txt = '%s: %s' % (type(e).__name__, e)
        if AMBIGUOUS in txt and mode.endswith('/nohint') and len(truth.get('cand_networks', {}).get(rep_name, [])) > 1:
            col.probe('ambiguous-refusal')
            tally.add('ambiguous-refusal/%s' % mode, (kc['cls'], rep_name, kc['network'], mode + '/refused'), {'rep': rep_name, 'mode': mode, 'msg': txt[:120]})
            return
        col.violation(classify_refused(kc, rep_name, mode, txt), 'import of %s (%s) via %s refused: %s' % (rep_name, kc['network'], mode, txt[:160]),
                      case, txt[:300], {a: v[1] for a, v in expect.items()})
        return
    diffs = []
    for attr, (how, want) in expect.items():
        got = o.get(attr)
        if how == 'eq' and got != want:
            diffs.append(attr)
        elif how == 'in' and got not in want:
            diffs.append(attr)
    if 'readings' in truth.get('ext', {}).get(rep_name, {}) and hd and ext is not None:
        rd = truth['ext'][rep_name]['readings']
        if [o.get('network'), o.get('witness_type'), o.get('multisig')] not in rd:
            diffs.append('network/witness_type/multisig')
    if diffs:
        col.violation(classify_diff(kc, rep_name, mode, o, diffs), 'import of %s (%s, %s secret) via %s differs from the exported key in: %s' % (
            rep_name, kc['network'], kc['cls'], mode, ','.join(diffs)), case, {a: o.get(a) for a in set(diffs) | {'is_private', 'compressed', 'network'} if a in o},
            {a: v[1] for a, v in expect.items() if a in diffs or a in ('is_private',)})


def check_format(col, tally, kc, rep_name, rep, want, only=None):
    """get_key_format: format label, private/public, candidate lists."""
    if only and only != (rep_name, 'get_key_format'):
        return
    case = dict(kc, rep=rep_name, mode='get_key_format')
    col.probe('get_key_format')
    tally.add('%s/get_key_format' % rep_name.split(':')[0], (kc['cls'], rep_name, kc['network'], 'get_key_format'),
              {'rep': rep_name, 'mode': 'get_key_format', 'value': rep if isinstance(rep, str) else repr(rep)[:140]})
    try:
        kf = _keys().get_key_format(rep)
    except Exception as e:
        col.violation(None, 'get_key_format refuses exported %s: %s: %s' % (rep_name, type(e).__name__, e), case, repr(e)[:200], want)
        return
    diffs = []
    for a, v in want.items():
        got = kf.get(a)
        if a in ('networks', 'witness_types', 'multisig'):
            if sorted(got or [], key=str) != sorted(v, key=str):
                diffs.append(a)
        elif got != v:
            diffs.append(a)
    if diffs:
        key = None
        if diffs == ['format'] and rep_name in ('wif', 'wif_key') and not _is_compressed_rep(kc, rep_name) and kc['secret'].endswith('01') \
                and kf.get('format') == 'wif_compressed':
            key = K_END01
        col.violation(key, 'get_key_format(%s of a %s key) wrong in: %s' % (rep_name, kc['network'], ','.join(diffs)), case,
                      {a: kf.get(a) for a in diffs}, {a: want[a] for a in diffs})


def _is_compressed_rep(kc, rep_name):
    return True if rep_name == 'wif_key' else kc['compressed']


def classify_diff(kc, rep_name, mode, o, diffs):
    sec = bytes.fromhex(kc['secret'])
    if rep_name in ('wif', 'wif_key') and not _is_compressed_rep(kc, rep_name) and sec[-1] == 1:
        # uncompressed WIF, secret ends in 01: read as <31-byte secret> + compression flag
        if o.get('compressed') is True and o.get('private_hex') == sec[:-1].hex() and \
                set(diffs) <= {'secret', 'private_hex', 'compressed', 'point', 'public_hex'}:
            return K_END01
    return None


def classify_refused(kc, rep_name, mode, txt):
    return None


# ------------------------------------------------------------------ one key through the whole matrix
def run_key(kc, col, tally, only=None):
    keys = _keys()
    sec = bytes.fromhex(kc['secret'])
    k_int = int.from_bytes(sec, 'big')
    n, c = kc['network'], kc['compressed']
    pt = ec.mul_g(k_int)
    pub_c, pub_u = ec.encode_pub(pt, True), ec.encode_pub(pt, False)
    point = ['%064x' % pt[0], '%064x' % pt[1]]
    sec_hex = sec.hex()
    wif_nets = [x for x in chain.NETWORK_NAMES if chain.NETWORKS[x]['wif'] == chain.NETWORKS[n]['wif']]
    truth = {'cand_networks': {'wif': wif_nets, 'wif_key': wif_nets}, 'ext': {}}
    case0 = dict(kc, rep='construct', mode='construct')

    def export(name, fn, want):
        """fetch one representation from the library object and compare it with the reference encoding"""
        col.probe('export')
        try:
            v = fn()
        except Exception as e:
            col.violation(None, 'export %s raised %s: %s' % (name, type(e).__name__, e), dict(kc, rep=name, mode='export'), repr(e)[:200], want)
            return None
        if want is not None and v != want:
            col.violation(None, 'export %s of a %s %s key is not the reference encoding of the key' % (name, n, kc['cls']),
                          dict(kc, rep=name, mode='export'), v, want)
        return v

    # ---------------- plain Key
    try:
        k0 = keys.Key(sec, network=n, compressed=c)
        ok = k0.secret == k_int and bool(k0.compressed) == c and k0.network.name == n and k0.is_private
    except Exception as e:
        col.violation(None, 'Key(32 secret bytes, network=%s, compressed=%s) raised %r' % (n, c, e), case0, repr(e)[:200], 'a key')
        return
    if not ok:
        col.violation(None, 'Key(32 secret bytes) does not hold the supplied secret/flags', case0,
                      {'secret': '%x' % (k0.secret or 0), 'compressed': k0.compressed, 'network': k0.network.name}, {'secret': sec_hex, 'compressed': c})
        return
    priv_expect = {'is_private': ('eq', True), 'secret': ('eq', sec_hex), 'private_hex': ('eq', sec_hex), 'point': ('eq', point)}
    hint_expect = dict(priv_expect, compressed=('eq', c), network=('eq', n), public_hex=('eq', (pub_c if c else pub_u).hex()))
    for name, fn, want, fmt in (('private_hex', lambda: k0.private_hex, sec_hex, 'hex'),
                                ('private_byte', lambda: k0.private_byte, sec, 'bin'),
                                ('secret', lambda: k0.secret, k_int, 'decimal')):
        rep = export(name, fn, want)
        if rep is None:
            continue
        check_import(col, tally, kc, truth, name, rep, 'Key/nohint', priv_expect, only=only)
        check_import(col, tally, kc, truth, name, rep, 'Key/hint', hint_expect, only=only)
        check_import(col, tally, kc, truth, name, rep, 'HDKey/hint', dict(hint_expect, chain=('eq', '00' * 32), depth=('eq', 0)), hd=True, only=only)
        check_format(col, tally, kc, name, rep, {'format': fmt, 'is_private': True}, only=only)
    # WIF
    wif = export('wif', lambda: k0.wif(), chain.wif_encode(n, sec, c))
    if wif is not None:
        we = dict(priv_expect, compressed=('eq', c), network=('in', wif_nets), public_hex=('eq', (pub_c if c else pub_u).hex()))
        wn = dict(we, network=('eq', n))
        check_import(col, tally, kc, truth, 'wif', wif, 'Key/nohint', we, only=only)
        check_import(col, tally, kc, truth, 'wif', wif, 'Key/net', wn, only=only)
        check_import(col, tally, kc, truth, 'wif', wif, 'from_wif/nohint', we, only=only)
        check_import(col, tally, kc, truth, 'wif', wif, 'from_wif/net', wn, only=only)
        check_import(col, tally, kc, truth, 'wif', wif, 'HDKey/nohint', we, hd=True, only=only)
        check_import(col, tally, kc, truth, 'wif', wif, 'HDKey/net', wn, hd=True, only=only)
        check_format(col, tally, kc, 'wif', wif, {'format': 'wif_compressed' if c else 'wif', 'is_private': True, 'networks': wif_nets}, only=only)
    # public representations
    pub_expect_c = {'is_private': ('eq', False), 'secret': ('eq', None), 'private_hex': ('eq', None), 'point': ('eq', point),
                    'compressed': ('eq', True), 'public_hex': ('eq', pub_c.hex())}
    pub_expect_u = dict(pub_expect_c, compressed=('eq', False), public_hex=('eq', pub_u.hex()))
    for name, fn, want, comp, fmt in (
            ('public_hex', lambda: k0.public_hex, (pub_c if c else pub_u).hex(), c, 'public' if c else 'public_uncompressed'),
            ('public_byte', lambda: k0.public_byte, pub_c if c else pub_u, c, 'bin_compressed' if c else 'bin'),
            ('public_compressed_hex', lambda: k0.public_compressed_hex, pub_c.hex(), True, 'public'),
            ('public_compressed_byte', lambda: k0.public_compressed_byte, pub_c, True, 'bin_compressed'),
            ('public_uncompressed_hex', lambda: k0.public_uncompressed_hex, pub_u.hex(), False, 'public_uncompressed'),
            ('public_uncompressed_byte', lambda: k0.public_uncompressed_byte, pub_u, False, 'bin')):
        rep = export(name, fn, want)
        if rep is None:
            continue
        pe = pub_expect_c if comp else pub_expect_u
        check_import(col, tally, kc, truth, name, rep, 'Key/nohint', pe, only=only)
        check_import(col, tally, kc, truth, name, rep, 'Key/net', dict(pe, network=('eq', n)), only=only)
        check_import(col, tally, kc, truth, name, rep, 'HDKey/net', dict(pe, network=('eq', n)), hd=True, only=only)
        check_format(col, tally, kc, name, rep, {'format': fmt, 'is_private': False}, only=only)
    rep = export('public_point', lambda: tuple(k0.public_point()), (pt[0], pt[1]))
    if rep is not None:
        check_import(col, tally, kc, truth, 'public_point', rep, 'Key/nohint', {k: v for k, v in pub_expect_c.items() if k not in ('compressed', 'public_hex')}, only=only)
        check_import(col, tally, kc, truth, 'public_point', rep, 'Key/hint', dict(pub_expect_c if c else pub_expect_u, network=('eq', n)), only=only)
        check_format(col, tally, kc, 'public_point', rep, {'format': 'point', 'is_private': False}, only=only)
    # WIF export after a call history on the same object (export with another prefix first)
    n2 = kc.get('net2') or ('testnet' if n in ('bitcoin', 'regtest', 'dogecoin') else 'bitcoin')
    if wif is not None:
        try:
            k0.wif(prefix=bytes.fromhex(chain.NETWORKS[n2]['wif']))
        except Exception:
            pass
        w2 = export('wif:after-other-prefix', lambda: k0.wif(), chain.wif_encode(n, sec, c))
        w3 = export('wif:other-prefix-after-default', lambda: k0.wif(prefix=chain.NETWORKS[n2]['wif']), chain.wif_encode(n2, sec, c))
        if w3 is not None:
            check_import(col, tally, kc, truth, 'wif:other-prefix-after-default', w3, 'Key/net', dict(priv_expect, compressed=('eq', c), network=('eq', n2)),
                         only=only, net=n2)
    # public-only objects (no secret inside): imported from a compressed / uncompressed public key, then exported in EVERY public
    # representation (the missing coordinate has to be recomputed) and re-imported
    order = random.Random(kc['secret'])
    for src, make in (('pubhex-c', lambda: keys.Key(pub_c.hex(), network=n)), ('pubbyte-c', lambda: keys.Key(pub_c, network=n)),
                      ('pubhex-u', lambda: keys.Key(pub_u.hex(), network=n)), ('point', lambda: keys.Key((pt[0], pt[1]), network=n)),
                      ('public()', lambda: keys.Key(sec, network=n, compressed=True).public())):
        if only and not only[0].endswith('@' + src):
            continue
        try:
            kp = make()
        except Exception as e:
            col.violation(None, 'public-only import %s raised %r' % (src, e), case0, repr(e)[:200], 'a key')
            continue
        src_c = src != 'pubhex-u'
        reps = [('public_hex', lambda: kp.public_hex, (pub_c if src_c else pub_u).hex(), src_c, 'public' if src_c else 'public_uncompressed'),
                ('public_byte', lambda: kp.public_byte, pub_c if src_c else pub_u, src_c, 'bin_compressed' if src_c else 'bin'),
                ('public_compressed_hex', lambda: kp.public_compressed_hex, pub_c.hex(), True, 'public'),
                ('public_compressed_byte', lambda: kp.public_compressed_byte, pub_c, True, 'bin_compressed'),
                ('public_uncompressed_hex', lambda: kp.public_uncompressed_hex, pub_u.hex(), False, 'public_uncompressed'),
                ('public_uncompressed_byte', lambda: kp.public_uncompressed_byte, pub_u, False, 'bin'),
                ('public_point', lambda: tuple(kp.public_point()), (pt[0], pt[1]), None, 'point')]
        order.shuffle(reps)                    # the lazily computed attributes must not depend on the order they are asked for
        for name, fn, want, comp, fmt in reps:
            rname = '%s@%s' % (name, src)
            rep = export(rname, fn, want)
            if rep is None:
                continue
            if comp is None:
                pe = {k: v for k, v in pub_expect_c.items() if k not in ('compressed', 'public_hex')}
            else:
                pe = pub_expect_c if comp else pub_expect_u
            check_import(col, tally, kc, truth, rname, rep, 'Key/nohint', pe, only=only)
            check_import(col, tally, kc, truth, rname, rep, 'Key/net', dict(pe, network=('eq', n)), only=only)
            check_format(col, tally, kc, rname, rep, {'format': fmt, 'is_private': False}, only=only)
    # BIP38 (slow: two scrypt evaluations)
    if kc.get('bip38'):
        rep = export('bip38', lambda: k0.encrypt(kc['password']), None)
        if rep is not None:
            check_import(col, tally, kc, truth, 'bip38', rep, 'Key/bip38', dict(priv_expect, compressed=('eq', c), network=('eq', n)), only=only)
            check_format(col, tally, kc, 'bip38', rep, {'format': 'wif_protected', 'is_private': True}, only=only)

    # ---------------- HD keys
    chain_b, fp = bytes.fromhex(kc['chain']), bytes.fromhex(kc['fp'])
    depth, child = kc['depth'], kc['child']
    xk = bip32.XKey(k_int, pt, chain_b, depth, fp, child)
    hd_common = {'chain': ('eq', chain_b.hex()), 'depth': ('eq', depth), 'fp': ('eq', fp.hex()), 'child': ('eq', child),
                 'compressed': ('eq', True), 'point': ('eq', point), 'public_hex': ('eq', pub_c.hex())}
    hd_priv = dict(hd_common, is_private=('eq', True), secret=('eq', sec_hex), private_hex=('eq', sec_hex))
    hd_pub = dict(hd_common, is_private=('eq', False), secret=('eq', None), private_hex=('eq', None))
    wts = sorted(chain.NETWORKS[n]['hd'])
    objs = []
    for label, ms0, private in (('h', False, True), ('hm', True, True), ('hp', False, False)):
        try:
            if private:
                h = keys.HDKey(key=sec, chain=chain_b, depth=depth, parent_fingerprint=fp, child_index=child, network=n,
                               witness_type=kc['wt0'], multisig=ms0)
            else:
                h = keys.HDKey(key=pub_c, chain=chain_b, depth=depth, parent_fingerprint=fp, child_index=child, network=n,
                               witness_type=kc['wt0'], multisig=ms0, is_private=False)
            objs.append((label, ms0, private, h))
        except Exception as e:
            col.violation(None, 'HDKey(key=.., chain=.., depth=%d, child_index=%d, network=%s) raised %r' % (depth, child, n, e), case0, repr(e)[:200], 'a key')
    for label, ms0, private, h in objs:
        combos = [(wt, ms) for wt in wts for ms in (False, True)] if label == 'h' else [(kc['wt0'], ms0)]
        if label == 'hp':
            combos = [(wt, ms) for wt in wts for ms in (False, True)][:: 2] + [(kc['wt0'], True)]
        for wt, ms in combos:
            for priv in ((True, False) if private else (False,)):
                rname = 'ext-%s:%s:%s:%s:%s' % ('priv' if priv else 'pub', label, wt, 'ms' if ms else 'single', 'default' if label == 'hm' else 'override')
                ver = chain.hd_prefix(n, wt, ms, priv)      # (exports are never skipped on replay: they are the object's call history)
                want = xk.serialize(ver, priv)
                if label == 'hm':
                    rep = export(rname, (lambda: h.wif_private()) if priv else (lambda: h.wif_public()), want)
                else:
                    rep = export(rname, lambda: h.wif(is_private=priv, witness_type=wt, multisig=ms), want)
                if rep is None:
                    continue
                rd = [[r[0], r[1], r[2]] for r in chain.hd_prefix_readings(ver) if r[3] == priv]
                truth['ext'][rname] = {'readings': rd}
                truth['cand_networks'][rname] = sorted({r[0] for r in rd})
                base = hd_priv if priv else hd_pub
                ext = (wt, ms)
                rd_n = [r for r in rd if r[0] == n]
                net_e = dict(base, network=('eq', n))
                full_e = dict(net_e, witness_type=('eq', wt), multisig=('eq', ms))
                fw_full = dict(net_e, multisig=('eq', ms), witness_type=('in', sorted({r[1] for r in rd_n if r[2] == ms})))
                check_import(col, tally, kc, truth, rname, rep, 'HDKey/nohint', base, ext=ext, hd=True, only=only)
                check_import(col, tally, kc, truth, rname, rep, 'HDKey/net', net_e, ext=ext, hd=True, only=only)
                check_import(col, tally, kc, truth, rname, rep, 'HDKey/full', full_e, ext=ext, hd=True, only=only)
                check_import(col, tally, kc, truth, rname, rep, 'HDfrom_wif/nohint', base, ext=ext, hd=True, only=only)
                check_import(col, tally, kc, truth, rname, rep, 'HDfrom_wif/net', net_e, ext=ext, hd=True, only=only)
                check_import(col, tally, kc, truth, rname, rep, 'HDfrom_wif/full', fw_full, ext=ext, hd=True, only=only)
                check_format(col, tally, kc, rname, rep, {'format': 'hdkey_private' if priv else 'hdkey_public', 'is_private': priv,
                                                          'networks': sorted({r[0] for r in rd}), 'witness_types': sorted({r[1] for r in rd}),
                                                          'multisig': sorted({r[2] for r in rd})}, only=only)
        if private and label == 'h':
            wk = export('wif_key', lambda: h.wif_key(), chain.wif_encode(n, sec, True))
            if wk is not None:
                we = dict(priv_expect, compressed=('eq', True), network=('in', wif_nets), public_hex=('eq', pub_c.hex()))
                check_import(col, tally, kc, truth, 'wif_key', wk, 'Key/nohint', we, only=only)
                check_import(col, tally, kc, truth, 'wif_key', wk, 'HDKey/net', dict(we, network=('eq', n)), hd=True, only=only)
                check_format(col, tally, kc, 'wif_key', wk, {'format': 'wif_compressed', 'is_private': True, 'networks': wif_nets}, only=only)
        if label in ('h', 'hp'):
            # ---- call histories on the SAME object before the export that is judged
            # (1) every export once more, in another order (second call with equal arguments, other arguments in between)
            for wt, ms in reversed(combos):
                for priv in ((False, True) if private else (False,)):
                    rname = 'ext-%s:%s:%s:%s:repeat' % ('priv' if priv else 'pub', label, wt, 'ms' if ms else 'single')
                    export(rname, lambda: h.wif(is_private=priv, witness_type=wt, multisig=ms), xk.serialize(chain.hd_prefix(n, wt, ms, priv), priv))
            # (2) network_change() to a network with other version bytes, then the whole prefix matrix of that network
            try:
                h.network_change(n2)
            except Exception as e:
                col.violation(None, 'network_change(%s) raised %r' % (n2, e), case0, repr(e)[:200], True)
                continue
            combos2 = [(wt, ms) for wt in sorted(chain.NETWORKS[n2]['hd']) for ms in (False, True)]
            if label == 'hp':
                combos2 = combos2[::2]
            for wt, ms in combos2:
                for priv in ((True, False) if private else (False,)):
                    rname = 'ext-%s:%s:%s:%s:netchange' % ('priv' if priv else 'pub', label, wt, 'ms' if ms else 'single')
                    ver = chain.hd_prefix(n2, wt, ms, priv)
                    rep = export(rname, lambda: h.wif(is_private=priv, witness_type=wt, multisig=ms), xk.serialize(ver, priv))
                    if rep is None:
                        continue
                    rd = [[r[0], r[1], r[2]] for r in chain.hd_prefix_readings(ver) if r[3] == priv]
                    truth['ext'][rname] = {'readings': rd}
                    truth['cand_networks'][rname] = sorted({r[0] for r in rd})
                    net_e = dict(hd_priv if priv else hd_pub, network=('eq', n2))
                    check_import(col, tally, kc, truth, rname, rep, 'HDKey/net', net_e, ext=(wt, ms), hd=True, only=only, net=n2)
                    if not priv:
                        check_import(col, tally, kc, truth, rname, rep, 'HDfrom_wif/net', net_e, ext=(wt, ms), hd=True, only=only, net=n2)
            if private:
                wk2 = export('wif_key:netchange', lambda: h.wif_key(), chain.wif_encode(n2, sec, True))
                if wk2 is not None:
                    check_import(col, tally, kc, truth, 'wif_key:netchange', wk2, 'Key/net',
                                 dict(priv_expect, compressed=('eq', True), network=('eq', n2), public_hex=('eq', pub_c.hex())), only=only, net=n2)


# ------------------------------------------------------------------ plan / shards / replay
def plan(tier, seed, scale=1.0):
    nshard = 16
    per = int((1100 if tier == 'thorough' else 36) * scale)
    return [{'shard': i, 'nshard': nshard, 'n_keys': max(4, per), 'n_bip38': max(1, int((40 if tier == 'thorough' else 2) * scale))}
            for i in range(nshard)]


def _selfchecks(col):
    try:
        codec.selfcheck()
        chain.selfcheck()
        bip32.selfcheck()
        ec.selfcheck()
    except Exception as e:
        col.note_inconclusive('reference self-check failed: %r' % (e,))
        return False
    return True


def run_shard(spec, col):
    if not _selfchecks(col):
        return
    for p in ('import', 'export', 'get_key_format', 'Key', 'HDKey', 'from_wif', 'HDfrom_wif'):
        col.require(p)
    rnd = random.Random('%s-%d-%d' % (ID, spec['seed'], spec['shard']))
    tally = Tally()
    off = rnd.randrange(len(SECRET_CLASSES))
    for i in range(spec['n_keys']):
        kc = gen_key(rnd, i + off)
        if i < spec['n_bip38']:
            kc['bip38'] = True
        run_key(kc, col, tally)
    tally.flush(col)


def replay(case, col):
    _selfchecks(col)
    tally = Tally()
    kc = {k: v for k, v in case.items() if k not in ('rep', 'mode')}
    only = None if case.get('mode') in ('construct', 'export') else (case['rep'], case['mode'])
    run_key(kc, col, tally, only=only)
    tally.flush(col)
