"""C10 - multisig cosigner wallets agree on scripts; exactly m distinct signers suffice.

History monitor over signing ceremonies between n separate cosigner wallets (one sqlite database each):
  agreement   every cosigner wallet - whichever key it holds privately, in whatever order the keys were supplied -
              reports the same address for the same (change, index), and that address / the redeem script carried by
              its transaction inputs is the standard m-of-n script over the n cosigner child keys (BIP32 reference,
              BIP67 order) - judged between the wallets themselves and against vf.wallet_ref;
  threshold   after every signing step / hand-off (transaction object, dict, raw hex) the serialised spend is valid
              for the consensus-style verifier iff >= m distinct cosigners have signed; the library's verified /
              verify() must say the same, and `pushed` (model chain accepted a broadcast) happens only then.
"""
import os
import random
import itertools

from vf import wallet_ref
from vf.refs import tx as rtx
from vf.refs import chain as rchain
from vf.refs import secp256k1 as ec, codec, bip32

ID = 'C10'
LEVEL = 'exploration'
ANCHORS = ['bitcoinlib/wallets.py', 'bitcoinlib/transactions.py', 'bitcoinlib/scripts.py']
RULE = ('ceremonies: m-of-n (n<=4 quick, <=5 thorough; address agreement only up to n=15 in thorough) x legacy P2SH / P2SH-P2WSH / '
        'P2WSH x random permutation of the supplied keys per cosigner wallet x every cosigner as private holder; one spend per '
        'ceremony handed from signer to signer through transaction_import(object) / transaction_import(as_dict()) / '
        'transaction_import_raw(hex) in a random signing order incl. a repeated signer; verdicts judged after every step. '
        'Non-trivial = distinct (m, n, witness type, hand-off chain, signing order) with n >= 2')
TRUSTED_BASE = ['vf/wallet_ref.py MultisigRef (BIP45/48 paths, BIP67 sorting)', 'vf/refs/tx.py spend verifier', 'vf/chain_model.py broadcast acceptance']
ASSUMPTIONS = ['legacy (BIP45) wallets address the same branch only with a common cosigner_id: all key requests use cosigner_id=0',
               'agreement is judged on scripts/addresses, never on the order of the cosigner list']

HANDOFFS = ['object', 'dict', 'raw']


def viol(col, case, key, desc, obs=None, exp=None):
    col.violation(key, '[%d-of-%d %s] %s' % (case['m'], case['n'], case['wt'], desc), case, obs, exp)


def make_cosigner_wallets(case, rnd):
    from bitcoinlib.wallets import Wallet
    from bitcoinlib.keys import HDKey
    from vf import wallet_env
    network, wt, n, m = case['network'], case['wt'], case['n'], case['m']
    seeds = [wallet_env.seed_bytes('c10-%s-co%d' % (case['cseed'], i)) for i in range(n)]
    masters = [HDKey.from_seed(s, network=network, witness_type=wt, multisig=True) for s in seeds]
    pubs = [mk.public_master_multisig(witness_type=wt) for mk in masters]
    wallets = []
    for i in range(case['n_wallets']):
        order = list(range(n))
        rnd.shuffle(order)
        keys = [masters[j] if j == i else pubs[j] for j in order]
        db = os.path.join(os.environ['BCL_DATA_DIR'], 'c10_%s_w%d.sqlite' % (case['cseed'], i))
        # cosigners configure their wallets independently (anti fee sniping on/off => locktime = block height or 0)
        w = Wallet.create('c10_%s_w%d' % (case['cseed'], i), keys=keys, sigs_required=m, network=network, witness_type=wt, db_uri=db,
                          anti_fee_sniping=rnd.random() < 0.5)
        wallets.append(w)
    ref = wallet_ref.MultisigRef(seeds, m, network, wt, sort_keys=True, cosigner_index=0)
    return wallets, ref, masters


def check_agreement(col, case, wallets, ref, positions):
    """every wallet hands out the same address for the same (change, index) and it is the reference address"""
    col.probe('agreement_check')
    table = {}
    for wi, w in enumerate(wallets):
        for ch, idx in positions:
            try:
                k = w.key_for_path([ch, idx], cosigner_id=0) if False else None
            except Exception:
                k = None
    # issue keys in order so that every wallet creates index 0..K on both chains
    per = {}
    for wi, w in enumerate(wallets):
        for ch in (0, 1):
            try:
                ks = w.get_keys(cosigner_id=0, change=ch, number_of_keys=max(i for c, i in positions if c == ch) + 1)
            except Exception as e:
                viol(col, case, None, 'get_keys on cosigner wallet %d raised %r' % (wi, e), repr(e), None)
                continue
            for k in ks:
                tail = [int(x.strip("'")) for x in k.path.split('/')[-2:]]
                per.setdefault((ch, tail[1]), {})[wi] = k.address
    for (ch, idx), d in sorted(per.items()):
        want = ref.address(0, ch, idx)
        addrs = set(d.values())
        if len(addrs) > 1:
            viol(col, case, None, 'cosigner wallets disagree on the address for change=%d index=%d' % (ch, idx), d, 'one address')
        for wi, a in d.items():
            if a != want:
                viol(col, case, None, 'cosigner wallet %d address for change=%d index=%d is not the standard %d-of-%d script over the cosigner child keys'
                     % (wi, ch, idx, case['m'], case['n']), a, want)
    return per


def ref_verdict(t, ref, prevs):
    """(valid, n_distinct_signers) for the bytes the object serialises to; prevs: outpoint -> (script, value, change, index)"""
    raw = t.raw()
    p = rtx.parse(raw)
    ok_all = True
    signers = None
    for k, i in enumerate(p['ins']):
        op = (i['txid'][::-1].hex(), i['n'])
        spk, value, ch, idx = prevs[op]
        r = rtx.verify_input(p, k, spk, value)
        ok_all = ok_all and r.ok
    return ok_all, raw, p


def distinct_signers(t, ref, prevs):
    """number of distinct cosigner keys with a valid signature on input 0 according to the reference (from the object's raw)"""
    raw = t.raw()
    p = rtx.parse(raw)
    i = p['ins'][0]
    op = (i['txid'][::-1].hex(), i['n'])
    spk, value, ch, idx = prevs[op]
    redeem = ref.redeem(0, ch, idx)
    ms = rtx.parse_multisig(redeem)
    if ms is None:
        return 0
    m, pubs = ms
    kind = rchain.classify_script(spk)[0]
    if kind == 'p2sh' and not i['wit']:
        try:
            items = rtx.push_only_items(i['script'])
        except ValueError:
            return 0
        sigs = [s for s in items[1:-1] if s] if len(items) >= 2 else []
        dig = lambda ht: rtx.sighash_legacy(p, 0, redeem, ht)
    else:
        sigs = [s for s in i['wit'][1:-1] if s] if len(i['wit']) >= 2 else []
        dig = lambda ht: rtx.sighash_bip143(p, 0, redeem, value, ht)
    found = set()
    for s in sigs:
        for j, pk in enumerate(pubs):
            if rtx.check_sig(s, pk, dig):
                found.add(j)
    return len(found)


def run_ceremony(case, col):
    from vf import chain_model, wallet_env
    CH = chain_model.CHAIN
    rnd = random.Random('c10-%s' % case['cseed'])
    network, wt, n, m = case['network'], case['wt'], case['n'], case['m']
    try:
        wallets, ref, masters = make_cosigner_wallets(case, rnd)
    except Exception as e:
        viol(col, case, None, 'creating cosigner wallets raised %r' % (e,), repr(e), None)
        return
    positions = [(0, 0), (0, 1), (0, 2), (1, 0), (1, 1)]
    check_agreement(col, case, wallets, ref, positions)
    if not case.get('spend', True):
        col.case('agreement/%d-of-%d/%s' % (m, n, wt), nontrivial=('agree', m, n, wt, case['cseed'][-1]))
        _close(wallets)
        return
    # ---- fund address (0, 0) and (0, 1)
    prevs = {}
    for ch, idx in ((0, 0), (0, 1)):
        addr = ref.address(0, ch, idx)
        v = 10 ** 7 + rnd.randrange(10 ** 5)
        op = CH.fund(addr, v, network, confirmed=True)
        prevs[op] = (ref.script(0, ch, idx), v, ch, idx)
    for w in wallets:
        try:
            w.utxos_update()
        except Exception as e:
            viol(col, case, None, 'utxos_update raised %r' % (e,), repr(e), None)
            _close(wallets)
            return
    order = case['order']          # signing order: wallet indices, may contain a repeat
    handoffs = case['handoffs']    # how the tx travels to the next signer
    dest, _ = wallet_env.external_address(rnd, network)
    first = wallets[order[0]]
    utx = first.utxos()
    if not utx:
        viol(col, case, None, 'cosigner wallet sees no UTXO on its own multisig address after utxos_update', None, 'funded address')
        _close(wallets)
        return
    us = sorted(utx, key=lambda u: (u['txid'], u['output_n']))
    u0 = us[0]
    spend = us[:2] if (case.get('two_inputs') and len(us) >= 2) else us[:1]
    wallet_env.reseed(rnd.getrandbits(30))
    try:
        t = first.transaction_create([(dest, sum(u['value'] for u in spend) - 20000)],
                                     [(u['txid'], u['output_n'], u['key_id'], u['value']) for u in spend], fee=20000)
    except Exception as e:
        viol(col, case, None, 'transaction_create on cosigner wallet raised %r' % (e,), repr(e), None)
        _close(wallets)
        return
    # redeem script carried by every input must be the reference script of the output it spends (inputs may be shuffled)
    for li in t.inputs:
        try:
            opx = (bytes(li.prev_txid).hex(), li.output_n_int)
            spk, value, ch, idx = prevs[opx]
            want_redeem = ref.redeem(0, ch, idx)
            got_redeem = bytes(li.redeemscript)
            if got_redeem != want_redeem:
                viol(col, case, None, 'redeem script of a spending input is not the standard m-of-n script over the cosigner child keys', got_redeem.hex(), want_redeem.hex())
        except Exception as e:
            viol(col, case, None, 'reading redeemscript raised %r' % (e,), repr(e), None)
    signed = set()
    partial_raw = False
    cur = t
    steps = []
    for step, wi in enumerate(order):
        w = wallets[wi]
        how = 'create' if step == 0 else handoffs[(step - 1) % len(handoffs)]
        try:
            if step > 0:
                if how == 'object':
                    cur = w.transaction_import(cur)
                elif how == 'dict':
                    cur = w.transaction_import(cur.as_dict())
                else:
                    cur = w.transaction_import_raw(cur.raw_hex(), network=network)
            if step > 0 and how == 'raw' and 0 < len(signed) < m:
                partial_raw = True   # a partially signed transaction travelled as raw hex
            nb = len(CH.broadcasts)
            cur.sign()
            signed.add(wi)
            steps.append((wi, how))
            col.probe('threshold_check')
            valid, raw, p = ref_verdict(cur, ref, prevs)
            nd = distinct_signers(cur, ref, prevs)
            lib_verified = bool(cur.verified)
            try:
                lib_verify = bool(cur.verify())
            except Exception as e:
                lib_verify = False
            expect = len(signed) >= m
            label = 'step %d signer %d via %s: %d distinct cosigners signed' % (step, wi, how, len(signed))
            if valid != expect:
                viol(col, case, _classify_lost_sig(steps, partial_raw, nd, len(signed), m) if (expect and not valid) else None,
                     '%s: serialised spend is %s for the consensus-style verifier' % (label, 'valid' if valid else 'invalid'),
                     {'valid': valid, 'raw': raw.hex()[:1200], 'steps': steps}, expect)
            nested_raw = (wt == 'p2sh-segwit' and partial_raw and nd < m)
            if lib_verify and not valid:
                # narrow: nested P2WSH input imported from raw hex (no witness script available) -> sigs_required falls back to 1
                viol(col, case, K_RAW_NESTED_THRESHOLD if nested_raw else None,
                     '%s: library verify() is True but the spend is invalid' % label, {'verify': lib_verify, 'steps': steps}, False)
            if valid and not lib_verify:
                viol(col, case, None, '%s: spend is valid but library verify() is False' % label, {'verify': lib_verify, 'steps': steps}, True)
            # try to send at every step (or, in 'send_at_end' ceremonies, only after the last signer - then more than m
            # cosigners may have signed and the spend must still be valid): must be pushed iff valid
            if case.get('send_at_end') and step < len(order) - 1:
                continue
            send_exc = None
            try:
                cur.send()
            except Exception as e:
                send_exc = '%s: %s' % (type(e).__name__, str(e)[:300])
                del e
            new_b = CH.broadcasts[nb:]
            if send_exc is not None:
                accepted = any(b['accepted'] for b in new_b)
                key = None
                if accepted and valid and 'dict' in [h for _, h in steps] and "memoryview: a bytes-like object is required, not 'str'" in send_exc:
                    key = K_DICT_STORE   # narrow: as_dict() carries 'raw' as hex text, store() writes it into a binary column
                elif not accepted and nested_raw and not valid:
                    key = K_RAW_NESTED_THRESHOLD
                viol(col, case, key, '%s: send() raised %s (broadcast accepted by the model: %s)' % (label, send_exc, accepted), {'steps': steps, 'exc': send_exc}, 'no exception')
            pushed = bool(getattr(cur, 'pushed', False))
            if pushed and not valid:
                viol(col, case, None, '%s: pushed=True with fewer than m valid signatures' % label, {'pushed': pushed}, False)
            if any(b['accepted'] for b in new_b) and not expect:
                viol(col, case, None, '%s: a transaction with fewer than m signers was accepted for broadcast' % label, None, None)
            if any(not b['accepted'] for b in new_b):
                viol(col, case, K_RAW_NESTED_THRESHOLD if (nested_raw and not valid) else None, '%s: the wallet tried to broadcast a spend the network refuses: %s' % (label, [b['reason'] for b in new_b if not b['accepted']][-1]),
                     {'steps': steps}, 'no broadcast before the threshold is met')
            if valid and (pushed or send_exc is not None):
                break
        except Exception as e:
            txt = '%s: %s' % (type(e).__name__, str(e)[:200])
            del e
            viol(col, case, None, 'step %d (wallet %d via %s) raised %s' % (step, wi, how, txt), {'steps': steps, 'exc': txt}, 'completed step')
            break
    col.case('ceremony/%d-of-%d/%s' % (m, n, wt), nontrivial=(m, n, wt, tuple(case['handoffs']), tuple(order)) if n >= 2 else None,
             sample={'case': case, 'steps': steps})
    _close(wallets)


K_RAW_PARTIAL = 'C10/handoff-raw/partial-signatures-not-serialised'
K_RAW_NESTED_THRESHOLD = 'C10/handoff-raw/nested-p2wsh-import-forgets-threshold'
K_DICT_STORE = 'C10/handoff-dict/store-after-push-raises-on-hex-rawtx'


def _classify_lost_sig(steps, partial_raw, nd, nsigned, m):
    """narrow: the threshold was reached by count, a partially signed transaction travelled as raw hex earlier, and the
    final spend lacks exactly the signatures made before that hand-off (raw() omits partial multisig signatures)"""
    if partial_raw and nd < m:
        last_raw = max(i for i, (w, how) in enumerate(steps) if how == 'raw')
        after = len({w for w, how in steps[last_raw:]})
        if nd <= after:
            return K_RAW_PARTIAL
    return None


def _close(wallets):
    for w in wallets:
        try:
            w.session.close()
        except Exception:
            pass


def replay(case, col):
    if not selfcheck(col):
        return
    from vf import chain_model
    chain_model.install()
    run_ceremony(dict(case), col)


def selfcheck(col):
    try:
        ec.selfcheck(); codec.selfcheck(); rchain.selfcheck(); rtx.selfcheck(); bip32.selfcheck()
        return True
    except Exception as e:
        col.note_inconclusive('reference self-check failed: %r' % (e,))
        return False


def plan(tier, seed, scale=1.0):
    thorough = tier == 'thorough'
    nshard = 16
    nc = int((2400 if thorough else 48) * scale)
    return [{'shard': i, 'nshard': nshard, 'n_cer': max(1, nc // nshard), 'max_n': 5 if thorough else 4, 'big_agreement': thorough and i < 4} for i in range(nshard)]


def run_shard(spec, col):
    if not selfcheck(col):
        return
    from vf import chain_model
    chain_model.install()
    col.require('agreement_check', 1)
    col.require('threshold_check', 2)
    rnd = random.Random('%s-%d-%d' % (ID, spec['seed'], spec['shard']))
    for k in range(spec['n_cer']):
        n = rnd.randint(2, spec['max_n'])
        m = rnd.randint(1, n)
        wt = ['legacy', 'p2sh-segwit', 'segwit'][(k + spec['shard']) % 3]
        network = rnd.choice(['bitcoinlib_test', 'bitcoin', 'testnet', 'litecoin'])
        # signing order: m (or m+1) distinct wallets in random order, possibly with a repeated signer before the threshold
        idxs = list(range(n))
        rnd.shuffle(idxs)
        order = idxs[:min(n, m + rnd.choice([0, 0, 1]))]
        if len(order) >= 2 and rnd.random() < 0.35:
            order.insert(1, order[0])
        send_at_end = rnd.random() < 0.4
        if send_at_end:
            # everybody available signs before anybody tries to send: m .. n distinct signers
            order = idxs[:rnd.randint(m, n)]
        case = {'cseed': '%d-%d-%d' % (spec['seed'], spec['shard'], k), 'n': n, 'm': m, 'wt': wt, 'network': network, 'n_wallets': n,
                'order': order, 'handoffs': [rnd.choice(HANDOFFS) for _ in range(max(1, len(order) - 1))],
                'two_inputs': rnd.random() < 0.5, 'send_at_end': send_at_end}
        run_ceremony(case, col)
    if spec.get('big_agreement'):
        n = rnd.choice([7, 10, 15])
        case = {'cseed': '%d-%d-big' % (spec['seed'], spec['shard']), 'n': n, 'm': rnd.randint(1, n), 'wt': rnd.choice(['legacy', 'p2sh-segwit', 'segwit']),
                'network': 'bitcoinlib_test', 'n_wallets': 3, 'order': [0], 'handoffs': ['object'], 'spend': False}
        run_ceremony(case, col)
