"""C11 - checksummed text encodings (Base58Check addresses / WIF / extended keys / BIP38, Bech32 / Bech32m) are
canonical and every corruption is rejected.

Monitor shape: reference-model comparator.  Valid strings come from the reference encoders (vf.refs.codec/chain/
bip32/bip38); for every sampled string ALL single-character substitutions / insertions / deletions / adjacent
transpositions plus structured damage are fed to the real decoders, and the reference decides for every mutant
whether it is valid and what it decodes to.  Rules: (a) reference rejects => library must refuse (DESIGN 2.4);
(b) both accept => payload / version / type agree; (c) every generated base string is accepted, agrees with the
reference and re-encodes to itself.  A chance-valid mutant refused by the library is not an alarm.
"""
import random

from vf.refs import codec, chain, bip32
from vf.refs import secp256k1 as ec

ID = 'C11'
LEVEL = 'exploration'
ANCHORS = ['bitcoinlib/encoding.py', 'bitcoinlib/keys.py', 'bitcoinlib/networks.py']
DEPS = ()
RULE = ('cases: one decode of one string by one decoder. Base strings are reference-encoded addresses (all networks x '
        'p2pkh/p2sh, Bech32 v0 and Bech32m v1..v16), WIF (all networks, compressed/uncompressed, edge secrets), extended '
        'keys (every network x witness type x multisig x private/public prefix, depths 0..255, child numbers at the '
        '2^31 edges) and non-EC BIP38 strings; per sampled base string every single-character substitution over the '
        'alphanumeric alphabet, insertion, deletion and adjacent transposition is enumerated, plus dropped/added leading '
        'characters, case flips, Bech32<->Bech32m constant, truncation/padding, unknown version/HRP and wrong payload '
        'length with correct checksum, random multi-character damage (BIP38 mutants are sampled). non-trivial = distinct '
        '(decoder, string class, mutation kind, position class) whose base string was accepted by that decoder')
TRUSTED_BASE = ['vf/refs/codec.py (Base58Check, Bech32/Bech32m, BIP173/350 vectors)',
                'vf/refs/chain.py + golden/chainparams.json (version bytes / HRPs / WIF and extended-key prefixes; entries pinned '
                'from the tree make the monitor a change detector for that constant)',
                'vf/refs/bip32.py (BIP32 serialization, TV1-3)', 'vf/refs/bip38.py (BIP38 vectors; scrypt from hashlib, AES from pycryptodome)']
ASSUMPTIONS = ['network-agnostic codecs (addr_base58_to_pubkeyhash, addr_bech32_to_pubkeyhash, addr_to_pubkeyhash) are not required to know the version byte / HRP; '
               'deserialize_address, Address.parse, Key, HDKey are',
               'a refusal "multiple networks found" for prefixes shared by litecoin/litecoin_legacy is documented behaviour; the import is then judged with a network hint',
               'an all-uppercase Bech32 string is a valid encoding (BIP173); its re-encoding is compared case-insensitively',
               'for witness versions >= 2 and non-standard program lengths the script-type label of deserialize_address is not judged (no label exists), only payload and witness version',
               'BIP38: non-EC strings for bitcoin and testnet (with network hint), EC-multiplied strings for bitcoin only; ASCII passphrases; key range / on-curve validity of decoded material belongs to C04',
               'secrets of generated WIF / extended / BIP38 strings are in [1, n-1]']
EXHAUSTIVE = ['all single-character substitutions (62-symbol alphanumeric alphabet for Base58 strings, 36-symbol for Bech32), insertions, '
              'deletions and adjacent transpositions of every sampled (mutated) base string', 'single-character case flips at every position']

K_FOLD = 'C11/base58/lookalike-chars-case-folded'
K_PAD = 'C11/address-base58/short-payload-left-padded'
K_DA_LEN = 'C11/deserialize_address/payload-length-not-checked'
K_DA_UNK = 'C11/deserialize_address/unknown-prefix-accepted'
K_WIF_LEN = 'C11/Key-wif/payload-length-not-checked'
K_WIF_END01 = 'C11/Key-wif/uncompressed-secret-ending-01'
K_HD_CHK = 'C11/HDKey/checksum-not-verified'
K_HD_VMIS = 'C11/HDKey/version-keydata-mismatch-accepted'
K_HD_LEN = 'C11/HDKey/payload-length-not-checked'
K_A2P_ASSERT = 'C11/addr_to_pubkeyhash/base58-assertion-not-caught'
K_BIP38_CHK = 'C11/bip38/checksum-not-verified'
K_PARSE_WITVER = 'C11/Address.parse/witness-version-dropped'
K_B32ENC_LEN = 'C11/bech32-encode/program-length-heuristic'

B58_SUB = codec.B58 + '0OIl'                      # every alphanumeric character
B32_SUB = 'abcdefghijklmnopqrstuvwxyz0123456789'
STD_TYPES = ('p2pkh', 'p2sh', 'p2wpkh', 'p2wsh', 'p2tr')

FAMILY_DECODERS = {
    'b58addr': ('addr_base58_to_pubkeyhash', 'addr_to_pubkeyhash', 'deserialize_address', 'Address.parse'),
    'bech32': ('addr_bech32_to_pubkeyhash', 'addr_to_pubkeyhash', 'deserialize_address', 'Address.parse'),
    'wif': ('Key(wif)', 'Key.from_wif'),
    'xkey': ('HDKey(ext)', 'HDKey.from_wif'),
    'bip38': ('Key(bip38)',),
}
ALL_DECODERS = sorted({d for v in FAMILY_DECODERS.values() for d in v})
PAD_DECODERS = ('addr_base58_to_pubkeyhash', 'addr_to_pubkeyhash', 'deserialize_address', 'Address.parse')

_L = {}


def _lib():
    if not _L:
        from bitcoinlib import encoding, keys
        _L['enc'] = encoding
        _L['keys'] = keys
    return _L


def _ver_networks(v):
    """golden networks using version byte v (int) as p2pkh or p2sh"""
    h = '%02X' % v
    return [n for n in chain.NETWORK_NAMES if chain.NETWORKS[n]['p2pkh'] == h or chain.NETWORKS[n]['p2sh'] == h]


def _wif_networks(v):
    h = '%02X' % v
    return [n for n in chain.NETWORK_NAMES if chain.NETWORKS[n]['wif'] == h]


def _hrp_networks(hrp):
    return [n for n in chain.NETWORK_NAMES if chain.NETWORKS[n]['hrp'] == hrp]


# ------------------------------------------------------------------ library side: one observation per decoder
AMBIGUOUS = 'multiple networks found'


def _obs_key(k):
    return {'is_private': bool(k.is_private), 'private_hex': k.private_hex, 'compressed': bool(k.compressed),
            'network': k.network.name}


def _obs_hd(k):
    o = _obs_key(k)
    o.update({'public_hex': k.public_hex, 'chain': bytes(k.chain).hex(), 'depth': k.depth, 'fp': bytes(k.parent_fingerprint).hex(),
              'child': k.child_index, 'witness_type': k.witness_type, 'multisig': bool(k.multisig)})
    try:
        o['reencode'] = k.wif(is_private=bool(k.is_private))
    except Exception as e:
        o['reencode'] = 'EXC %r' % (e,)
    return o


def _with_hint(fn, s, meta):
    """Call fn(s); on the documented ambiguity refusal retry with the base string's network as hint."""
    try:
        return fn(s, None)
    except Exception as e:
        if AMBIGUOUS in str(e) and meta.get('network'):
            return fn(s, meta['network'])
        raise


def lib_call(dec, s, meta):
    """-> ('ok', obs dict) | ('refused', text)"""
    L = _lib()
    enc, keys = L['enc'], L['keys']
    try:
        if dec == 'addr_base58_to_pubkeyhash':
            r = enc.addr_base58_to_pubkeyhash(s)
            if not isinstance(r, (bytes, bytearray)):
                return 'refused', 'returned %r' % (r,)
            return 'ok', {'payload': bytes(r).hex(), 'encoding': 'base58'}
        if dec == 'addr_bech32_to_pubkeyhash':
            r = enc.addr_bech32_to_pubkeyhash(s, include_witver=True)
            if not isinstance(r, (bytes, bytearray)):
                return 'refused', 'returned %r' % (r,)
            return 'ok', {'script': bytes(r).hex(), 'encoding': 'bech32'}
        if dec == 'addr_to_pubkeyhash':
            r = enc.addr_to_pubkeyhash(s)
            if not isinstance(r, (bytes, bytearray)):
                return 'refused', 'returned %r' % (r,)
            return 'ok', {'payload': bytes(r).hex()}
        if dec == 'deserialize_address':
            d = keys.deserialize_address(s)
            if not isinstance(d, dict):
                return 'refused', 'returned %r' % (d,)
            pfx = d.get('prefix')
            return 'ok', {'payload': bytes(d['public_key_hash_bytes']).hex(), 'encoding': d['encoding'],
                          'prefix': pfx.hex() if isinstance(pfx, (bytes, bytearray)) else pfx, 'type': d['script_type'],
                          'witver': d['witver'], 'network': d['network'], 'networks': list(d['networks'] or [])}
        if dec == 'Address.parse':
            a = keys.Address.parse(s)
            return 'ok', {'payload': bytes(a.hash_bytes).hex(), 'encoding': a.encoding, 'type': a.script_type,
                          'network': a.network.name, 'reencode': a.address}
        if dec == 'Key(wif)':
            k = _with_hint(lambda x, n: keys.Key(x, network=n) if n else keys.Key(x), s, meta)
            o = _obs_key(k)
            o['reencode'] = k.wif()
            return 'ok', o
        if dec == 'Key.from_wif':
            k = keys.Key.from_wif(s)
            o = _obs_key(k)
            o['reencode'] = k.wif()
            return 'ok', o
        if dec == 'HDKey(ext)':
            k = _with_hint(lambda x, n: keys.HDKey(x, network=n) if n else keys.HDKey(x), s, meta)
            return 'ok', _obs_hd(k)
        if dec == 'HDKey.from_wif':
            k = _with_hint(lambda x, n: keys.HDKey.from_wif(x, network=n) if n else keys.HDKey.from_wif(x), s, meta)
            return 'ok', _obs_hd(k)
        if dec == 'Key(bip38)':
            net = meta.get('network')
            k = keys.Key(s, password=meta['password'], network=net) if net and net != 'bitcoin' else keys.Key(s, password=meta['password'])
            return 'ok', _obs_key(k)
    except Exception as e:
        return 'refused', ('%s: %s' % (type(e).__name__, e))[:200]
    raise ValueError('unknown decoder %s' % dec)


# ------------------------------------------------------------------ reference side: all valid readings of a string
def ref_readings(dec, s, meta):
    if not isinstance(s, str):
        return []
    if dec == 'addr_base58_to_pubkeyhash':
        pl = codec.b58check_decode(s)
        return [{'payload': pl[1:].hex(), 'encoding': 'base58'}] if pl is not None and len(pl) == 21 else []
    if dec == 'addr_bech32_to_pubkeyhash':
        d = codec.segwit_decode(s)
        return [{'script': chain.script_witness(d[1], d[2]).hex(), 'encoding': 'bech32'}] if d else []
    if dec == 'addr_to_pubkeyhash':
        out = []
        pl = codec.b58check_decode(s)
        if pl is not None and len(pl) == 21:
            out.append({'payload': pl[1:].hex()})
        d = codec.segwit_decode(s)
        if d:
            out.append({'payload': d[2].hex()})
        return out
    if dec in ('deserialize_address', 'Address.parse'):
        out = []
        for r in chain.decode_address(s):
            out.append({'payload': r['payload'].hex(), 'encoding': r['encoding'], 'type': r['type'], 'witver': r['witver'],
                        'networks': list(r['networks'])})
        return out
    if dec in ('Key(wif)', 'Key.from_wif'):
        w = chain.wif_decode(s)
        if not w:
            return []
        return [{'is_private': True, 'private_hex': w[1].hex(), 'compressed': w[2], 'networks': list(w[0])}]
    if dec in ('HDKey(ext)', 'HDKey.from_wif'):
        d = bip32.deserialize(s)
        if d is None:
            return []
        ver, xk = d
        priv = xk.secret is not None
        rd = [r for r in chain.hd_prefix_readings(ver) if r[3] == priv]
        if not rd:
            return []
        o = {'is_private': priv, 'chain': xk.chain.hex(), 'depth': xk.depth, 'fp': xk.parent_fp.hex(), 'child': xk.child,
             'readings': [[r[0], r[1], r[2]] for r in rd], 'public_hex': xk.pub.hex()}
        if priv:
            o['private_hex'] = xk.secret.to_bytes(32, 'big').hex()
        return [o]
    if dec == 'Key(bip38)':
        r = _bip38_ref(s, meta)
        if r is None:
            return []
        return [{'is_private': True, 'private_hex': r[0].hex(), 'compressed': r[1]}]
    raise ValueError(dec)


def _bip38_ref(s, meta):
    from vf.refs import bip38
    if codec.b58check_decode(s) is None:          # cheap pre-filter, no scrypt
        return None
    net = meta.get('network') or 'bitcoin'
    try:
        return bip38.decrypt(s, meta['password'], address_fn=bip38.p2pkh_fn(bytes.fromhex(chain.NETWORKS[net]['p2pkh'])))
    except bip38.Bip38Error:
        return None


def compare(dec, s, obs, ref):
    """-> list of differing field names (empty = agreement) between one library observation and one reference reading."""
    diffs = []

    def eq(name):
        if obs.get(name) != ref.get(name):
            diffs.append(name)
    if dec in ('addr_base58_to_pubkeyhash', 'addr_to_pubkeyhash'):
        eq('payload')
    elif dec == 'addr_bech32_to_pubkeyhash':
        eq('script')
    elif dec == 'deserialize_address':
        eq('payload')
        eq('encoding')
        eq('witver')
        if ref['type'] in STD_TYPES:
            eq('type')
        if obs.get('network') not in ref['networks']:
            diffs.append('network')
        if sorted(obs.get('networks') or []) != sorted(ref['networks']):
            diffs.append('networks')
    elif dec == 'Address.parse':
        eq('payload')
        eq('encoding')
        if ref['type'] in STD_TYPES:
            eq('type')
        if obs.get('network') not in ref['networks']:
            diffs.append('network')
        want = s.lower() if ref['encoding'] == 'bech32' else s
        if obs.get('reencode') != want:
            diffs.append('reencode')
    elif dec in ('Key(wif)', 'Key.from_wif'):
        eq('is_private')
        eq('private_hex')
        eq('compressed')
        if obs.get('network') not in ref['networks']:
            diffs.append('network')
        if obs.get('reencode') != s:
            diffs.append('reencode')
    elif dec in ('HDKey(ext)', 'HDKey.from_wif'):
        for f in ('is_private', 'chain', 'depth', 'fp', 'child'):
            eq(f)
        if ref['is_private']:
            eq('private_hex')
        else:
            eq('public_hex')
        if [obs.get('network'), obs.get('witness_type'), obs.get('multisig')] not in ref['readings']:
            diffs.append('network/witness_type/multisig')
        if obs.get('reencode') != s:
            diffs.append('reencode')
    elif dec == 'Key(bip38)':
        eq('is_private')
        eq('private_hex')
        eq('compressed')
    return diffs


# ------------------------------------------------------------------ classifiers (narrow named predicates)
def _b58_lenient(dec, s):
    """Model of the two string-level mechanisms: O/I folded to o/i, short address payload left-padded to 25 bytes.
    -> (features, raw bytes) or None when s has any other character outside the alphabet."""
    feats = []
    s1 = s
    if 'O' in s or 'I' in s:
        feats.append('fold')
        s1 = s.replace('O', 'o').replace('I', 'i')
    raw = codec.b58decode(s1)
    if raw is None:
        return None
    if dec in PAD_DECODERS and len(raw) < 25:
        feats.append('pad')
        raw = b'\0' * (25 - len(raw)) + raw
    return feats, raw


def _first(feats, order):
    for f, key in order:
        if f in feats:
            return key
    return None


def classify_b58_accept(dec, s, meta, obs):
    """The reference rejects s, the library accepted it through a Base58 path: which known mechanism, if any, explains it?"""
    lm = _b58_lenient(dec, s)
    if lm is None:
        return None
    feats, raw = lm
    if len(raw) < 5:
        return None
    payload, chk = raw[:-4], raw[-4:]
    chk_ok = codec._dsha(payload)[:4] == chk
    if dec in ('addr_base58_to_pubkeyhash', 'addr_to_pubkeyhash'):
        if not chk_ok or len(raw) != 25 or obs.get('payload') != payload[1:].hex():
            return None
        return _first(feats, (('pad', K_PAD), ('fold', K_FOLD)))
    if dec in ('deserialize_address', 'Address.parse'):
        if not chk_ok or obs.get('payload') != payload[1:].hex() or obs.get('encoding') != 'base58':
            return None
        if len(payload) != 21:
            feats.append('len')
        if not _ver_networks(payload[0]):
            if dec != 'deserialize_address' or obs.get('network') not in (None, '') or obs.get('networks'):
                return None
            feats.append('unk')
        return _first(feats, (('unk', K_DA_UNK), ('len', K_DA_LEN), ('pad', K_PAD), ('fold', K_FOLD)))
    if dec in ('Key(wif)', 'Key.from_wif'):
        if not chk_ok or not _wif_networks(payload[0]):
            return None
        body = payload[1:]
        ok_len = len(payload) == 33 or (len(payload) == 34 and payload[-1] == 1)
        if not ok_len:
            feats.append('len')
            want = body[:-1] if body[-1:] == b'\x01' else body
            if obs.get('private_hex') != want.hex():
                return None
        return _first(feats, (('len', K_WIF_LEN), ('fold', K_FOLD)))
    if dec in ('HDKey(ext)', 'HDKey.from_wif'):
        if dec == 'HDKey(ext)' and not chain.hd_prefix_readings(raw[:4]) and _wif_networks(raw[0]):
            # no extended-key version, but the first byte is a WIF version: HDKey() takes it for a plain WIF key, whose payload
            # length is not checked
            body = payload[1:]
            ok_len = len(payload) == 33 or (len(payload) == 34 and payload[-1] == 1)
            want = body[:-1] if body[-1:] == b'\x01' else body
            if chk_ok and not ok_len and obs.get('private_hex') == want.hex() and obs.get('depth') == 0 and obs.get('chain') == '00' * 32:
                return _first(feats + ['len'], (('len', K_WIF_LEN),))
            return None
        if len(raw) != 82:
            if dec != 'HDKey(ext)' or len(raw) < 47:       # from_wif checks the length; HDKey() slices fixed offsets
                return None
            feats.append('len')
        rd = chain.hd_prefix_readings(raw[:4])
        if not rd:
            return None
        if (obs.get('depth'), obs.get('fp'), obs.get('child'), obs.get('chain')) != (
                raw[4], raw[5:9].hex(), int.from_bytes(raw[9:13], 'big'), raw[13:45].hex()):
            return None
        kd = raw[45:78]
        if kd[0] == 0:
            if not obs.get('is_private') or obs.get('private_hex') != kd[1:].hex():
                return None
        elif kd[0] in (2, 3):
            if obs.get('is_private') or obs.get('public_hex') != kd.hex():
                return None
        if not chk_ok:
            feats.append('chk')
        if kd[0] in (0, 2, 3) and not [r for r in rd if r[3] == (kd[0] == 0)]:
            feats.append('vmis')
        return _first(feats, (('chk', K_HD_CHK), ('len', K_HD_LEN), ('vmis', K_HD_VMIS), ('fold', K_FOLD)))
    if dec == 'Key(bip38)':
        if len(raw) != 43:
            return None
        r = _bip38_ref(codec.b58check_encode(payload), meta)      # same payload under a correct checksum
        if r is None or obs.get('private_hex') != r[0].hex() or obs.get('compressed') != r[1]:
            return None
        if not chk_ok:
            feats.append('chk')
        return _first(feats, (('chk', K_BIP38_CHK), ('fold', K_FOLD)))
    return None


def classify_accept_invalid(dec, s, meta, obs):
    if dec == 'deserialize_address' and obs.get('encoding') == 'bech32':
        d = codec.segwit_decode(s)
        if d and not _hrp_networks(d[0]) and not obs.get('networks') and obs.get('network') in (None, '') and obs.get('payload') == d[2].hex():
            return K_DA_UNK
        return None
    if dec in ('addr_bech32_to_pubkeyhash',) or obs.get('encoding') == 'bech32':
        return None
    return classify_b58_accept(dec, s, meta, obs)


def classify_mismatch(dec, s, meta, obs, ref, diffs):
    """Both accept but disagree (includes base strings)."""
    if dec in ('Key(wif)', 'Key.from_wif'):
        sec = bytes.fromhex(ref['private_hex'])
        if (not ref['compressed'] and sec[-1] == 1 and obs.get('compressed') is True and obs.get('private_hex') == sec[:-1].hex()
                and set(diffs) <= {'private_hex', 'compressed', 'reencode'}):
            return K_WIF_END01
        return None
    if dec == 'deserialize_address':
        if set(diffs) <= {'network', 'networks'} and not obs.get('networks') and obs.get('network') in (None, '') and \
                ref['encoding'] == 'bech32' and s != s.lower():
            return K_DA_UNK           # HRP compared in upper case: no network matches, still no refusal
        return None
    if dec == 'Address.parse' and ref['encoding'] == 'bech32' and diffs and set(diffs) <= {'reencode', 'payload'}:
        d = codec.segwit_decode(s)
        if d is None:
            return None
        hrp, ver, prog = d
        if len(prog) in (20, 32, 40):
            if diffs != ['reencode']:
                return None
            if ver >= 1 and obs.get('reencode') == codec.segwit_encode(hrp, 0, prog):
                return K_PARSE_WITVER
            return None
        return K_B32ENC_LEN          # program handed to the encoder whose 20/32/40 heuristic misreads it
    return None


def classify_base_refused(dec, s, meta, text):
    if dec == 'addr_to_pubkeyhash' and text.startswith('AssertionError') and codec.segwit_decode(s):
        # a short Bech32 string made of Base58 characters only: the Base58 attempt pads it to 25 bytes and its checksum
        # assert (not an EncodingError) escapes before the Bech32 decoder is tried
        lm = _b58_lenient(dec, s)
        if lm is not None and len(lm[1]) == 25:
            return K_A2P_ASSERT
    if dec == 'Address.parse':
        d = codec.segwit_decode(s)
        if d and len(d[2]) not in (20, 32, 40) and 'pubkeyhash' in text:
            return K_B32ENC_LEN
    return None


# ------------------------------------------------------------------ judging one (decoder, string)
class Tally:
    """Aggregates per-class counts so that the collector is not called once per decode."""

    def __init__(self):
        self.n = {}
        self.ident = {}
        self.sample = {}

    def add(self, cls, ident, sample):
        self.n[cls] = self.n.get(cls, 0) + 1
        if ident is not None and cls not in self.ident:
            self.ident[cls] = ident
        if cls not in self.sample:
            self.sample[cls] = sample

    def flush(self, col):
        for cls, n in self.n.items():
            col.case(cls, nontrivial=self.ident.get(cls), sample=self.sample.get(cls), n=n)
        self.n.clear()


def judge(col, tally, dec, s, meta, kind, posc, is_base, base_ok=True):
    """Runs one decoder on one string and applies rules (a)(b)(c). Returns True when the library accepted."""
    case = {'decoder': dec, 's': s, 'meta': meta, 'kind': kind, 'is_base': is_base}
    refs = ref_readings(dec, s, meta)
    if is_base and not refs:
        col.note_inconclusive('harness error: generated base string %r (%s) is rejected by the reference for %s' % (s, meta['cls'], dec))
        return False
    st, obs = lib_call(dec, s, meta)
    col.probe(dec)
    col.probe('ref-valid' if refs else 'ref-invalid')
    cls = '%s/%s/%s' % (meta['cls'], kind, dec)
    if is_base:
        base_ok = st == 'ok'
    ident = (dec, meta['cls'], kind, posc) if base_ok else None      # non-trivial only where the base string was accepted
    tally.add('%s/%s' % (cls, posc) if posc else cls, ident, {'decoder': dec, 's': s, 'kind': kind, 'reference_valid': bool(refs),
                                                              'library': st})
    if st == 'refused':
        col.probe('lib-refused')
        if is_base:
            col.violation(classify_base_refused(dec, s, meta, obs), '(c) %s refuses the valid %s string %s: %s' % (dec, meta['cls'], s, obs),
                          case, obs, refs[:1])
        return False
    col.probe('lib-accepted')
    if not refs:
        col.probe('rule-a-evaluated')
        key = classify_accept_invalid(dec, s, meta, obs)
        col.violation(key, '(a) %s accepts %r (%s of a %s string) which is not a valid encoding' % (dec, s, kind, meta['cls']),
                      case, obs, 'refusal')
        return True
    col.probe('rule-b-evaluated')
    best = None
    for r in refs:
        d = compare(dec, s, obs, r)
        if best is None or len(d) < len(best[0]):
            best = (d, r)
    if best[0]:
        key = classify_mismatch(dec, s, meta, obs, best[1], best[0])
        col.violation(key, '(%s) %s decodes %r (%s of a %s string) differently from the reference: %s' % (
            'c' if is_base else 'b', dec, s, kind, meta['cls'], ','.join(best[0])), case, obs, best[1])
    return True


def reencode_check(col, tally, base, only_form=None):
    """(c) function-level: library decoder followed by library encoder returns the identical string, through every calling
    convention of the encoders (bare payload + version, complete witness script, pubkeyhash_to_addr wrapper)."""
    enc = _lib()['enc']
    s, meta = base['s'], base['meta']
    fam = meta['family']
    forms = []
    if fam == 'b58addr':
        pl = codec.b58check_decode(s)
        forms.append(('payload', lambda: enc.pubkeyhash_to_addr_base58(enc.addr_base58_to_pubkeyhash(s), prefix=pl[:1])))
        forms.append(('wrapper', lambda: enc.pubkeyhash_to_addr(enc.addr_to_pubkeyhash(s), prefix=pl[:1], encoding='base58')))
        forms.append(('hex', lambda: enc.pubkeyhash_to_addr_base58(enc.addr_base58_to_pubkeyhash(s, as_hex=True), prefix=pl[:1].hex())))
    elif fam == 'bech32':
        hrp = s[:s.rfind('1')]
        d = codec.segwit_decode(s)
        forms.append(('script', lambda: enc.pubkeyhash_to_addr_bech32(enc.addr_bech32_to_pubkeyhash(s, include_witver=True), prefix=hrp)))
        if d and len(d[2]) in (20, 32, 40):          # documented convention: a 20/32/40 byte input is the bare witness program
            forms.append(('program', lambda: enc.pubkeyhash_to_addr_bech32(enc.addr_bech32_to_pubkeyhash(s), prefix=hrp, witver=d[1])))
            forms.append(('wrapper', lambda: enc.pubkeyhash_to_addr(enc.addr_to_pubkeyhash(s), prefix=hrp, encoding='bech32', witver=d[1])))
            forms.append(('hex', lambda: enc.pubkeyhash_to_addr_bech32(enc.addr_bech32_to_pubkeyhash(s, as_hex=True), prefix=hrp, witver=d[1])))
    for form, fn in forms:
        if only_form and form != only_form:
            continue
        case = {'decoder': 'reencode', 'form': form, 's': s, 'meta': meta, 'kind': 'base', 'is_base': True}
        try:
            got = fn()
        except Exception as e:
            got = 'EXC %s: %s' % (type(e).__name__, e)
        col.probe('reencode')
        tally.add('%s/base/reencode-%s' % (meta['cls'], form), ('reencode', form, meta['cls']), {'decoder': 'reencode', 'form': form, 's': s})
        if got != s:
            key = None
            if fam == 'bech32' and form == 'script':
                d = codec.segwit_decode(s)
                if d and len(d[2]) in (18, 30, 38):     # script form is 20/32/40 bytes long and is taken for a bare program
                    key = K_B32ENC_LEN
            col.violation(key, '(c) decode + encode (%s form) of %s gives %s' % (form, s, got), case, got, s)


# ------------------------------------------------------------------ generators
def _hash_feature(rnd, n, i):
    f = i % 6
    if f == 0:
        return b'\0' + rnd.randbytes(n - 1), 'lead0'
    if f == 1:
        return b'\0\0' + rnd.randbytes(n - 2), 'lead00'
    if f == 2:
        return rnd.randbytes(n - 1) + b'\0', 'trail0'
    if f == 3:
        return _header_like(rnd, n, rnd.choice(HDR_FIRST), n - 2), 'hdr'
    return rnd.randbytes(n), 'rnd'


HDR_FIRST = [0x00] + list(range(0x51, 0x61))          # OP_0, OP_1..OP_16: what a witness script starts with
HDR_SECOND = [0x12, 0x1e, 0x26, 0x14, 0x20, 0x28]      # push sizes of 18/30/38 and 20/32/40 byte programs


def _header_like(rnd, n, first, second):
    """payload that looks like the head of a script / witness program: <version opcode><push size>..."""
    return bytes([first, second]) + rnd.randbytes(n - 2)


def _secret_feature(rnd, i):
    f = i % 8
    if f == 0:
        z = rnd.randint(1, 3)
        return b'\0' * z + bytes([rnd.randint(1, 255)]) + rnd.randbytes(31 - z), 'lead0'
    if f == 1:
        return rnd.randbytes(31) + b'\x01', 'ends01'
    if f == 2:
        return rnd.randint(1, 1000).to_bytes(32, 'big'), 'small'
    if f == 3:
        return (ec.N - rnd.randint(1, 1000)).to_bytes(32, 'big'), 'near-n'
    while True:
        b = rnd.randbytes(32)
        if 1 <= int.from_bytes(b, 'big') < ec.N:
            return b, 'rnd'


def gen_bases(seed, counts):
    """Deterministic list of base strings for a seed (identical in every shard). counts: family -> number of strings that are
    mutated exhaustively; all other base strings are only judged by rule (c)."""
    rnd = random.Random('%s-%d-bases' % (ID, seed))
    bases = []

    def add(s, family, cls, **meta):
        meta.update({'family': family, 'cls': cls})
        bases.append({'s': s, 'meta': meta, 'mutate': False})

    nets = chain.NETWORK_NAMES
    # --- Base58 addresses
    i = rnd.randrange(6)
    for rep in range(2):
        for n in nets:
            for kind in ('p2pkh', 'p2sh'):
                h, hf = _hash_feature(rnd, 20, i)
                i += 1
                add(chain.address_base58(n, kind, h), 'b58addr', 'b58addr/%s/%s' % (n, kind), network=n, hashfeat=hf)
    # --- Bech32 / Bech32m
    for n in nets:
        hrp = chain.NETWORKS[n]['hrp']
        for ver, ln in ((0, 20), (0, 32), (1, 32)):
            h, hf = _hash_feature(rnd, ln, i)
            i += 1
            add(codec.segwit_encode(hrp, ver, h), 'bech32', 'bech32/v%s-%d' % ('0' if ver == 0 else '1', ln), network=n, hashfeat=hf)
    for ver in range(1, 17):
        n = rnd.choice(nets)
        ln = rnd.choice([20, 32, 32, 40, 2, 18, 30, 33, 38])
        add(codec.segwit_encode(chain.NETWORKS[n]['hrp'], ver, rnd.randbytes(ln)), 'bech32',
            'bech32/v%s-%s' % ('1' if ver == 1 else '2+', ln if ln in (20, 32, 40) else 'odd'), network=n, hashfeat='rnd')
    # --- payloads that look like script / witness-program headers (rule (c) incl. every re-encode form)
    for ver, ln in ((0, 20), (0, 32), (1, 32), (1, 20), (rnd.randrange(2, 17), 40), (rnd.randrange(2, 17), 32)):
        firsts = [0x00, 0x51, 0x60, rnd.randrange(0x52, 0x60)]
        for first in firsts:
            for second in (ln - 2, rnd.choice([x for x in HDR_SECOND if x != ln - 2])):
                n = rnd.choice(nets)
                add(codec.segwit_encode(chain.NETWORKS[n]['hrp'], ver, _header_like(rnd, ln, first, second)), 'bech32',
                    'bech32/v%s-%d-hdr' % ('0' if ver == 0 else '1' if ver == 1 else '2+', ln), network=n, hashfeat='hdr')
    for kind in ('p2pkh', 'p2sh'):
        for first, second in ((0x00, 0x12), (0x51, 0x12), (0x00, 0x14), (0x76, 0xa9), (0xa9, 0x14)):
            n = rnd.choice(nets)
            add(chain.address_base58(n, kind, _header_like(rnd, 20, first, second)), 'b58addr', 'b58addr/%s/%s' % (n, kind), network=n, hashfeat='hdr')
    # --- WIF
    j = rnd.randrange(8)
    for n in nets:
        for comp in (True, False):
            sec, sf = _secret_feature(rnd, j)
            j += 1
            add(chain.wif_encode(n, sec, comp), 'wif', 'wif/%s' % ('c' if comp else 'u'), network=n, secretfeat=sf)
    for comp in (True, False):
        for f in range(4):
            sec, sf = _secret_feature(rnd, f)
            n = rnd.choice(nets)
            add(chain.wif_encode(n, sec, comp), 'wif', 'wif/%s' % ('c' if comp else 'u'), network=n, secretfeat=sf)
    # --- extended keys: every prefix of the golden table
    children = [0, 1, 2 ** 31 - 1, 2 ** 31, 2 ** 32 - 1]
    for n in nets:
        for wt in sorted(chain.NETWORKS[n]['hd']):
            for ms in (False, True):
                for priv in (True, False):
                    sec, sf = _secret_feature(rnd, j)
                    j += 1
                    k = int.from_bytes(sec, 'big')
                    depth = rnd.choice([0, 1, 2, 3, 5, 127, 128, 255])
                    if depth == 0:
                        fp, child = b'\0\0\0\0', 0
                    else:
                        fp = rnd.randbytes(4)
                        child = rnd.choice(children + [rnd.getrandbits(32)])
                    xk = bip32.XKey(k, ec.mul_g(k), rnd.randbytes(32), depth, fp, child)
                    ver = chain.hd_prefix(n, wt, ms, priv)
                    add(xk.serialize(ver, priv), 'xkey', 'xkey/%s' % ('priv' if priv else 'pub'), network=n, witness_type=wt,
                        multisig=ms, secretfeat=sf)
    # --- BIP38 (non-EC)
    nb = counts.get('bip38_bases', 2)
    for b in range(nb):
        sec, sf = _secret_feature(rnd, 4 + b)     # random secrets; edge secrets add nothing to the text encoding
        comp = rnd.random() < 0.5
        is_ec = b % 2 == 1
        n = 'testnet' if (b % 4 == 2) else 'bitcoin'          # EC-multiplied only on bitcoin
        lot = rnd.choice([None, rnd.randrange(100000, 1000000)]) if is_ec else None
        pw = rnd.choice(['pw', 'TestingOneTwoThree', 'correct horse', 'x'])
        add(None, 'bip38', 'bip38/%s-%s' % ('ec' if is_ec else 'noec', 'c' if comp else 'u'), network=n, password=pw, secret=sec.hex(),
            compressed=comp, ec=is_ec, lot=lot, seq=rnd.randrange(4096) if lot is not None else None,
            salt=rnd.randbytes(4 if lot is not None else 8).hex(), seedb=rnd.randbytes(24).hex())
    # --- which bases get the exhaustive mutant sweep
    by_fam = {}
    for idx, b in enumerate(bases):
        fam = b['meta']['family']
        if fam == 'xkey':
            fam = b['meta']['cls']
        by_fam.setdefault(fam, []).append(idx)
    for fam, want in (('b58addr', counts['b58addr']), ('bech32', counts['bech32']), ('wif', counts['wif']),
                      ('xkey/pub', counts['xpub']), ('xkey/priv', counts['xprv'])):
        pool = by_fam[fam]
        chosen = []
        if fam == 'b58addr':
            # the padding mechanism only shows on strings with leading '1' (bitcoin/regtest p2pkh): always keep one of them
            lead = [x for x in pool if bases[x]['s'].startswith('1')]
            chosen.append(rnd.choice(lead))
        rest = [x for x in pool if x not in chosen]
        rnd.shuffle(rest)
        while len(chosen) < want:
            if not rest:
                break
            chosen.append(rest.pop())
        for x in chosen:
            bases[x]['mutate'] = True
    # more sweeps than distinct bases requested (thorough): add fresh strings of the same family
    extra = {'b58addr': counts['b58addr'] - len(by_fam['b58addr']), 'bech32': counts['bech32'] - len(by_fam['bech32']),
             'wif': counts['wif'] - len(by_fam['wif']), 'xkey/pub': counts['xpub'] - len(by_fam['xkey/pub']),
             'xkey/priv': counts['xprv'] - len(by_fam['xkey/priv'])}
    for fam, n_extra in extra.items():
        for _ in range(max(0, n_extra)):
            src = bases[rnd.choice(by_fam[fam])]
            m = dict(src['meta'])
            n = m['network']
            if fam == 'b58addr':
                kind = m['cls'].split('/')[2]
                h, m['hashfeat'] = _hash_feature(rnd, 20, rnd.randrange(6))
                s = chain.address_base58(n, kind, h)
            elif fam == 'bech32':
                d = codec.segwit_decode(src['s'])
                s = codec.segwit_encode(d[0], d[1], rnd.randbytes(len(d[2])))
            elif fam == 'wif':
                sec, m['secretfeat'] = _secret_feature(rnd, rnd.randrange(8))
                s = chain.wif_encode(n, sec, m['cls'].endswith('/c'))
            else:
                priv = fam.endswith('priv')
                sec, m['secretfeat'] = _secret_feature(rnd, rnd.randrange(8))
                k = int.from_bytes(sec, 'big')
                depth = rnd.randrange(256)
                xk = bip32.XKey(k, ec.mul_g(k), rnd.randbytes(32), depth, rnd.randbytes(4) if depth else b'\0' * 4,
                                rnd.choice(children + [rnd.getrandbits(32)]) if depth else 0)
                s = xk.serialize(chain.hd_prefix(n, m['witness_type'], m['multisig'], priv), priv)
            bases.append({'s': s, 'meta': m, 'mutate': True})
    return bases


def _posclass(fam, s, pos):
    if pos is None:
        return ''
    if fam == 'bech32':
        sep = s.rfind('1')
        if pos <= sep:
            return 'hrp'
        if pos == sep + 1:
            return 'witver'
        return 'chk' if pos >= len(s) - 6 else 'body'
    if pos < 4:
        return 'head'
    return 'tail' if pos >= len(s) - 6 else 'body'


def single_edits(s, alphabet):
    """Exhaustive single-character edits: yields (kind, pos, mutant), duplicates and the identity removed."""
    seen = {s}
    for i, c in enumerate(s):
        for a in alphabet:
            if a != c:
                m = s[:i] + a + s[i + 1:]
                if m not in seen:
                    seen.add(m)
                    yield 'sub', i, m
    for i in range(len(s) + 1):
        for a in alphabet:
            m = s[:i] + a + s[i:]
            if m not in seen:
                seen.add(m)
                yield 'ins', i, m
    for i in range(len(s)):
        m = s[:i] + s[i + 1:]
        if m not in seen:
            seen.add(m)
            yield 'del', i, m
    for i in range(len(s) - 1):
        m = s[:i] + s[i + 1] + s[i] + s[i + 2:]
        if m not in seen:
            seen.add(m)
            yield 'swap', i, m
    for i, c in enumerate(s):
        if c.swapcase() != c:
            m = s[:i] + c.swapcase() + s[i + 1:]
            if m not in seen:
                seen.add(m)
                yield 'caseflip', i, m


def structured(base, rnd):
    """Named multi-character / payload-level damage: yields (kind, pos, mutant)."""
    s, meta = base['s'], base['meta']
    fam = meta['family']
    out = []
    b58 = fam != 'bech32'
    lead = '1' if b58 else 'q'
    # dropped / added leading characters
    for k in (1, 2, 3):
        out.append(('droplead', 0, s[k:]))
    stripped = s.lstrip('1') if b58 else None
    if b58 and stripped != s:
        out.append(('droplead', 0, stripped))
        out.append(('droplead', 0, '1' + stripped) if len(s) - len(stripped) > 1 else ('droplead', 0, stripped))
    for k in (1, 2):
        out.append(('addlead', 0, lead * k + s))
    if not b58:
        sep = s.rfind('1')
        out.append(('addlead', sep + 1, s[:sep + 1] + 'q' + s[sep + 1:]))
        out.append(('droplead', sep + 1, s[:sep + 1] + s[sep + 2:]))
        out.append(('droplead', sep, s[:sep] + s[sep + 1:]))            # separator lost
        out.append(('addlead', sep, s[:sep] + '1' + s[sep:]))            # doubled separator
    # case
    out.append(('case', None, s.upper()))
    out.append(('case', None, s.lower()))
    out.append(('case', None, s.swapcase()))
    out.append(('case', None, ''.join(c.upper() if i % 2 else c.lower() for i, c in enumerate(s))))
    half = len(s) // 2
    out.append(('case', None, s[:half].lower() + s[half:].upper()))
    out.append(('case', None, s[:half].upper() + s[half:].lower()))
    if not b58:
        sep = s.rfind('1')
        out.append(('case', None, s[:sep].upper() + s[sep:]))
        out.append(('case', None, s[:sep] + s[sep:].upper()))
    # truncation / padding
    for k in range(1, 9):
        out.append(('trunc', len(s) - k, s[:-k]))
    if fam in ('b58addr', 'bech32'):
        out.append(('trunc', 0, ''))          # Key('') / HDKey('') mean "generate a new key" by documented design
    for pad in (' ', '\n', '\t', '\0', '=', '1', 'q', 'a', s[-1], 'é', '€'):
        out.append(('pad', len(s), s + pad))
    for pad in (' ', '\n', '0'):
        out.append(('pad', 0, pad + s))
    out.append(('pad', len(s), s + s))
    out.append(('pad', half, s[:half] + ' ' + s[half:]))
    # payload-level: wrong checksum constant / unknown version / wrong length, all with a CORRECT checksum
    if fam == 'bech32':
        hrp, data, const = codec.bech32_decode(s)
        other = codec.BECH32M_CONST if const == codec.BECH32_CONST else codec.BECH32_CONST
        out.append(('const', None, codec.bech32_encode(hrp, data, other)))
        out.append(('const', None, codec.bech32_encode(hrp, data, other).upper()))
        out.append(('const', None, codec.bech32_encode(hrp, data, 0)))
        out.append(('const', None, codec.bech32_encode(hrp, data, other ^ 1)))
        ver, prog = data[0], bytes(codec.convertbits(data[1:], 5, 8, False))
        for h in ('xx', 'bc1', 'b', hrp + 'x', hrp[:-1] or 'z', 'BC' if hrp != 'bc' else 'TB', 'bcr', 'lt'):
            if not _hrp_networks(h.lower()):
                out.append(('unkver', None, codec.segwit_encode(h, ver, prog)))
        for v in (17, 31):
            c = codec.BECH32M_CONST
            out.append(('unkver', None, codec.bech32_encode(hrp, [v] + codec.convertbits(prog, 8, 5), c)))
        for ln in (0, 1, 2, 19, 21, 31, 33, 40, 41, 45):
            if ln != len(prog):
                p = rnd.randbytes(ln)
                out.append(('len', None, codec.bech32_encode(hrp, [ver] + codec.convertbits(p, 8, 5), const)))
        out.append(('len', None, codec.bech32_encode(hrp, [ver] + codec.convertbits(prog, 8, 5) + [0], const)))       # extra zero group
        out.append(('len', None, codec.bech32_encode(hrp, [ver] + codec.convertbits(prog, 8, 5)[:-1] + [31], const)))  # non-zero padding
        out.append(('len', None, codec.bech32_encode(hrp, [], const)))
    else:
        pl = codec.b58check_decode(s)
        if fam == 'b58addr':
            known = {int(chain.NETWORKS[n][k], 16) for n in chain.NETWORK_NAMES for k in ('p2pkh', 'p2sh')}
            for v in (0x01, 0x04, 0x06, 0x42, 0x80, 0xff, rnd.choice([x for x in range(256) if x not in known])):
                if v not in known:
                    out.append(('unkver', None, codec.b58check_encode(bytes([v]) + pl[1:])))
            for ln in (0, 1, 10, 19, 21, 22, 25, 32, 33, 40):
                out.append(('len', None, codec.b58check_encode(pl[:1] + rnd.randbytes(ln))))
            out.append(('len', None, codec.b58check_encode(pl + b'\0')))
            out.append(('len', None, codec.b58check_encode(pl[:-1])))
        elif fam == 'wif':
            known = {int(chain.NETWORKS[n]['wif'], 16) for n in chain.NETWORK_NAMES}
            for v in (0x00, 0x05, 0x42, 0x81, 0xff, rnd.choice([x for x in range(256) if x not in known])):
                if v not in known:
                    out.append(('unkver', None, codec.b58check_encode(bytes([v]) + pl[1:])))
            sec = pl[1:33]
            for body in (sec[:31], sec[:16], sec + b'\x01\x01', sec + b'\x02', sec + b'\x00', sec + sec, b'', sec[:1]):
                out.append(('len', None, codec.b58check_encode(pl[:1] + body)))
        elif fam == 'xkey':
            for v in (b'\x04\x88\xb2\x1f', b'\x00\x00\x00\x00', b'\xff\xff\xff\xff', rnd.randbytes(4),
                      b'\x80' + rnd.randbytes(3), b'\xef' + rnd.randbytes(3)):      # the last two start with a WIF version byte
                if not chain.hd_prefix_readings(v):
                    out.append(('unkver', None, codec.b58check_encode(v + pl[4:])))
            for body in (pl[:-1], pl + b'\0', pl[:45], pl[:4], pl + pl[45:]):
                out.append(('len', None, codec.b58check_encode(body)))
            # version says private, key data public (and the reverse): opposite-privacy prefix of the same network/type
            priv = pl[45] == 0
            n, wt, ms = meta['network'], meta['witness_type'], meta['multisig']
            other_ver = chain.hd_prefix(n, wt, ms, not priv)
            out.append(('vermismatch', None, codec.b58check_encode(other_ver + pl[4:])))
        elif fam == 'bip38':
            out.append(('unkver', None, codec.b58check_encode(b'\x01\x41' + pl[2:])))
            out.append(('unkver', None, codec.b58check_encode(pl[:2] + b'\x20' + pl[3:])))
            out.append(('unkver', None, codec.b58check_encode(pl[:2] + b'\xc8' + pl[3:])))
            out.append(('unkver', None, codec.b58check_encode(pl[:2] + b'\x00' + pl[3:])))
            out.append(('len', None, codec.b58check_encode(pl[:-1])))
            out.append(('len', None, codec.b58check_encode(pl + b'\0')))
    # random multi-character damage
    alpha = B58_SUB if b58 else B32_SUB
    for _ in range(24):
        m = list(s)
        for p in rnd.sample(range(len(s)), rnd.randint(2, 4)):
            m[p] = rnd.choice(alpha)
        out.append(('multi', None, ''.join(m)))
    seen = {s}
    for kind, pos, m in out:
        if m not in seen:
            seen.add(m)
            yield kind, pos, m


def all_mutants(base, rnd):
    s = base['s']
    alpha = B32_SUB if base['meta']['family'] == 'bech32' else B58_SUB
    seen = set()
    for kind, pos, m in structured(base, rnd):
        seen.add(m)
        yield kind, pos, m
    for kind, pos, m in single_edits(s, alpha):
        if m not in seen:
            yield kind, pos, m


def bip38_sample(base, rnd, n):
    """Stratified sample of mutants of a BIP38 string (each costs one scrypt): half of the single edits from the checksum
    region, the rest spread, plus the structured ones that keep the 58-character 6P shape."""
    s = base['s']
    st = list(structured(base, rnd))
    keep = [x for x in st if x[0] in ('unkver', 'len', 'case', 'pad', 'trunc')]
    rnd.shuffle(keep)
    edits = list(single_edits(s, B58_SUB))
    tail = [e for e in edits if e[0] in ('sub', 'swap', 'caseflip') and e[1] >= len(s) - 6]
    body = [e for e in edits if e[0] in ('sub', 'swap', 'caseflip') and e[1] < len(s) - 6]
    other = [e for e in edits if e[0] in ('ins', 'del')]
    out = rnd.sample(tail, min(len(tail), max(2, n // 3))) + rnd.sample(body, min(len(body), max(2, n // 3)))
    out += rnd.sample(other, min(len(other), max(1, n // 8)))
    out += keep[:max(2, n - len(out))]
    return out[:max(n, 6)]


# ------------------------------------------------------------------ plan / shards / replay
QUICK = {'b58addr': 10, 'bech32': 10, 'wif': 4, 'xpub': 3, 'xprv': 1, 'bip38_bases': 2, 'bip38_mutants': 40}
THOROUGH = {'b58addr': 240, 'bech32': 240, 'wif': 60, 'xpub': 36, 'xprv': 14, 'bip38_bases': 24, 'bip38_mutants': 1500}


def plan(tier, seed, scale=1.0):
    base = THOROUGH if tier == 'thorough' else QUICK
    counts = {k: max(1, int(round(v * scale))) for k, v in base.items()}
    nshard = 16
    return [{'shard': i, 'nshard': nshard, 'counts': counts} for i in range(nshard)]


def _selfchecks(col, need_bip38):
    try:
        codec.selfcheck()
        chain.selfcheck()
        bip32.selfcheck()
        if need_bip38:
            from vf.refs import bip38
            bip38.selfcheck(full=False)
    except Exception as e:
        col.note_inconclusive('reference self-check failed: %r' % (e,))
        return False
    return True


def _make_bip38(base):
    from vf.refs import bip38
    m = base['meta']
    fn = bip38.p2pkh_fn(bytes.fromhex(chain.NETWORKS[m['network']]['p2pkh']))
    if m['ec']:
        ic = bip38.intermediate_code(m['password'], bytes.fromhex(m['salt']), m['lot'], m['seq'])
        base['s'] = bip38.generate(ic, bytes.fromhex(m['seedb']), m['compressed'], address_fn=fn)['encrypted']
    else:
        base['s'] = bip38.encrypt(bytes.fromhex(m['secret']), m['compressed'], m['password'], address_fn=fn)


def run_shard(spec, col):
    sh, ns, counts = spec['shard'], spec['nshard'], spec['counts']
    bases = gen_bases(spec['seed'], counts)
    b38 = [(bi, b) for bi, b in enumerate(bases) if b['meta']['family'] == 'bip38']
    # BIP38 work (0.5 s scrypt per decode) goes to as few shards as keeps them busy; the others skip the scrypt self-check
    b38_shards = min(ns, max(1, (len(b38) + counts['bip38_mutants']) // 10))
    if not _selfchecks(col, need_bip38=sh < b38_shards):
        return
    for d in ALL_DECODERS:
        if d != 'Key(bip38)':
            col.require(d)
    col.require('rule-a-evaluated')
    col.require('rule-b-evaluated')
    col.require('reencode')
    tally = Tally()
    rnd = random.Random('%s-%d-%d' % (ID, spec['seed'], sh))
    job = 0
    # ---- rule (c) on every base string (striped), then the exhaustive sweeps (striped per mutant)
    accepted = {}          # (base index, decoder) -> bool, needed for the non-triviality rule; recomputed by every shard for swept bases
    for bi, base in enumerate(bases):
        fam = base['meta']['family']
        if fam == 'bip38':
            continue
        mine = bi % ns == sh
        if mine or base['mutate']:
            for dec in FAMILY_DECODERS[fam]:
                if mine:
                    accepted[(bi, dec)] = judge(col, tally, dec, base['s'], base['meta'], 'base', '', True)
                else:
                    accepted[(bi, dec)] = lib_call(dec, base['s'], base['meta'])[0] == 'ok'
            if mine:
                reencode_check(col, tally, base)
    for bi, base in enumerate(bases):
        if not base['mutate']:
            continue
        fam = base['meta']['family']
        mrnd = random.Random('%s-%d-mut-%d' % (ID, spec['seed'], bi))      # same mutant list in every shard
        for kind, pos, m in all_mutants(base, mrnd):
            job += 1
            if job % ns != sh:
                continue
            posc = _posclass(fam, base['s'], pos)
            for dec in FAMILY_DECODERS[fam]:
                judge(col, tally, dec, m, base['meta'], kind, posc, False, accepted.get((bi, dec), False))
    # ---- BIP38: bases and a stratified sample of mutants; one job = one scrypt-heavy decode, striped over few shards
    if sh < b38_shards:
        col.require('Key(bip38)')
        per_base = max(6, counts['bip38_mutants'] // max(1, len(b38)))
        j = 0
        for idx, (bi, base) in enumerate(b38):
            _make_bip38(base)
            if idx % b38_shards == sh:
                ok = judge(col, tally, 'Key(bip38)', base['s'], base['meta'], 'base', '', True)
            else:
                ok = lib_call('Key(bip38)', base['s'], base['meta'])[0] == 'ok'
            mrnd = random.Random('%s-%d-mut-%d' % (ID, spec['seed'], bi))
            for kind, pos, m in bip38_sample(base, mrnd, per_base):
                j += 1
                if j % b38_shards == sh:
                    judge(col, tally, 'Key(bip38)', m, base['meta'], kind, _posclass('bip38', base['s'], pos), False, ok)
    tally.flush(col)


def replay(case, col):
    _selfchecks(col, need_bip38=case['decoder'] == 'Key(bip38)')
    tally = Tally()
    meta = case['meta']
    if case['decoder'] == 'reencode':
        reencode_check(col, tally, {'s': case['s'], 'meta': meta}, only_form=case.get('form'))
    else:
        judge(col, tally, case['decoder'], case['s'], meta, case.get('kind', 'replay'), '', bool(case.get('is_base')))
    tally.flush(col)
