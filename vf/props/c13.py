"""C13 - ECDSA signatures are valid, strictly DER encoded, low-S, deterministic, never share a nonce; the
library's verifier accepts a (digest, signature, public key) triple exactly when standard ECDSA does.

Monitor shapes
  * record-and-continue postcondition probe on the real `Signature.create` (and a call counter on the
    module-level `sign` in every bitcoinlib.* namespace that holds a reference): every signature produced by
    any workload - harness calls and calls made inside the library while signing transactions - is judged by
    the independent reference in vf.refs.secp256k1;
  * history monitor: a nonce table  r -> {(key, digest mod n)}  over all signatures with a derived nonce;
  * differential on the verifier: library verdict (True = accept, False or any exception = reject) against
    the reference verdict for constructed triples.
"""
import random

from vf.refs import secp256k1 as R

ID = 'C13'
LEVEL = 'exploration'
ANCHORS = ['bitcoinlib/keys.py', 'bitcoinlib/encoding.py']
DEPS = ()
RULE = ('signatures: every Signature.create/sign result over keys {1, 2, n-2, n-1, short, random} x digests '
        '{0, 1, n-1, n, n+1, 2^255, 2^256-1, zero-heavy, random, >32-byte message} x nonce modes {derived, '
        'explicit random, explicit with s constructed into (n//2, 2^255], explicit boundary controls, random-k '
        'opt-out} x hash-type bytes 0..255 x call forms (create/sign, Key/HDKey/hex key, bytes/hex digest), plus '
        'signatures made inside Transaction.sign; verifier triples: reference-signed (r,s) in forms '
        '{object, raw, raw hex, DER, DER hex} x public-key forms x classes {valid, high-S twin, r/s in {0,n,n+1,+n,negated}, '
        'swapped, wrong key, digest+-1, digest+n, off-curve / garbage public key, malformed DER, lax DER, short '
        'DER, wrong raw length, bytes behind the hash-type byte, bytes between DER and hash-type byte} x entry points {verify(), '
        'Signature.parse / parse_bytes / parse_hex, parse with key, Stack.op_checksig}; verifier sequences: 2-5 calls on ONE Signature object (built from r,s / parsed raw / parsed DER / '
        'parsed with key / created by the library) mixing valid, digest+-1, other digest, wrong and neighbouring key in '
        'valid-first, invalid-first and random order, through the method and the module function, with omitted arguments; non-trivial = distinct (key class, digest class, nonce mode, hash-type bucket, '
        'form) resp. (triple class, signature form, public-key form, api)')
TRUSTED_BASE = ['vf/refs/secp256k1.py (Jacobian arithmetic, SEC1 verify, BIP66 strict DER; self-checked on G, 2G, (n-1)G '
                'and a sign/verify/twin vector)',
                'hashlib.sha256 for the double hash of messages longer than 32 bytes']
ASSUMPTIONS = ['fastecdsa code path (USE_FASTECDSA); the pure-python ecdsa fallback is not exercised',
               'RFC 6979 bit-exactness is not demanded: only determinism, dependence on key and digest (nonce table) and validity',
               'the pair identity in the nonce table is (secret, digest mod n): digests z and z+n are the same ECDSA message',
               'use_rfc6979=False is an explicit opt-out of determinism: validity, low-S, DER and the nonce table still apply',
               'lax-but-decodable DER (BIP66 violations that still decode to an (r,s)) may be accepted or refused; '
               'accepting it is a violation only when the decoded (r,s) does not verify',
               'any raised exception is a refusal (DESIGN 2.4)']
EXHAUSTIVE = ['hash-type bytes 0..255']

N = R.N
HALF = N // 2            # integer half order: low-S means s <= HALF
SIGHASH_ALL = 1

K_LOWS = 'C13/low-s/float-half-order'
K_SHORTDER = 'C13/verify/short-der-refused'
K_HEXPUB = 'C13/verify/hex-string-public-key-refused'
K_HEXCASE = 'C13/determinism/nonce-depends-on-hex-case'

_ST = {'installed': False, 'col': None, 'busy': False, 'ctx': None, 'judged': 0, 'nonces': {}, 'orig_create': None,
       'orig_sign': None, 'namespaces': []}


# ------------------------------------------------------------------ helpers
def _h32(z):
    return '%064x' % z


def _dsha(b):
    return R.dsha256(b)


def _kcls(d):
    if d in (1, 2):
        return 'tiny'
    if d >= N - 2:
        return 'n-1'
    if d < 2 ** 128:
        return 'short'
    return 'random'


def _zcls(z):
    if z == 0:
        return 'zero'
    if z == 1:
        return 'one'
    if z in (N - 1, N, N + 1):
        return 'n%+d' % (z - N) if z != N else 'n'
    if z == 2 ** 256 - 1:
        return 'max'
    if z == 2 ** 255:
        return '2^255'
    if z > N:
        return 'gt-n'
    zb = z.to_bytes(32, 'big')
    if sum(1 for b in zb if b == 0) >= 20:
        return 'zero-heavy'
    return 'random'


_PUBCACHE = {}


def _pub_pt(d):
    pt = _PUBCACHE.get(d)
    if pt is None:
        pt = R.mul_g(d)
        if len(_PUBCACHE) < 5000:
            _PUBCACHE[d] = pt
    return pt


def _secret_of(private):
    """The secret integer the caller asked to sign with (an input of the operation, not a result)."""
    from bitcoinlib.keys import Key, HDKey
    if isinstance(private, (Key, HDKey)):
        return int(private.secret), 'obj'
    if isinstance(private, str) and len(private) == 64:
        try:
            return int(private, 16), 'hex'
        except ValueError:
            return None, 'other'
    if isinstance(private, (bytes, bytearray)) and len(private) == 32:
        return int.from_bytes(private, 'big'), 'bytes'
    return None, 'other'


def _digest_of(txid):
    """Integer digest the library is asked to sign, derived from the argument by the documented rule:
    bytes/hex of at most 32 bytes is the digest itself, anything longer is double-SHA256 hashed."""
    if isinstance(txid, (bytes, bytearray)):
        b = bytes(txid)
    elif isinstance(txid, str):
        try:
            b = bytes.fromhex(txid)
        except ValueError:
            return None, None
    else:
        return None, None
    if len(b) > 32:
        return int.from_bytes(_dsha(b), 'big'), 'hashed'
    return int.from_bytes(b, 'big'), 'digest%d' % len(b)


# ------------------------------------------------------------------ the probe on Signature.create / sign
def install(col):
    """Wrap Signature.create (class attribute, one class object shared by all namespaces) and every reference to
    the module-level sign(). Probes record and continue; library exceptions pass through unchanged."""
    import sys
    import bitcoinlib.keys as K
    import bitcoinlib.transactions  # noqa: F401  (loads the namespaces that import * from keys)
    import bitcoinlib.scripts  # noqa: F401
    import bitcoinlib.wallets  # noqa: F401
    _ST['col'] = col
    if _ST['installed']:
        return
    orig_create = K.Signature.__dict__['create'].__func__
    orig_sign = K.sign
    _ST['orig_create'] = orig_create
    _ST['orig_sign'] = orig_sign

    def create_probe(txid, private, use_rfc6979=True, k=None, hash_type=SIGHASH_ALL):
        c = _ST['col']
        c.probe('Signature.create')
        res = orig_create(txid, private, use_rfc6979, k, hash_type)
        if not _ST['busy']:
            _ST['busy'] = True
            try:
                _judge(c, txid, private, use_rfc6979, k, hash_type, res)
            except Exception as e:   # a monitor bug must not change library control flow
                c.note_inconclusive('C13 monitor raised %r' % (e,))
            finally:
                _ST['busy'] = False
        return res

    def sign_probe(txid, private, use_rfc6979=True, k=None, hash_type=SIGHASH_ALL):
        c = _ST['col']
        c.probe('sign')
        before = _ST['judged']
        res = orig_sign(txid, private, use_rfc6979, k, hash_type=hash_type)
        if _ST['judged'] == before and not _ST['busy']:
            c.note_inconclusive('sign() returned a signature that did not pass the Signature.create probe')
        return res

    K.Signature.create = staticmethod(create_probe)
    spaces = []
    for name, mod in list(sys.modules.items()):
        if not name.startswith('bitcoinlib') or mod is None:
            continue
        if getattr(mod, 'sign', None) is orig_sign:
            setattr(mod, 'sign', sign_probe)
            spaces.append(name)
        sc = getattr(mod, 'Signature', None)
        if sc is not None and sc is not K.Signature:
            col.note_inconclusive('a second Signature class object exists in %s' % name)
    _ST['namespaces'] = sorted(spaces)
    _ST['installed'] = True
    col.extra['sign_namespaces_wrapped'] = _ST['namespaces']


def _judge(col, txid, private, use_rfc6979, k, hash_type, sig):
    """Postcondition of one produced signature. Never raises into the caller (guarded by create_probe)."""
    ctx = _ST['ctx'] or {}
    d, kform = _secret_of(private)
    z, zform = _digest_of(txid)
    if d is None or z is None:
        col.probe('create_unjudged_argument_form')
        return
    _ST['judged'] += 1
    col.probe('signature_judged')
    mode = ctx.get('mode') or ('explicit-k' if k else ('derived' if use_rfc6979 else 'random-k'))
    origin = ctx.get('origin', 'inlib')
    htb = 'ht%d' % hash_type if hash_type in (0, 1, 2, 3, 0x81, 0x82, 0x83, 0xff) else 'ht-other'
    ident = (origin, _kcls(d), _zcls(z), zform, mode, htb, kform, ctx.get('tform', type(txid).__name__))
    case = {'kind': 'sign', 'd': '%064x' % d, 'txid': txid.hex() if isinstance(txid, (bytes, bytearray)) else txid,
            'txid_is_bytes': isinstance(txid, (bytes, bytearray)), 'key_form': ctx.get('key_form', 'Key'),
            'k': str(k) if k else None, 'use_rfc6979': bool(use_rfc6979), 'hash_type': hash_type,
            'via': ctx.get('via', 'create'), 'mode': mode}
    col.case('sign/%s/%s/%s/%s' % (origin, mode, _kcls(d), _zcls(z)), nontrivial=ident, sample=case)

    try:
        r, s = int(sig.r), int(sig.s)
    except Exception as e:
        col.violation(None, 'signature object without integer r, s: %r' % (e,), case, repr(sig)[:200], 'r, s')
        return
    pub = _pub_pt(d)
    # 1. range
    col.probe('range')
    if not (1 <= r < N and 1 <= s < N):
        col.violation(None, 'produced signature has r or s outside [1, n-1]', case, {'r': r, 's': s}, '1 <= r, s < n')
        return
    # 2. independent verification under the signer's public key
    col.probe('ref_verify')
    if not R.ecdsa_verify(z, r, s, pub):
        col.violation(None, 'produced signature does not verify under the signer public key (reference ECDSA)', case,
                      {'r': r, 's': s}, 'valid signature')
    # 3. low S (integer comparison)
    col.probe('low_s')
    if s > HALF:
        key = K_LOWS if s <= 2 ** 255 else None   # exactly the gap between n//2 and float(n)/2 == 2^255
        col.violation(key, 'produced signature has high S (s > n//2)', case, {'s': s, 's_minus_half': s - HALF},
                      {'s': N - s})
    # 4. encodings
    col.probe('strict_der')
    try:
        der = sig.as_der_encoded()
        der_nh = sig.as_der_encoded(include_hash_type=False)
        raw = sig.bytes()
        hx = sig.hex()
        derhex = sig.as_der_encoded(as_hex=True)
    except Exception as e:
        col.violation(None, 'encoding a produced signature raised %r' % (e,), case, repr(e), 'DER bytes')
        return
    if not isinstance(der, (bytes, bytearray)) or len(der) < 2:
        col.violation(None, 'as_der_encoded() is not a byte string', case, repr(der)[:100], 'DER||hashtype')
        return
    if R.der_parse_strict(der[:-1]) != (r, s):
        col.violation(None, 'as_der_encoded() minus hash-type byte is not the strict DER encoding of (r, s)', case, der.hex(),
                      R.der_encode(r, s).hex())
    if der[:-1] != R.der_encode(r, s) or der_nh != der[:-1] or derhex != der.hex():
        col.violation(None, 'DER views of one signature disagree', case, [der.hex(), bytes(der_nh).hex(), derhex],
                      R.der_encode(r, s).hex())
    col.probe('hash_type_byte')
    if der[-1] != hash_type or getattr(sig, 'hash_type', None) != hash_type:
        col.violation(None, 'hash-type byte differs from the requested one', case, [der[-1], getattr(sig, 'hash_type', None)],
                      hash_type)
    if raw != r.to_bytes(32, 'big') + s.to_bytes(32, 'big') or hx != raw.hex():
        col.violation(None, 'raw 64-byte form is not r||s', case, hx, (r.to_bytes(32, 'big') + s.to_bytes(32, 'big')).hex())
    # 5. explicit nonce: must be the textbook signature for that k
    if k:
        col.probe('explicit_k')
        try:
            kk = int(k) % N
            er, es = R.ecdsa_sign_with_k(z, d, kk)
            if r != er or s not in (es, N - es):
                col.violation(None, 'signature with explicit nonce is not (x(kG) mod n, +-k^-1(z+rd))', case, {'r': r, 's': s},
                              {'r': er, 's': [es, N - es]})
        except Exception:
            pass
    # 6. determinism (second invocation by the monitor, bypassing the probe)
    if k or use_rfc6979:
        col.probe('determinism')
        try:
            again = _ST['orig_create'](txid, private, use_rfc6979, k, hash_type)
            if (int(again.r), int(again.s)) != (r, s) or again.as_der_encoded() != der:
                col.violation(None, 'a repeated call with the same key and message gave a different signature', case,
                              {'r': int(again.r), 's': int(again.s)}, {'r': r, 's': s})
        except Exception as e:
            col.violation(None, 'the repeated call raised %r although the first succeeded' % (e,), case, repr(e), {'r': r, 's': s})
    # 7. nonce table (derived and random nonces only; explicit k is the caller's choice)
    if not k:
        col.probe('nonce_table')
        pair = (d, z % N)
        ent = _ST['nonces'].get(r)
        if ent is None:
            _ST['nonces'][r] = (d, z % N, z)
        elif ent[:2] != pair:
            od, oz, oz_full = ent
            feature = 'same-key' if od == d else ('same-digest' if oz == z % N else 'unrelated')
            col.violation(None, 'shared nonce: one r for two different (key, digest) pairs (%s)' % feature,
                          {'kind': 'nonce-pair', 'a': {'d': '%064x' % od, 'z': _h32(oz_full)}, 'b': {'d': '%064x' % d, 'z': _h32(z)},
                           'use_rfc6979': bool(use_rfc6979)},
                          {'r': r}, 'distinct r')
    # 8. the library's own verifier on its own signature (completeness on ordinary input)
    col.probe('self_verify')
    try:
        ok = sig.verify()
    except Exception as e:
        ok = repr(e)
    if ok is not True:
        col.violation(None, 'Signature.verify() of a freshly produced signature is not True', case, ok, True)


# ------------------------------------------------------------------ harness-side signing cases
def _mk_key(d, form):
    from bitcoinlib.keys import Key, HDKey
    hx = '%064x' % d
    if form == 'Key':
        return Key(hx)
    if form == 'HDKey':
        return HDKey(hx)
    return hx


def do_sign(case, col, origin='harness'):
    """Run one signing case through the wrapped API. Returns the Signature or None."""
    import bitcoinlib.keys as K
    d = int(case['d'], 16)
    txid = bytes.fromhex(case['txid']) if case.get('txid_is_bytes') else case['txid']
    k = int(case['k']) if case.get('k') else None
    ht = case.get('hash_type', SIGHASH_ALL)
    try:
        key = _mk_key(d, case.get('key_form', 'Key'))
    except Exception as e:
        col.violation(None, 'constructing a private key in [1, n-1] raised %r' % (e,), case, repr(e), 'key')
        return None
    _ST['ctx'] = {'origin': origin, 'mode': case.get('mode'), 'via': case.get('via', 'create'), 'key_form': case.get('key_form', 'Key'),
                  'tform': ('bytes' if case.get('txid_is_bytes') else ('HEX' if isinstance(txid, str) and txid != txid.lower() else 'hex'))}
    before = _ST['judged']
    try:
        if case.get('via') == 'sign':
            sig = K.sign(txid, key, case.get('use_rfc6979', True), k, hash_type=ht)
        else:
            sig = K.Signature.create(txid, key, case.get('use_rfc6979', True), k, hash_type=ht)
    except Exception as e:
        col.case('sign/raised', nontrivial=None, sample=case)
        col.violation(None, 'signing a 32-byte digest with a key in [1, n-1] raised %r' % (e,), case, repr(e), 'signature')
        return None
    finally:
        _ST['ctx'] = None
    if _ST['judged'] == before:
        col.note_inconclusive('a harness signing call was not judged by the probe')
    return sig


def _case(d, z, key_form='Key', tform='bytes', via='create', k=None, ht=SIGHASH_ALL, rfc=True, mode=None, msg=None):
    if msg is not None:
        txid = msg.hex()
    else:
        txid = _h32(z)
    if tform == 'HEX':
        txid = txid.upper()
    c = {'kind': 'sign', 'd': '%064x' % d, 'txid': txid, 'txid_is_bytes': tform == 'bytes', 'key_form': key_form, 'via': via,
         'k': str(k) if k else None, 'hash_type': ht, 'use_rfc6979': rfc}
    if mode:
        c['mode'] = mode
    return c


def constructed_s(d, k, s_target):
    """Digest for which the textbook signature with nonce k has exactly s == s_target."""
    r = R.mul_g(k)[0] % N
    return (s_target * k - r * d) % N


def chk_hexcase(case, col):
    """Same key, same digest, presented as bytes / lower-case hex / upper-case hex: one message, one signature."""
    import bitcoinlib.keys as K
    d = int(case['d'], 16)
    z = int(case['z'], 16)
    col.case('sign/forms', nontrivial=('forms', _kcls(d), _zcls(z)), sample=case)
    col.probe('digest_forms')
    key = _mk_key(d, 'Key')
    out = {}
    _ST['busy'] = True   # judged elsewhere; here only the comparison between forms
    try:
        for name, t in (('bytes', bytes.fromhex(_h32(z))), ('hex', _h32(z)), ('HEX', _h32(z).upper())):
            try:
                sg = K.Signature.create(t, key)
                out[name] = (int(sg.r), int(sg.s))
            except Exception as e:
                out[name] = repr(e)
    finally:
        _ST['busy'] = False
    if out['bytes'] != out['hex']:
        col.violation(None, 'digest as bytes and as hex string give different signatures', case, out, 'one signature')
    if out['HEX'] != out['hex']:
        key_ = None
        if isinstance(out['HEX'], tuple) and isinstance(out['hex'], tuple) and out['bytes'] == out['hex']:
            r2, s2 = out['HEX']
            if R.ecdsa_verify(z, r2, s2, _pub_pt(d)) and s2 <= 2 ** 255:
                key_ = K_HEXCASE      # valid signature of the same digest, only the nonce differs
        col.violation(key_, 'the same digest written in upper-case hex is signed with a different nonce', case, out,
                      'one signature per (key, digest)')


# ------------------------------------------------------------------ verifier differential
def _lax_der(b):
    """Permissive TLV walk: SEQUENCE { INTEGER r, INTEGER s, ...ignored } -> (r, s) unsigned, or None. Laxness is tolerated
    only INSIDE the sequence (padding, long-form lengths, extra elements); the sequence itself must span the whole input -
    bytes behind it are not part of any encoding of (r, s) and make the input undecodable."""
    try:
        if len(b) < 6 or b[0] != 0x30:
            return None
        p = 1

        def rdlen(p):
            first = b[p]
            if first < 0x80:
                return first, p + 1
            nb = first & 0x7f
            if nb == 0 or nb > 4:
                raise ValueError
            return int.from_bytes(b[p + 1:p + 1 + nb], 'big'), p + 1 + nb
        ln, p = rdlen(p)
        if p + ln != len(b):
            return None
        out = []
        for _ in range(2):
            if b[p] != 0x02:
                return None
            li, p = rdlen(p + 1)
            if li == 0 or p + li > len(b):
                return None
            out.append(int.from_bytes(b[p:p + li], 'big'))
            p += li
        return tuple(out)
    except (IndexError, ValueError):
        return None


def _expected_for_sig(sigspec):
    """-> ('strict'|'lax'|'none', (r, s) or None) by the reference decoders."""
    form = sigspec['form']
    if form == 'obj':
        return 'strict', (int(sigspec['r']), int(sigspec['s']))
    b = bytes.fromhex(sigspec['bytes'])
    if form in ('raw', 'rawhex'):
        if len(b) != 64:
            return 'none', None
        return 'strict', (int.from_bytes(b[:32], 'big'), int.from_bytes(b[32:], 'big'))
    # DER forms carry a trailing hash-type byte
    if len(b) < 2:
        return 'none', None
    body = b[:-1]
    rs = R.der_parse_strict(body)
    if rs is not None:
        return 'strict', rs
    rs = _lax_der(body)
    if rs is not None:
        return 'lax', rs
    return 'none', None


def _lib_pub(pubspec):
    from bitcoinlib.keys import Key, HDKey
    form = pubspec['form']
    hx = pubspec['hex']
    if form == 'Key':
        return Key(hx)
    if form == 'HDKey':
        return HDKey(hx)
    if form == 'bytes':
        return bytes.fromhex(hx)
    return hx


def _lib_verdict(case):
    """Library verdict for a triple: ('accept'|'reject'|'other', detail)."""
    import bitcoinlib.keys as K
    z = case['z']
    txid = bytes.fromhex(z) if case.get('z_form', 'bytes') == 'bytes' else z
    sp = case['sig']
    api = case.get('api', 'verify')
    try:
        pub = _lib_pub(case['pub'])
        if sp['form'] == 'obj':
            sg = K.Signature(int(sp['r']), int(sp['s']))
            res = sg.verify(txid, pub) if api != 'verify' else K.verify(txid, sg, pub)
        else:
            data = sp['bytes'] if sp['form'] in ('rawhex', 'derhex') else bytes.fromhex(sp['bytes'])
            if api == 'verify':
                res = K.verify(txid, data, pub)
            elif api == 'parse.verify':
                res = K.Signature.parse(data).verify(txid, pub)
            elif api == 'parse_bytes.verify':
                res = K.Signature.parse_bytes(bytes.fromhex(sp['bytes']), pub).verify(txid)
            elif api == 'parse_hex.verify':
                res = K.Signature.parse_hex(sp['bytes']).verify(txid, pub)
            elif api == 'op_checksig':      # the script interpreter's path: stack [signature, public key], message = digest
                from bitcoinlib.scripts import Stack
                st = Stack([bytes.fromhex(sp['bytes']), bytes.fromhex(case['pub']['hex'])])
                st.op_checksig(bytes.fromhex(z))
                res = True if (len(st) == 1 and st[-1] == b'\x01') else (False if (len(st) == 1 and st[-1] == b'') else list(st))
            else:   # parse with the key attached, verify with the digest only
                res = K.Signature.parse(data, public_key=pub).verify(txid)
    except Exception as e:
        return 'reject', 'raised %s: %s' % (type(e).__name__, str(e)[:120])
    if res is True:
        return 'accept', True
    if res is False:
        return 'reject', False
    return 'other', repr(res)[:100]


class _Hang(BaseException):
    pass


def _guarded_verdict(case, seconds=60):
    """_lib_verdict with a generous alarm: a verifier call that does not return (seen with a scratch mutation that let a
    negative s reach the DER encoder) must not eat the whole shard; it is reported as inconclusive, never as a verdict."""
    import signal

    def on_alarm(signum, frame):
        raise _Hang()
    old = signal.signal(signal.SIGALRM, on_alarm)
    signal.alarm(seconds)
    try:
        return _lib_verdict(case)
    except _Hang:
        return 'hang', 'no result within %d s' % seconds
    finally:
        signal.alarm(0)
        signal.signal(signal.SIGALRM, old)


def chk_triple(case, col):
    cls = case['cls']
    sp, pp = case['sig'], case['pub']
    col.case('verify/' + cls, nontrivial=('verify', cls, sp['form'], pp['form'], case.get('api', 'verify'), case.get('z_form', 'bytes')),
             sample=case)
    col.probe('verify_differential')
    z = int(case['z'], 16)
    pt = R.decode_pub(bytes.fromhex(pp['hex'])) if len(pp['hex']) % 2 == 0 else None
    kind, rs = _expected_for_sig(sp)
    if kind == 'none' or pt is None:
        ref_ok = False
    else:
        ref_ok = R.ecdsa_verify(z, rs[0], rs[1], pt)
    verdict, detail = _guarded_verdict(case)
    if verdict == 'hang':
        col.note_inconclusive('verifier call did not return for class %s (%s): %s' % (cls, detail, str(case)[:300]))
        return
    if verdict == 'other':
        col.violation(None, 'verifier returned neither True nor False for class %s' % cls, case, detail, ref_ok)
        return
    if kind == 'lax':
        # accepted or refused is both tolerable; accepting is wrong only if the decoded (r, s) does not verify
        col.probe('lax_der_' + verdict)
        col.extra.setdefault('lax_der', {}).setdefault(cls, {'accept': 0, 'reject': 0})[verdict] += 1
        if verdict == 'accept' and not ref_ok:
            col.violation(None, 'verifier accepted a lax DER signature whose (r, s) does not verify (%s)' % cls, case, detail, False)
        return
    if (verdict == 'accept') == ref_ok:
        return
    key = None
    if ref_ok and verdict == 'reject':
        # feature ablation: which single neutralised feature heals the refusal?
        if sp['form'] in ('der', 'derhex') and len(bytes.fromhex(sp['bytes'])) <= 64:
            healed = _lib_verdict(dict(case, sig={'form': 'obj', 'r': str(rs[0]), 's': str(rs[1])}))[0] == 'accept'
            if healed and 'Signature length must be 64 bytes' in str(detail):
                key = K_SHORTDER
        elif pp['form'] == 'hex':
            healed = _lib_verdict(dict(case, pub={'form': 'bytes', 'hex': pp['hex']}))[0] == 'accept'
            if healed and 'AttributeError' in str(detail):
                key = K_HEXPUB
    col.violation(key, 'verifier %ss a triple that standard ECDSA %ss (class %s, sig form %s, key form %s)' % (
        verdict, 'accept' if ref_ok else 'reject', cls, sp['form'], pp['form']), case, detail, 'accept' if ref_ok else 'reject')


SIG_FORMS = ('obj', 'raw', 'rawhex', 'der', 'derhex')
PUB_FORMS = ('Key', 'HDKey', 'bytes', 'bytes-unc', 'hex')
APIS = ('verify', 'parse.verify', 'parse+key.verify', 'parse_bytes.verify', 'parse_hex.verify', 'op_checksig')


def _sigspec(form, r, s, ht=1):
    if form == 'obj':
        return {'form': 'obj', 'r': str(r), 's': str(s)}
    if form in ('raw', 'rawhex'):
        if r >= 2 ** 256 or s >= 2 ** 256 or r < 0 or s < 0:
            return None
        return {'form': form, 'bytes': (r.to_bytes(32, 'big') + s.to_bytes(32, 'big')).hex()}
    return {'form': form, 'bytes': (R.der_encode(r, s) + bytes([ht])).hex()}


def _pubspec(form, d):
    if form == 'bytes-unc':
        return {'form': 'bytes', 'hex': R.pub_from_secret(d, False).hex()}
    return {'form': form, 'hex': R.pub_from_secret(d, True).hex()}


def _der_mutants(rnd, r, s):
    """(class, bytes without hash type) malformed or lax encodings of a valid (r, s)."""
    good = R.der_encode(r, s)

    def ienc(v, pad=0, neg=False):
        b = v.to_bytes((v.bit_length() + 7) // 8 or 1, 'big')
        if b[0] & 0x80 and not neg:
            b = b'\x00' + b
        b = b'\x00' * pad + b
        return b'\x02' + bytes([len(b)]) + b
    body = ienc(r) + ienc(s)
    out = [
        ('der-junk-after', good + bytes([rnd.randrange(256)])),
        ('der-junk-after2', good + rnd.randbytes(rnd.randint(2, 9))),
        ('der-truncated', good[:-rnd.randint(1, 5)]),
        ('der-truncated-front', good[:rnd.randint(2, 8)]),
        ('der-wrong-seq-tag', bytes([rnd.choice([0x31, 0x20, 0x00, 0x02])]) + good[1:]),
        ('der-wrong-int-tag', good[:2] + b'\x03' + good[3:]),
        ('der-seq-len+1', good[:1] + bytes([good[1] + 1]) + good[2:]),
        ('der-seq-len-1', good[:1] + bytes([good[1] - 1]) + good[2:]),
        ('der-s-missing', b'\x30' + bytes([len(ienc(r))]) + ienc(r)),
        ('der-zero-len-int', b'\x30' + bytes([2 + len(ienc(s))]) + b'\x02\x00' + ienc(s)),
        # lax but decodable
        ('der-lax-junk-inside', b'\x30' + bytes([len(body) + 2]) + body + rnd.randbytes(2)),
        ('der-lax-pad-r', b'\x30' + bytes([len(ienc(r, 1)) + len(ienc(s))]) + ienc(r, 1) + ienc(s)),
        ('der-lax-pad-s', b'\x30' + bytes([len(ienc(r)) + len(ienc(s, 2))]) + ienc(r) + ienc(s, 2)),
        ('der-lax-long-form-len', b'\x30\x81' + bytes([len(body)]) + body),
    ]
    if r >> (8 * ((r.bit_length() + 7) // 8) - 1) & 1:
        out.append(('der-lax-negative-r', b'\x30' + bytes([len(ienc(r, 0, True)) + len(ienc(s))]) + ienc(r, 0, True) + ienc(s)))
    return out


def _hashtype_mutants(rnd, r, s):
    """(class, full signature bytes): a valid DER part and a hash-type byte that is not the last byte, or not directly behind
    the sequence. Neither is an encoding of (r, s) || hashtype."""
    good = R.der_encode(r, s)
    out = []
    for nb in (1, 2, 8, 33):
        ht = rnd.choice([1, 1, 2, 3, 0x81, 0x83])
        out.append(('sig-bytes-after-hashtype-%d' % nb, good + bytes([ht]) + rnd.choice([rnd.randbytes(nb), bytes([ht]) * nb, bytes(nb)])))
    for nb in (1, 2, 8):
        out.append(('sig-bytes-between-der-and-hashtype-%d' % nb, good + rnd.choice([rnd.randbytes(nb), b'\x01' * nb, bytes(nb)]) + b'\x01'))
    return out


def gen_triples(rnd, n, col_unused=None):
    """Yield verifier cases. Base triples are signed by the reference with a random nonce (independent of the
    library's signer)."""
    half_inv = pow(2, -1, N)          # k = 1/2 gives the well-known 166-bit r
    made = 0
    while made < n:
        d = rnd.choice([1, 2, N - 1, N - 2, rnd.randrange(1, N), rnd.randrange(1, N), rnd.randrange(1, 2 ** 64)])
        zc = rnd.random()
        if zc < 0.6:
            z = rnd.getrandbits(256)
        elif zc < 0.8:
            z = rnd.choice([0, 1, N - 1, N, N + 1, 2 ** 256 - 1, 2 ** 255, rnd.getrandbits(64), rnd.getrandbits(32) << 200])
        else:
            z = rnd.randrange(1, 2 ** 256 - N)    # z + n still fits 32 bytes
        k = rnd.randrange(1, N)
        r, s = R.ecdsa_sign_with_k(z, d, k)
        if r == 0 or s == 0:
            continue
        lo, hi = min(s, N - s), max(s, N - s)
        zh = _h32(z)
        d2 = rnd.randrange(1, N)
        rows = [('valid-low-s', r, lo, z, d), ('valid-high-s-twin', r, hi, z, d),
                ('r=0', 0, lo, z, d), ('r=n', N, lo, z, d), ('r=n+1', N + 1, lo, z, d),
                ('s=0', r, 0, z, d), ('s=n', r, N, z, d), ('s=n+1', r, N + 1, z, d),
                ('r-s-swapped', lo, r, z, d), ('r+1', r + 1, lo, z, d), ('s+1', r, lo + 1, z, d),
                ('r+n', r + N, lo, z, d), ('s+n', r, lo + N, z, d), ('s=-s', r, -lo, z, d),
                ('wrong-key', r, lo, z, d2 if d2 != d else d2 % (N - 1) + 1),
                ('digest+1', r, lo, (z + 1) % 2 ** 256, d), ('digest-1', r, lo, (z - 1) % 2 ** 256, d)]
        if z + N < 2 ** 256:
            rows.append(('digest+n', r, hi, z + N, d))
        if z >= N:
            rows.append(('digest-n', r, lo, z - N, d))
        for cls, rr, ss, zz, dd in rows:
            form = rnd.choice(SIG_FORMS) if min(rr, ss) >= 0 else 'obj'
            sp = _sigspec(form, rr, ss, rnd.choice([1, 1, 0, 2, 3, 0x81, 0x83]))
            if sp is None:
                sp = _sigspec('obj', rr, ss)
            pf = rnd.choice(PUB_FORMS)
            api = rnd.choice(APIS) if sp['form'] != 'obj' else rnd.choice(['verify', 'Signature.verify'])
            yield {'kind': 'verify', 'cls': cls, 'z': _h32(zz), 'z_form': rnd.choice(['bytes', 'hex']), 'sig': sp,
                   'pub': _pubspec(pf, dd), 'api': api}
            made += 1
        # public key classes
        P_ = _pub_pt(d)
        x = rnd.randrange(1, R.P)
        while R.lift_x(x, 0) is not None:
            x += 1
        bads = [('pub-offcurve-compressed', bytes([rnd.choice([2, 3])]) + x.to_bytes(32, 'big')),
                ('pub-offcurve-uncompressed', b'\x04' + P_[0].to_bytes(32, 'big') + ((P_[1] + 1) % R.P).to_bytes(32, 'big')),
                ('pub-x-ge-p', b'\x02' + (R.P + rnd.randrange(0, 900)).to_bytes(32, 'big')),
                ('pub-garbage', rnd.choice([b'\x00' * 33, b'\x05' + rnd.randbytes(32), b'\x04' + rnd.randbytes(63), rnd.randbytes(20)]))]
        for cls, pb in bads:
            yield {'kind': 'verify', 'cls': cls, 'z': zh, 'z_form': 'bytes', 'sig': _sigspec(rnd.choice(SIG_FORMS), r, lo),
                   'pub': {'form': rnd.choice(['Key', 'HDKey', 'bytes']), 'hex': pb.hex()}, 'api': 'verify'}
            made += 1
        # DER classes
        for cls, body in _der_mutants(rnd, r, lo):
            yield {'kind': 'verify', 'cls': cls, 'z': zh, 'z_form': 'bytes',
                   'sig': {'form': rnd.choice(['der', 'derhex']), 'bytes': (body + b'\x01').hex()},
                   'pub': _pubspec(rnd.choice(['Key', 'bytes']), d), 'api': rnd.choice(APIS)}
            made += 1
        # hash-type byte not in last place, through every entry point that takes a signature with hash type
        for cls, full in _hashtype_mutants(rnd, r, lo):
            for api in rnd.sample(APIS, 3):
                yield {'kind': 'verify', 'cls': cls, 'z': zh, 'z_form': 'bytes',
                       'sig': {'form': 'derhex' if api == 'parse_hex.verify' else rnd.choice(['der', 'derhex'] if api in ('verify', 'parse.verify', 'parse+key.verify') else ['der']),
                               'bytes': full.hex()},
                       'pub': _pubspec(rnd.choice(['Key', 'bytes']), d), 'api': api}
                made += 1
        for cls, rawlen in (('raw-63', 63), ('raw-65', 65), ('raw-0', 0), ('raw-32', 32)):
            rb = (r.to_bytes(32, 'big') + lo.to_bytes(32, 'big') + b'\x01')[:rawlen]
            yield {'kind': 'verify', 'cls': cls, 'z': zh, 'z_form': 'bytes', 'sig': {'form': 'raw', 'bytes': rb.hex()},
                   'pub': _pubspec('Key', d), 'api': 'verify'}
            made += 1
        # short signatures: small r (k = 1/2) and small s (digest constructed), valid strict DER of <= 64 bytes
        for cls, kk, st in (('short-r', half_inv, None), ('short-r-tiny-s', half_inv, rnd.randrange(1, 2 ** rnd.choice([8, 64, 120]))),
                            ('tiny-s', k, rnd.randrange(1, 2 ** rnd.choice([8, 100, 180])))):
            zz = z if st is None else constructed_s(d, kk, st)
            rr, ss = R.ecdsa_sign_with_k(zz, d, kk)
            if rr == 0 or ss == 0:
                continue
            if st is None:
                ss = min(ss, N - ss)
            for form in ('der', 'obj', 'raw'):
                yield {'kind': 'verify', 'cls': cls, 'z': _h32(zz), 'z_form': 'bytes', 'sig': _sigspec(form, rr, ss),
                       'pub': _pubspec('Key', d), 'api': 'verify'}
                made += 1


# ------------------------------------------------------------------ verifier sequences on ONE Signature object
SEQ_MAKES = ('obj', 'parse-raw', 'parse-der', 'parse-der+key', 'created')
SEQ_STEPS = ('valid', 'digest+1', 'digest-1', 'other-digest', 'wrong-key', 'neighbour-key')


def _seq_object(case):
    """The single Signature object all steps of a sequence are asked about."""
    import bitcoinlib.keys as K
    make = case['make']
    d = int(case['d'], 16)
    z = int(case['z'], 16)
    if make == 'created':            # signed by the library itself: carries its own digest and public key
        sg = _ST['orig_create'](bytes.fromhex(_h32(z)), _mk_key(d, 'Key'))
        return sg, int(sg.r), int(sg.s)
    r, s = int(case['r']), int(case['s'])
    if make == 'obj':
        return K.Signature(r, s), r, s
    if make == 'parse-raw':
        return K.Signature.parse(r.to_bytes(32, 'big') + s.to_bytes(32, 'big')), r, s
    der = R.der_encode(r, s) + b'\x01'
    if make == 'parse-der':
        return K.Signature.parse(der), r, s
    return K.Signature.parse(der.hex(), public_key=_lib_pub(_pubspec('Key', d))), r, s


def chk_sequence(case, col):
    """case: {'kind':'vseq', 'make':..., 'd','z' (signer and signed digest), 'r','s' (reference signature, absent for
    'created'), 'steps': [{'cls', 'z' or None, 'pub': pubspec or None, 'api': 'method'|'function'}]}.
    Every call on the same object is judged against the reference for the digest and key that are current at that call
    (an omitted argument means: the one given before, as documented for Signature.verify)."""
    import bitcoinlib.keys as K
    steps = case['steps']
    ident = ('vseq', case['make'], tuple(st['cls'] for st in steps), tuple(st['api'] for st in steps),
             tuple((st['z'] is None, st['pub'] is None) for st in steps))
    col.case('verify-seq/%s/first-%s' % (case['make'], steps[0]['cls']), nontrivial=ident, sample=case)
    try:
        sg, r, s = _seq_object(case)
    except Exception as e:
        col.violation(None, 'building the Signature object of a verifier sequence raised %r' % (e,), case, repr(e), 'object')
        return
    cur_z = int(case['z'], 16) if case['make'] == 'created' else None
    cur_pt = _pub_pt(int(case['d'], 16)) if case['make'] in ('created', 'parse-der+key') else None
    history = []
    for i, st in enumerate(steps):
        if st['z'] is not None:
            cur_z = int(st['z'], 16)
        if st['pub'] is not None:
            cur_pt = R.decode_pub(bytes.fromhex(st['pub']['hex']))
        if cur_z is None or cur_pt is None:
            col.note_inconclusive('verifier sequence step without a current digest/key (generator error)')
            return
        col.probe('verify_sequence_step')
        ref_ok = R.ecdsa_verify(cur_z, r, s, cur_pt)
        txid = None if st['z'] is None else (bytes.fromhex(st['z']) if i % 2 == 0 else st['z'])
        try:
            pub = None if st['pub'] is None else _lib_pub(st['pub'])
            if st['api'] == 'function':
                res = K.verify(txid, sg, pub) if txid is not None else sg.verify(None, pub)
            else:
                res = sg.verify(txid, pub)
            verdict = 'accept' if res is True else ('reject' if res is False else 'other:%r' % (res,))
        except Exception as e:
            verdict = 'reject'
            res = 'raised %s: %s' % (type(e).__name__, str(e)[:100])
        history.append('%s/%s->%s' % (st['cls'], st['api'], verdict))
        if verdict == ('accept' if ref_ok else 'reject'):
            continue
        # state ablation: the same question put to a fresh object
        try:
            fresh = K.Signature(r, s).verify(bytes.fromhex(_h32(cur_z)), K.Key(R.encode_pub(cur_pt).hex()))
        except Exception as e:
            fresh = 'raised %r' % (e,)
        col.violation(None, 'call %d on one Signature object (%s): verifier %ss what standard ECDSA %ss; a fresh object answers %r; '
                      'calls so far: %s' % (i + 1, case['make'], verdict, 'accept' if ref_ok else 'reject', fresh, ' , '.join(history)),
                      dict(case, failed_step=i), res, 'accept' if ref_ok else 'reject')
        return


def gen_sequence(rnd):
    d = _rand_key(rnd)
    z = _rand_digest(rnd)
    make = rnd.choice(SEQ_MAKES)
    case = {'kind': 'vseq', 'make': make, 'd': '%064x' % d, 'z': _h32(z)}
    if make != 'created':
        k = rnd.randrange(1, N)
        r, s = R.ecdsa_sign_with_k(z, d, k)
        if r == 0 or s == 0:
            return None
        if rnd.random() < 0.5:
            s = N - s
        case['r'], case['s'] = str(r), str(s)
    d2 = rnd.randrange(1, N)
    n = rnd.choice([2, 2, 3, 3, 4, 5])
    pattern = rnd.choice(['valid-first', 'invalid-first', 'random', 'key-walk'])
    if pattern == 'valid-first':
        classes = ['valid'] + [rnd.choice(SEQ_STEPS[1:]) for _ in range(n - 1)]
    elif pattern == 'invalid-first':
        classes = [rnd.choice(SEQ_STEPS[1:])] + ['valid'] + [rnd.choice(SEQ_STEPS) for _ in range(n - 2)]
    elif pattern == 'key-walk':
        classes = [rnd.choice(['valid', 'wrong-key', 'neighbour-key']) for _ in range(n)]
    else:
        classes = [rnd.choice(SEQ_STEPS) for _ in range(n)]
    steps = []
    last_z = z if make == 'created' else None
    last_d = d if make in ('created', 'parse-der+key') else None
    for cls in classes:
        zz, dd = z, d
        if cls == 'digest+1':
            zz = (z + 1) % 2 ** 256
        elif cls == 'digest-1':
            zz = (z - 1) % 2 ** 256
        elif cls == 'other-digest':
            zz = rnd.getrandbits(256)
        elif cls == 'wrong-key':
            dd = d2
        elif cls == 'neighbour-key':
            dd = d % (N - 1) + 1
        # an argument may be omitted when it is the one already known to the object
        zs = None if (last_z == zz and rnd.random() < 0.4) else _h32(zz)
        ps = None if (last_d == dd and rnd.random() < 0.4) else _pubspec(rnd.choice(['Key', 'HDKey', 'bytes', 'bytes-unc']), dd)
        api = rnd.choice(['method', 'method', 'function'])
        steps.append({'cls': cls, 'z': zs, 'pub': ps, 'api': api})
        last_z, last_d = zz, dd
    case['steps'] = steps
    return case


# ------------------------------------------------------------------ in-library signing (Transaction.sign -> sign())
def tx_workload(rnd, n, col):
    from bitcoinlib.transactions import Transaction
    from bitcoinlib.keys import Key
    for i in range(n):
        wt = rnd.choice(['legacy', 'segwit'])
        nin = rnd.randint(1, 3)
        keys = [Key('%064x' % rnd.randrange(1, N)) for _ in range(nin)]
        try:
            t = Transaction(network='bitcoin', witness_type=wt)
            for kx in keys:
                t.add_input(prev_txid=rnd.randbytes(32), output_n=rnd.randrange(4), keys=[kx.public()], value=rnd.randrange(10000, 10 ** 8),
                            witness_type=wt)
            t.add_output(rnd.randrange(1000, 9000), address=Key('%064x' % rnd.randrange(1, N)).address())
            before = _ST['judged']
            for idx, kx in enumerate(keys):     # Transaction.sign supports SIGHASH_ALL only
                t.sign(keys=[kx], index_n=idx)
            col.probe('tx_sign')
            if _ST['judged'] - before < nin:
                col.note_inconclusive('Transaction.sign produced %d signatures the probe did not see' % (nin - (_ST['judged'] - before)))
        except Exception as e:
            col.note_inconclusive('transaction signing workload raised %r' % (e,))
            return


# ------------------------------------------------------------------ plan / shards / replay
def plan(tier, seed, scale=1.0):
    thorough = tier == 'thorough'
    nshard = 16
    per_sig = int((12500 if thorough else 260) * scale)
    per_tri = int((14000 if thorough else 400) * scale)
    per_seq = int((2500 if thorough else 90) * scale)
    return [{'shard': i, 'nshard': nshard, 'n_sig': per_sig, 'n_tri': per_tri, 'n_seq': per_seq, 'n_tx': 40 if thorough else 4}
            for i in range(nshard)]


def _rand_key(rnd):
    c = rnd.random()
    if c < 0.08:
        return rnd.choice([1, 2, N - 1, N - 2])
    if c < 0.16:
        return rnd.randrange(1, 2 ** rnd.choice([16, 64, 127]))
    return rnd.randrange(1, N)


def _rand_digest(rnd):
    c = rnd.random()
    if c < 0.12:
        return rnd.choice([0, 1, N - 1, N, N + 1, 2 ** 256 - 1, 2 ** 255])
    if c < 0.22:
        return rnd.choice([rnd.getrandbits(32), rnd.getrandbits(64) << 192, 1 << rnd.randrange(256), rnd.getrandbits(16) << rnd.randrange(0, 240, 8)])
    if c < 0.27:
        return rnd.randrange(N, 2 ** 256)
    return rnd.getrandbits(256)


def run_shard(spec, col):
    try:
        R.selfcheck()
        assert R.der_parse_strict(R.der_encode(1, 1)) == (1, 1) and _lax_der(b'\x30\x81\x06\x02\x01\x05\x02\x01\x07') == (5, 7)
    except Exception as e:
        col.note_inconclusive('reference self-check failed: %r' % (e,))
        return
    import bitcoinlib.keys as K
    if not getattr(K, 'USE_FASTECDSA', False):
        col.note_inconclusive('library runs without fastecdsa; this check judges the fastecdsa code path')
    install(col)
    for p in ('Signature.create', 'sign', 'signature_judged', 'range', 'ref_verify', 'low_s', 'strict_der', 'hash_type_byte',
              'determinism', 'nonce_table', 'explicit_k', 'self_verify', 'verify_differential', 'verify_sequence_step', 'digest_forms',
              'tx_sign'):
        col.require(p)
    if 'bitcoinlib.transactions' not in _ST['namespaces'] or 'bitcoinlib.keys' not in _ST['namespaces']:
        col.note_inconclusive('sign() was not found in the expected namespaces: %r' % (_ST['namespaces'],))
    rnd = random.Random('%s-%d-%d' % (ID, spec['seed'], spec['shard']))
    sh = spec['shard']
    n_sig = spec['n_sig']
    KF = ('Key', 'HDKey', 'hex')
    TF = ('bytes', 'hex')

    # A. grid of special keys x special digests (every shard: a different random key/digest is mixed in)
    keys = [1, 2, N - 2, N - 1, rnd.randrange(1, 2 ** 64), rnd.randrange(1, N)]
    digs = [0, 1, N - 1, N, N + 1, 2 ** 255, 2 ** 256 - 1, rnd.getrandbits(40) << 100, rnd.getrandbits(256)]
    grid = [(d, z) for d in keys for z in digs]
    rnd.shuffle(grid)
    for d, z in grid[:max(6, n_sig // 8)]:
        do_sign(_case(d, z, rnd.choice(KF), rnd.choice(TF), rnd.choice(['create', 'sign'])), col)
    # B. one key x many messages, C. one message x many keys (nonce table)
    d0 = rnd.randrange(1, N)
    z0 = rnd.getrandbits(256)
    nb = max(8, n_sig // 5)
    for i in range(nb):
        do_sign(_case(d0, _rand_digest(rnd), 'Key', rnd.choice(TF), rnd.choice(['create', 'sign']), mode='derived-1key'), col)
    for i in range(nb):
        do_sign(_case(_rand_key(rnd), z0, rnd.choice(KF), rnd.choice(TF), 'create', mode='derived-1msg'), col)
    # neighbouring keys and digests (a nonce that ignores low bits of either would collide)
    for i in range(max(4, n_sig // 40)):
        do_sign(_case(d0 + rnd.randrange(1, 4), z0, mode='derived-1msg'), col)
        do_sign(_case(d0, (z0 + rnd.randrange(1, 4)) % 2 ** 256, mode='derived-1key'), col)
    # D. hash types: all 256 values striped over the shards (and over create/sign)
    for ht in range(sh, 256, spec['nshard']):
        do_sign(_case(_rand_key(rnd), _rand_digest(rnd), rnd.choice(KF), rnd.choice(TF), 'sign' if ht & 1 else 'create', ht=ht), col)
    # E. explicit nonces
    ne = max(10, n_sig // 5)
    for i in range(ne):
        d, z = _rand_key(rnd), _rand_digest(rnd)
        k = rnd.choice([1, 2, N - 1, N - 2, rnd.randrange(1, N), rnd.randrange(1, N), rnd.randrange(1, 2 ** 32)])
        do_sign(_case(d, z, rnd.choice(KF), rnd.choice(TF), rnd.choice(['create', 'sign']), k=k, mode='explicit-k'), col)
    #    s constructed into the gap (n//2, 2^255] and boundary controls on both sides
    gap_hi = 2 ** 255
    for i in range(max(12, n_sig // 6)):
        d = _rand_key(rnd)
        k = rnd.randrange(1, N)
        which = i % 6
        if which == 0:
            st, mode = HALF + 1 + rnd.randrange(0, 3), 'k-s-gap-low-edge'
        elif which == 1:
            st, mode = gap_hi - rnd.randrange(0, 3), 'k-s-gap-high-edge'
        elif which == 2:
            st, mode = rnd.randrange(HALF + 1, gap_hi + 1), 'k-s-gap-inside'
        elif which == 3:
            st, mode = HALF - rnd.randrange(0, 3), 'k-s-at-or-below-half'
        elif which == 4:
            st, mode = gap_hi + 1 + rnd.randrange(0, 3), 'k-s-just-above-2^255'
        else:
            st, mode = rnd.randrange(gap_hi + 1, N), 'k-s-high'
        z = constructed_s(d, k, st)
        do_sign(_case(d, z, rnd.choice(KF), rnd.choice(TF), rnd.choice(['create', 'sign']), k=k, mode=mode), col)
    # F. messages longer than 32 bytes (double-SHA256 hashed by the library)
    for i in range(max(4, n_sig // 25)):
        msg = rnd.randbytes(rnd.choice([33, 40, 64, 100, 250]))
        do_sign(_case(_rand_key(rnd), None, 'Key', rnd.choice(TF), rnd.choice(['create', 'sign']), msg=msg, mode='derived-msg'), col)
    # G. random-k opt-out
    for i in range(max(4, n_sig // 25)):
        do_sign(_case(_rand_key(rnd), _rand_digest(rnd), 'Key', 'bytes', 'create', rfc=False, mode='random-k'), col)
    # H. digest presentation forms
    for i in range(max(3, n_sig // 40)):
        z = rnd.getrandbits(256) | (0xab << 120)      # make sure the hex string contains letters
        chk_hexcase({'kind': 'hexcase', 'd': '%064x' % _rand_key(rnd), 'z': _h32(z)}, col)
    # I. the rest: random keys x random digests in random forms
    done = _ST['judged']
    for i in range(max(0, n_sig - done)):
        do_sign(_case(_rand_key(rnd), _rand_digest(rnd), rnd.choice(KF), rnd.choice(TF + ('hex',)), rnd.choice(['create', 'sign'])), col)
    # J. signatures made inside the library
    tx_workload(rnd, spec['n_tx'], col)
    # verifier differential
    for case in gen_triples(rnd, spec['n_tri']):
        chk_triple(case, col)
    # verifier sequences: several digests / keys asked of ONE Signature object, in varying order
    for i in range(spec.get('n_seq', 0)):
        case = gen_sequence(rnd)
        if case is not None:
            chk_sequence(case, col)
    col.extra['nonce_table_size'] = len(_ST['nonces'])


def replay(case, col):
    R.selfcheck()
    install(col)
    kind = case.get('kind')
    if kind == 'sign':
        do_sign(case, col)
    elif kind == 'nonce-pair':
        for side in ('a', 'b'):
            do_sign({'kind': 'sign', 'd': case[side]['d'], 'txid': case[side]['z'], 'txid_is_bytes': True,
                     'use_rfc6979': case.get('use_rfc6979', True)}, col)
    elif kind == 'hexcase':
        chk_hexcase(case, col)
    elif kind == 'verify':
        chk_triple(case, col)
    elif kind == 'vseq':
        chk_sequence(case, col)
