"""C15 - BIP38: encrypt/decrypt agree with the specification (plain and EC-multiplied mode), a different passphrase
is refused, and newly generated encrypted keys use fresh entropy.

Monitor shapes: (1) reference-model comparator (vf.refs.bip38, written from the BIP) on the real functions called by
the harness; decryption is always judged on the *reference-made* string so that encoder and decoder are judged
independently; (2) history checker for freshness: N successive default-argument generation calls in one process must
give pairwise distinct owner salts / seeds / encrypted keys. Violations are recorded, never raised.
"""
import random
import unicodedata

from vf.refs import bip38 as ref
from vf.refs import chain
from vf.refs import codec
from vf.refs import secp256k1 as ec

ID = 'C15'
LEVEL = 'exploration'
ANCHORS = ['bitcoinlib/keys.py', 'bitcoinlib/encoding.py']
DEPS = ()
RULE = ('cases: (a) plain mode = secret class (1, n-1, leading zero bytes, high bit, random) x compressed/uncompressed x '
        'network (all 11) x passphrase class (ASCII, long, NFC-invariant accents, NFD accents, BIP38 unicode vector, CJK, '
        'emoji, decomposed Hangul) x API (Key, HDKey legacy, HDKey default witness type, bip38_encrypt/bip38_decrypt): '
        'encrypt vs reference, decrypt of the reference string, decrypt with a different passphrase; (b) EC-multiplied = '
        'passphrase class x owner salt 8 bytes / lot+sequence (4 or 8 byte salt, lot/sequence edges) x compressed x network: '
        'intermediate code, generated key + confirmation code vs reference, decrypt of the reference key with every returned value '
        'judged (key bytes, address hash, compression flag, and the whole info dict of bip38_decrypt: wif, private/public key, seed, '
        'address, lot, sequence; wif/address/public key of the Key object), different '
        'passphrase; (c) one freshness history per run, in one process: >= 48 full default-argument flows (new intermediate code + '
        'new key) followed by >= 96 new keys on one intermediate code (thorough: 400 + 3000), compared pairwise over the whole '
        'history (owner salts, codes, seeds, keys, addresses, encrypted keys, confirmation codes, shared 8-byte windows), then a hostile schedule: the global `random` state is re-seeded / restored before each of >= 24 new-key and 2 intermediate-code requests (results pairwise distinct; os.urandom bytes drawn and PRNG advance observed); (d) the guaranteed grid decrypt entry point (Key, HDKey, bip38_decrypt, Key._bip38_decrypt, HDKey._bip38_decrypt) x compression flag x mode, each cell a required probe, judged on secret, flag, public key, address, WIF; (e) passphrases that look like hexadecimal (str and utf-8 bytes) in both modes, with wrong-passphrase probes differing only in letter case / blanks. non-trivial = distinct (mode, API, secret/salt class, compressed, network, '
        'passphrase class, lot class) tuples; a history counts once per (function, length)')
TRUSTED_BASE = ['vf/refs/bip38.py (self-checked: all BIP38 test vectors incl. unicode passphrase, EC-multiplied with and without '
                'lot/sequence, confirmation codes, RFC 7914 scrypt and FIPS-197 AES vectors, repo tests/bip38_protected_key_tests.json)',
                'hashlib.scrypt (OpenSSL), Crypto.Cipher.AES (pycryptodome, also used by the library), vf/refs/secp256k1.py, '
                'vf/refs/codec.py, golden/chainparams.json P2PKH version bytes']
ASSUMPTIONS = ['a refusal is any raised exception',
               'the address that salts a key is the P2PKH address of the key on the given network (the BIP defines it for Bitcoin)',
               'bip38_decrypt() on a plain-mode key returns (key, addresshash, ...) and documents that the caller verifies the hash: '
               'with a different passphrase it is judged by whether the returned hash exposes the mismatch; Key()/HDKey() must raise; '
               'for EC-multiplied keys bip38_decrypt derives and reports wif/address itself and therefore must raise',
               'the network is always passed to Key()/HDKey() on import (an encrypted key does not carry it)',
               'bip38_intermediate_password refuses sequence=0 and lot outside 100000..999999 (refusal, not judged); such keys are '
               'made by the reference and only their decryption is judged']
EXHAUSTIVE = []

K_NFC = 'C15/passphrase/not-nfc-normalised'
K_FRESH_SALT = 'C15/freshness/owner-salt-default-evaluated-at-import'
K_FRESH_SEED = 'C15/freshness/seed-default-evaluated-at-import'
K_EC_NET = 'C15/ec-decrypt/non-default-network-unsupported'
K_HD_WITNESS = 'C15/hdkey/addresshash-from-witness-address'

N = ec.N

_PASS = [
    ('ascii', 'TestingOneTwoThree'),
    ('ascii', 'Satoshi'),
    ('ascii-long', 'correct horse battery staple ' * 4),
    ('ascii', 'p w!$%&/()=?\\"\''),
    ('accent-nfc', 'caf\u00e9 \u00e5ngstr\u00f6m'),
    ('accent-nfd', 'cafe\u0301 a\u030angstro\u0308m'),
    ('bip38-unicode-vector', '\u03d2\u0301\u0000\U00010400\U0001f4a9'),
    ('greek', '\u039c\u039f\u039b\u03a9\u039d \u039b\u0391\u0392\u0395'),
    ('cjk', '\u5341\u4eba\u5341\u8272'),
    ('emoji', '\U0001f511\U0001f4a9'),
    ('hangul-jamo', '\u1112\u1161\u11ab\u1100\u1173\u11af'),
    ('compat', '\ufb01\uff21'),
]
NFC_SENSITIVE = {c for c, p in _PASS if unicodedata.normalize('NFC', p) != p}


def _is_nfc(p):
    return unicodedata.normalize('NFC', p) == p


_NFC_INVARIANT = [(c, p) for c, p in _PASS if _is_nfc(p)]


def _fn(network):
    return ref.p2pkh_fn(bytes.fromhex(chain.NETWORKS[network]['p2pkh']))


HEXLIKE = ['123456', 'c0ffee', 'DEAD BEEF', 'deadbeef', 'AbCd 0123 4567 89eF', '00', 'cafe babe']     # bytes.fromhex() accepts these


def _wrong_hexlike(pw, rnd):
    """Passphrases that differ from a hex-looking one only in letter case or blanks (all of them un-hexlify alike)."""
    c = [pw.swapcase(), pw.upper(), pw.lower(), pw.replace(' ', ''), pw[:2] + ' ' + pw[2:], pw + ' ', ' ' + pw]
    c = [x for x in c if x != pw]
    return rnd.choice(c)


def _pwarg(pw):
    """The passphrase as handed to the library: str, or its utf-8 bytes when the case says so."""
    return pw.encode('utf-8') if (_PW_BYTES[0] and isinstance(pw, str)) else pw


_PW_BYTES = [False]


def _wrong(pw, rnd):
    """A passphrase that is different after NFC normalisation."""
    if pw in HEXLIKE:
        return _wrong_hexlike(pw, rnd)
    cands = [pw + ' ', pw[:-1] if len(pw) > 1 else pw + 'x', pw.swapcase() if pw.swapcase() != pw else pw + 'A',
             'x' + pw, pw[::-1] if pw[::-1] != pw else pw + '1']
    cands = [c for c in cands if unicodedata.normalize('NFC', c) != unicodedata.normalize('NFC', pw) and c]
    return rnd.choice(cands)


def _secret(rnd, cls):
    if cls == 'one':
        return (1).to_bytes(32, 'big')
    if cls == 'n-1':
        return (N - 1).to_bytes(32, 'big')
    if cls.startswith('lz'):
        k = int(cls[2:])
        return bytes(k) + bytes([rnd.randint(1, 255)]) + rnd.randbytes(31 - k)
    if cls == 'highbit':
        while True:
            b = bytes([rnd.randint(0x80, 0xff)]) + rnd.randbytes(31)
            if int.from_bytes(b, 'big') < N:
                return b
    if cls == 'ends01':
        return bytes([rnd.randint(1, 0x7f)]) + rnd.randbytes(30) + b'\x01'
    while True:
        b = rnd.randbytes(32)
        if 0 < int.from_bytes(b, 'big') < N:
            return b


SECRET_CLASSES = ['one', 'n-1', 'lz1', 'lz2', 'lz4', 'lz8', 'lz16', 'highbit', 'ends01', 'random', 'random', 'random']
APIS = ['Key', 'Key', 'Key', 'HDKey-legacy', 'func', 'HDKey-default']


# ------------------------------------------------------------------------------------------------ library calls
def _lib_encrypt(api, secret, compressed, network, pw):
    from bitcoinlib.keys import Key, HDKey, bip38_encrypt
    pw = _pwarg(pw)
    if api == 'HDKey-legacy':
        return HDKey(secret, network=network, compressed=compressed, witness_type='legacy').encrypt(pw)
    if api == 'HDKey-default':
        return HDKey(secret, network=network, compressed=compressed).encrypt(pw)
    k = Key(secret, network=network, compressed=compressed)
    if api == 'func':
        return bip38_encrypt(k.private_hex, k.address(), pw, b'\xe0' if compressed else b'\xc0')
    return k.encrypt(pw)


def _lib_decrypt(api, enc, network, pw):
    """-> (secret bytes, compressed). Raises when the library refuses."""
    from bitcoinlib.keys import Key, HDKey, bip38_decrypt
    pw = _pwarg(pw)
    if api == 'HDKey-legacy':
        k = HDKey(enc, password=pw, network=network, witness_type='legacy')
    elif api == 'HDKey-default':
        k = HDKey(enc, password=pw, network=network)
    elif api == 'func':
        import inspect
        if 'network' in inspect.signature(bip38_decrypt).parameters:    # (a tree that lets the caller name the network)
            return ('func', bip38_decrypt(enc, pw, network=network))
        return ('func', bip38_decrypt(enc, pw))
    else:
        k = Key(enc, password=pw, network=network)
        _last_key_views.clear()
        _last_key_views.update({'wif': k.wif(), 'address': k.address(), 'public_key': k.public_hex})
    return bytes(k.private_byte), bool(k.compressed)


_last_key_views = {}


def _expected_views(network, secret, compressed, seedb=None, lot=None, seq=None):
    """Every derived value the decrypting APIs report, from the reference."""
    pub = ec.pub_from_secret(int.from_bytes(secret, 'big'), compressed)
    addr = _fn(network)(pub)
    return {'secret': secret, 'compressed': compressed, 'address': addr, 'addresshash': ref.addresshash(addr),
            'wif': chain.wif_encode(network, secret, compressed), 'private_key': secret.hex(), 'public_key': pub.hex(),
            'seed': seedb.hex() if seedb is not None else None, 'lot': lot, 'sequence': seq}


EC_INFO_KEYS = ('wif', 'private_key', 'public_key', 'seed', 'address', 'lot', 'sequence')


def _judge_func_result(r, exp, case, col, mode):
    """All four values returned by bip38_decrypt: key bytes, address hash, compression flag and every entry of the info
    dictionary (EC-multiplied mode must report wif, private_key, public_key, seed, address, lot, sequence)."""
    col.probe('func_result_fields')
    bad = []
    try:
        priv, ah, comp, info = bytes(r[0]), bytes(r[1]), r[2], r[3]
    except Exception as e:
        col.violation(None, 'bip38_decrypt result is not (key, addresshash, compressed, info): %r' % (e,), case, repr(r)[:200], None)
        return
    if priv != exp['secret']:
        bad.append(('private key bytes', priv.hex(), exp['secret'].hex()))
    if ah != exp['addresshash']:
        bad.append(('address hash', ah.hex(), exp['addresshash'].hex()))
    if comp is not exp['compressed'] and comp != exp['compressed']:
        bad.append(('compressed flag', comp, exp['compressed']))
    if not isinstance(info, dict):
        bad.append(('info', repr(info)[:80], 'dict'))
        info = {}
    if mode == 'ec':
        for k in EC_INFO_KEYS:
            if k not in info:
                bad.append(('info[%r]' % k, 'missing', exp[k]))
    for k, v in info.items():
        if k in exp and k not in ('secret', 'compressed', 'addresshash'):
            got = v.hex() if isinstance(v, (bytes, bytearray)) else v
            if got != exp[k] and not (isinstance(got, str) and isinstance(exp[k], str) and k in ('private_key', 'public_key', 'seed') and got.lower() == exp[k]):
                bad.append(('info[%r]' % k, got, exp[k]))
    if bad:
        col.violation(None, 'bip38_decrypt (%s mode, %s, %s) reports wrong %s' % (
            mode, 'compressed' if exp['compressed'] else 'uncompressed', 'lot/sequence' if exp['lot'] is not None else 'no lot/sequence',
            ', '.join(b[0] for b in bad)), case, {b[0]: b[1] for b in bad}, {b[0]: b[2] for b in bad})


def _func_verifies(r, network, expect_secret=None):
    """bip38_decrypt result: does the returned address hash confirm the returned key (what Key._bip38_decrypt checks)?"""
    priv, ah, compressed = bytes(r[0]), bytes(r[1]), bool(r[2])
    v = int.from_bytes(priv, 'big')
    if not 0 < v < N:
        return False, priv, compressed
    addr = _fn(network)(ec.pub_from_secret(v, compressed))
    return ref.addresshash(addr) == ah, priv, compressed


# ------------------------------------------------------------------------------------------------ plain mode
def chk_noec(case, col, rnd):
    api, network, compressed = case['api'], case['network'], case['compressed']
    secret, pw, pcls = bytes.fromhex(case['secret']), case['pass'], case['pcls']
    _PW_BYTES[0] = bool(case.get('pass_bytes'))
    if pcls == 'hexlike':
        col.probe('hexlike_passphrase')
    col.case('noec/%s/%s/%s' % (api, network, pcls + ('-bytes' if _PW_BYTES[0] else '')),
             nontrivial=('noec', api, case.get('scls'), compressed, network, pcls, _PW_BYTES[0]), sample=case)
    fn = _fn(network)
    exp = ref.encrypt(secret, compressed, pw, address_fn=fn)
    sensitive = not _is_nfc(pw)

    # -- encrypt
    col.probe('noec_encrypt')
    try:
        got = _lib_encrypt(api, secret, compressed, network, pw)
    except Exception as e:
        got = None
        col.violation(None, '%s encrypt raised %r' % (api, e), case, repr(e), exp)
    if got is not None and got != exp:
        key = None
        if api == 'HDKey-default' and compressed:
            pub = ec.pub_from_secret(int.from_bytes(secret, 'big'), True)
            waddr = chain.address_segwit(network, 0, ec.hash160(pub))
            if got == ref.encrypt(secret, compressed, pw, address=waddr):
                key = K_HD_WITNESS
        elif sensitive and got == ref.encrypt(secret, compressed, pw, address_fn=fn, normalize=False):
            key = K_NFC
        col.violation(key, '%s encrypt (%s, %s passphrase) is not the BIP38 string' % (api, network, pcls), case, got, exp)

    # -- decrypt the reference string with the same passphrase
    col.probe('noec_decrypt')
    _chk_decrypt(api, exp, network, pw, secret, compressed, case, col, 'plain')

    # -- a different passphrase must be refused
    if case.get('wrong', True):
        _chk_wrong(api, exp, network, _wrong(pw, rnd), case, col, 'noec_wrong_passphrase')


def _chk_decrypt(api, enc, network, pw, secret, compressed, case, col, mode, exp=None):
    exp = exp or _expected_views(network, secret, compressed)
    try:
        r = _lib_decrypt(api, enc, network, pw)
        if r[0] == 'func':
            ok, priv, comp = _func_verifies(r[1], network)
            if mode == 'plain' and not ok:
                raise ValueError('address hash returned by bip38_decrypt does not confirm the returned key')
            _judge_func_result(r[1], exp, case, col, mode)
            r = (priv, comp)
        if r != (secret, compressed):
            col.violation(None, '%s decrypt (%s mode, %s) returned another key or compression flag' % (api, mode, network), case,
                          [r[0].hex(), r[1]], [secret.hex(), compressed])
        elif api == 'Key':
            col.probe('key_object_views')
            bad = sorted(k for k, v in _last_key_views.items() if v != exp[k])
            if bad:
                col.violation(None, 'Key(%s-mode key, password) object reports wrong %s' % (mode, ', '.join(bad)), case,
                              {k: _last_key_views[k] for k in bad}, {k: exp[k] for k in bad})
    except Exception as e:
        key = _classify_refusal(api, enc, network, pw, secret, compressed, e, mode)
        col.violation(key, '%s refused to decrypt a BIP38 %s-mode key with the right passphrase (%s, %s): %r' % (
            api, mode, network, case.get('pcls'), e), case, repr(e), [secret.hex(), compressed])


_ec_net_confirmed = {}


def _classify_refusal(api, enc, network, pw, secret, compressed, exc, mode):
    """Feature ablation, one named feature at a time; first healing feature gives the key."""
    # feature: passphrase not in NFC form -> neutralise by handing over the NFC form
    if not _is_nfc(pw):
        try:
            r = _lib_decrypt(api, enc, network, unicodedata.normalize('NFC', pw))
            if r[0] == 'func':
                ok, priv, comp = _func_verifies(r[1], network)
                r = (priv, comp) if (ok or mode == 'ec') else None
            if r == (secret, compressed):
                return K_NFC
        except Exception:
            pass
    # feature: HDKey with its default (segwit) witness type -> neutralise with witness_type='legacy'
    if api == 'HDKey-default':
        try:
            if _lib_decrypt('HDKey-legacy', enc, network, pw) == (secret, compressed):
                return K_HD_WITNESS
        except Exception:
            pass
    # feature: EC-multiplied key made for a network whose P2PKH version differs from the library default (bitcoin)
    if mode == 'ec' and chain.NETWORKS[network]['p2pkh'] != chain.NETWORKS['bitcoin']['p2pkh'] and \
            isinstance(exc, ValueError) and 'Address hash has invalid checksum' in str(exc):
        return K_EC_NET if _ec_on_bitcoin_heals(api) else None
    return None


def _ec_on_bitcoin_heals(api):
    """The same kind of key made for bitcoin decrypts (checked once per process and API)."""
    if api not in _ec_net_confirmed:
        try:
            g = ref.ec_plan('ablation', bytes(range(8)), None, None, bytes(range(24)), True, _fn('bitcoin'))
            r = _lib_decrypt(api, g['encrypted'], 'bitcoin', 'ablation')
            if r[0] == 'func':
                r = (bytes(r[1][0]), bool(r[1][2]))
            _ec_net_confirmed[api] = (r == (g['secret'], True))
        except Exception:
            _ec_net_confirmed[api] = False
    return _ec_net_confirmed[api]


def _chk_wrong(api, enc, network, wrong, case, col, probe, mode='plain'):
    col.probe(probe)
    case = dict(case, wrong_pass=wrong)
    try:
        r = _lib_decrypt(api, enc, network, wrong)
    except Exception:
        return
    if r[0] == 'func':
        ok, priv, comp = _func_verifies(r[1], network)
        if not ok and mode == 'plain':
            return          # the returned address hash exposes the mismatch (documented division of labour)
        r = (priv, comp)
    col.violation(None, '%s accepted a different passphrase and returned a key' % api, case, [r[0].hex(), r[1]], 'refusal')


# ------------------------------------------------------------------------------------------------ EC-multiplied
def chk_ec(case, col, rnd):
    from bitcoinlib.keys import bip38_intermediate_password, bip38_create_new_encrypted_wif, bip38_decrypt
    network, compressed, pw, pcls = case['network'], case['compressed'], case['pass'], case['pcls']
    salt, seedb = bytes.fromhex(case['salt']), bytes.fromhex(case['seedb'])
    lot, seq = case.get('lot'), case.get('seq')
    api = case.get('api', 'Key')
    lotcls = case.get('lotcls', 'none')
    _PW_BYTES[0] = bool(case.get('pass_bytes'))
    if pcls == 'hexlike':
        col.probe('hexlike_passphrase')
    col.case('ec/%s/%s/%s/%s' % (api, network, pcls + ('-bytes' if _PW_BYTES[0] else ''), lotcls),
             nontrivial=('ec', api, len(salt), lotcls, compressed, network, pcls, _PW_BYTES[0]), sample=case)
    fn = _fn(network)
    g = ref.ec_plan(pw, salt, lot, seq, seedb, compressed, fn)

    # -- intermediate code (the library accepts only lot 100000..999999 and sequence >= 1)
    lib_can = lot is None or (100000 <= lot <= 999999 and 1 <= seq <= 4095)
    if lib_can:
        col.probe('ec_intermediate')
        try:
            ic = bip38_intermediate_password(pw, lot, seq, salt if case.get('salt_form', 'bytes') == 'bytes' else salt.hex())
            if ic != g['intermediate']:
                col.violation(None, 'bip38_intermediate_password (%s passphrase, lot class %s) is not the BIP38 intermediate code' % (pcls, lotcls),
                              case, ic, g['intermediate'])
        except Exception as e:
            col.violation(None, 'bip38_intermediate_password raised %r' % (e,), case, repr(e), g['intermediate'])
    else:
        col.probe('ec_intermediate_by_reference_only')

    # -- generation from the reference intermediate code with a given seed
    col.probe('ec_generate')
    try:
        r = bip38_create_new_encrypted_wif(g['intermediate'], compressed, seedb if case.get('seed_form', 'bytes') == 'bytes' else seedb.hex(), network)
        got = {'encrypted': r['encrypted_wif'], 'confirmation': r['confirmation_code'], 'address': r['address'], 'pubkey': r['public_key']}
        exp = {'encrypted': g['encrypted'], 'confirmation': g['confirmation'], 'address': g['address'], 'pubkey': g['pubkey'].hex()}
        if got != exp:
            bad = sorted(k for k in exp if got[k] != exp[k])
            col.violation(None, 'bip38_create_new_encrypted_wif (%s, lot class %s): %s differ from BIP38' % (network, lotcls, ', '.join(bad)), case, got, exp)
        if bytes(r['seed']) != seedb or bool(r['compressed']) != compressed:
            col.violation(None, 'bip38_create_new_encrypted_wif reports another seed/compression than given', case, [r['seed'], r['compressed']], [seedb, compressed])
    except Exception as e:
        col.violation(None, 'bip38_create_new_encrypted_wif raised %r' % (e,), case, repr(e), g['encrypted'])

    # -- the passphrase owner decrypts the reference key
    col.probe('ec_decrypt')
    exp = _expected_views(network, g['secret'], compressed, seedb, lot, seq)
    _chk_decrypt(api, g['encrypted'], network, pw, g['secret'], compressed, case, col, 'ec', exp=exp)
    if api != 'func':
        # every EC case also judges the full result of bip38_decrypt itself (key, hash, flag and the whole info dict)
        try:
            r = _lib_decrypt('func', g['encrypted'], network, pw)
        except Exception:
            r = None        # a refusal of the right passphrase is judged (and classified) through the API of this case
        if r is not None:
            _judge_func_result(r[1], exp, case, col, 'ec')
    # -- a different passphrase must be refused (meaningful where the right one is accepted: bitcoin-version networks)
    if case.get('wrong', True) and chain.NETWORKS[network]['p2pkh'] == chain.NETWORKS['bitcoin']['p2pkh']:
        _chk_wrong(api, g['encrypted'], network, _wrong(pw, rnd), case, col, 'ec_wrong_passphrase', mode='ec')


# ------------------------------------------------------------------------------------------------ entry-point grid
GRID_ENTRIES = ('Key', 'HDKey', 'bip38_decrypt', 'Key._bip38_decrypt', 'HDKey._bip38_decrypt')
GRID_GROUPS = [(mode, comp) for mode in ('plain', 'ec') for comp in (True, False)]


def _grid_probe(entry, mode, compressed):
    return 'grid/%s/%s/%s' % (entry, mode, 'compressed' if compressed else 'uncompressed')


def chk_grid(case, col):
    """Guaranteed part of every run: one reference-made key per (mode, compression flag) decrypted through every decrypt
    entry point of the library WITHOUT telling it the compression (the flag byte of the encrypted key decides); every
    view the entry point offers (secret, compressed flag, public key, address, WIF) is judged against the reference."""
    from bitcoinlib import keys
    mode, compressed, network, pw = case['mode'], case['compressed'], case['network'], case['pass']
    secret_in = bytes.fromhex(case['secret'])
    _PW_BYTES[0] = False
    fn = _fn(network)
    if mode == 'plain':
        enc, secret = ref.encrypt(secret_in, compressed, pw, address_fn=fn), secret_in
        exp = _expected_views(network, secret, compressed)
    else:
        g = ref.ec_plan(pw, bytes.fromhex(case['salt']), case.get('lot'), case.get('seq'), bytes.fromhex(case['seedb']), compressed, fn)
        enc, secret = g['encrypted'], g['secret']
        exp = _expected_views(network, secret, compressed, bytes.fromhex(case['seedb']), case.get('lot'), case.get('seq'))
    for entry in case['entries']:
        col.case('grid/%s/%s/%s' % (entry, mode, 'c' if compressed else 'u'),
                 nontrivial=('grid', entry, mode, compressed, network, case.get('lot') is not None), sample=case)
        col.probe(_grid_probe(entry, mode, compressed))
        c = dict(case, entry=entry)
        try:
            if entry == 'Key':
                k = keys.Key(enc, password=pw, network=network)
                got = {'secret': bytes(k.private_byte), 'compressed': bool(k.compressed), 'public_key': k.public_hex,
                       'address': k.address(), 'wif': k.wif()}
            elif entry == 'HDKey':
                k = keys.HDKey(enc, password=pw, network=network, witness_type='legacy')
                got = {'secret': bytes(k.private_byte), 'compressed': bool(k.compressed), 'public_key': k.public_hex,
                       'address': k.address(), 'wif': k.wif_key()}
            elif entry == 'bip38_decrypt':
                r = _lib_decrypt('func', enc, network, pw)[1]
                _judge_func_result(r, exp, c, col, mode)
                got = {'secret': bytes(r[0]), 'compressed': bool(r[2])}
            elif entry == 'Key._bip38_decrypt':
                r = keys.Key._bip38_decrypt(enc, pw, network)
                got = {'secret': bytes(r[0]), 'compressed': bool(r[1])}
            else:
                r = keys.HDKey._bip38_decrypt(enc, pw, network, 'legacy')
                got = {'secret': bytes(r[0]), 'compressed': bool(r[1])}
        except Exception as e:
            col.violation(None, '%s refused a BIP38 %s-mode key of %s key with the right passphrase: %r' % (
                entry, mode, 'a compressed' if compressed else 'an uncompressed', e), c, repr(e), exp['wif'])
            continue
        bad = sorted(k for k, v in got.items() if v != exp[k])
        if bad:
            col.violation(None, '%s(%s-mode BIP38 of %s key): wrong %s' % (entry, mode, 'a compressed' if compressed else 'an uncompressed', ', '.join(bad)),
                          c, {k: (got[k].hex() if isinstance(got[k], bytes) else got[k]) for k in bad},
                          {k: (exp[k].hex() if isinstance(exp[k], bytes) else exp[k]) for k in bad})


def gen_grid(rnd, seed, sh):
    """Shard `sh` (0..7) runs group sh % 4 with half of the entry points; the eight shards together fill every cell."""
    mode, compressed = GRID_GROUPS[sh % 4]
    entries = list(GRID_ENTRIES[:2]) if (sh // 4) % 2 == 0 else list(GRID_ENTRIES[2:])
    nets = chain.NETWORK_NAMES
    lot = seq = None
    if mode == 'ec' and (seed + sh // 4) % 2:
        lot, seq = rnd.randint(100000, 999999), rnd.randint(1, 4095)
    return {'kind': 'grid', 'mode': mode, 'compressed': compressed, 'entries': entries,
            'network': 'bitcoin' if (seed + sh) % 3 == 0 else nets[(seed * 5 + sh) % len(nets)],
            'pass': _NFC_INVARIANT[(seed + sh) % len(_NFC_INVARIANT)][1], 'secret': _secret(rnd, 'random').hex(),
            'salt': rnd.randbytes(8).hex(), 'seedb': rnd.randbytes(24).hex(), 'lot': lot, 'seq': seq}


# ------------------------------------------------------------------------------------------------ freshness
def _first_repeat(values):
    """-> (j, i) 1-based request numbers of the first value that equals an earlier one, or None."""
    seen = {}
    for n, v in enumerate(values, 1):
        if v in seen:
            return n, seen[v]
        seen[v] = n
    return None


def _shared_window(draws, width=8):
    """draws: [(label, bytes)]. Random material handed out twice shows up as an 8-byte window shared by two different
    draws even when the two requests are cut differently (salt vs seed, shifted offsets); an accidental match has
    probability ~ n^2 / 2^64. -> (label_later, label_earlier, window) or None."""
    seen = {}
    for label, b in draws:
        mine = set()
        for k in range(len(b) - width + 1):
            w = b[k:k + width]
            if w in seen and w not in mine:
                return label, seen[w], w
            mine.add(w)
        for w in mine:
            seen.setdefault(w, label)
    return None


def chk_fresh(case, col):
    """One history, in this process, of successive default-argument generation requests:
    `n_flows` full flows (new intermediate code with a default owner salt + new key with a default seed), then `n_batch`
    new keys on one intermediate code. Owner salts, intermediate codes, seeds, public keys, addresses, encrypted keys and
    confirmation codes must be pairwise distinct over the WHOLE history, and no two draws may share random material."""
    from bitcoinlib import keys
    n_flows, n_batch = int(case.get('n_flows', 0)), int(case.get('n_batch', 0))
    pw = case.get('pass', 'freshness')
    col.case('fresh/history', nontrivial=('fresh', n_flows, n_batch), sample=case)
    codes, salts, res, draws = [], [], [], []

    def new_key(code, label, compressed):
        col.probe('fresh_new_key_call')
        try:
            r = keys.bip38_create_new_encrypted_wif(code, compressed=compressed)
        except Exception as e:
            col.violation(None, 'bip38_create_new_encrypted_wif(default seed) raised %r' % (e,), case, repr(e), None)
            return
        seed = bytes(r['seed'])
        if len(seed) != 24:
            col.violation(None, 'generated seed is not 24 bytes', case, seed, 24)
        res.append((label, r, seed))
        draws.append((label + ' seed', seed))

    for i in range(n_flows):
        label = 'flow #%d' % (i + 1)
        col.probe('fresh_intermediate_call')
        try:
            code = keys.bip38_intermediate_password(pw)
        except Exception as e:
            col.violation(None, 'bip38_intermediate_password(default salt) raised %r' % (e,), case, repr(e), None)
            continue
        try:
            salt = ref.parse_intermediate(code)['ownerentropy']
        except Exception as e:
            col.violation(None, 'default-salt intermediate code is malformed: %r' % (e,), case, code, None)
            continue
        codes.append(code)
        salts.append(salt)
        draws.append((label + ' owner salt', salt))
        new_key(code, label, bool(i % 2 == 0))
    batch_code = codes[0] if codes else ref.intermediate_code(pw, bytes(range(8)))
    for i in range(n_batch):
        new_key(batch_code, 'batch #%d' % (i + 1), bool(i % 2 == 0))

    # -- owner salts / intermediate codes
    if len(salts) >= 2:
        col.probe('fresh_salt_history', len(salts))
        rep = _first_repeat(salts) or _first_repeat(codes)
        if rep:
            key = None
            d = keys.bip38_intermediate_password.__defaults__
            if d and isinstance(d[-1], bytes) and set(salts) == {d[-1]}:
                key = K_FRESH_SALT          # every call used the very bytes object bound as default at import time
            col.violation(key, 'default-salt intermediate code request #%d repeats request #%d (%d requests in one process, %d distinct owner salts)' % (
                rep[0], rep[1], len(salts), len(set(salts))), case, [salts[rep[0] - 1].hex(), salts[rep[1] - 1].hex()], 'pairwise distinct')
    # -- seeds and everything derived from them, over the whole history (flows and batch together)
    if len(res) >= 2:
        col.probe('fresh_seed_history', len(res))
        seeds = [x[2] for x in res]
        fields = [('seed', seeds)] + [(f, [x[1][f] for x in res]) for f in ('encrypted_wif', 'address', 'public_key', 'confirmation_code')]
        for fname, vals in fields:
            rep = _first_repeat(vals)
            if rep:
                key = None
                d = keys.bip38_create_new_encrypted_wif.__defaults__
                if d and any(isinstance(x, bytes) and set(seeds) == {x} for x in d):
                    key = K_FRESH_SEED
                v = vals[rep[0] - 1]
                col.violation(key, 'new-key request #%d (%s) returned the same %s as request #%d (%s); %d requests in one process, %d distinct seeds' % (
                    rep[0], res[rep[0] - 1][0], fname, rep[1], res[rep[1] - 1][0], len(res), len(set(seeds))),
                    case, v.hex() if isinstance(v, bytes) else v, 'pairwise distinct')
                break
    # -- no random material handed out twice (differently cut requests included)
    if len(draws) >= 2:
        col.probe('fresh_material_windows', len(draws))
        sw = _shared_window(draws)
        if sw and not (_first_repeat(salts) or _first_repeat([x[2] for x in res])):
            col.violation(None, 'random material reused within one process: %s shares 8 bytes with %s' % (sw[0], sw[1]), case, sw[2].hex(), 'disjoint draws')
    # -- hostile schedule: the state of Python's global PRNG recurs between requests (re-seeded / restored before every
    #    call, as in forked workers or an application that seeds `random`); fresh keys must not depend on it. Entropy
    #    provenance is observed as well: bytes fetched from os.urandom during the call, and whether the call advanced
    #    the global PRNG.
    n_host, n_host_int = int(case.get('n_hostile', 0)), int(case.get('n_hostile_intermediate', 0))
    if n_host or n_host_int:
        import os as _os
        import random as _random
        saved, real_urandom = _random.getstate(), _os.urandom
        drawn = [0]

        def counting_urandom(n):
            drawn[0] += n
            return real_urandom(n)
        _random.seed(0xC15)
        recurring = _random.getstate()
        hres, hsalts, prov = [], [], []
        try:
            _os.urandom = counting_urandom
            for i in range(n_host + n_host_int):
                if i % 2:
                    _random.setstate(recurring)
                else:
                    _random.seed(0xC15)
                before, drawn[0] = _random.getstate(), 0
                col.probe('fresh_hostile_prng')
                try:
                    if i < n_host:
                        r = keys.bip38_create_new_encrypted_wif(batch_code, compressed=bool(i % 3))
                        hres.append((bytes(r['seed']), r['encrypted_wif'], r['address']))
                    else:
                        hsalts.append(ref.parse_intermediate(keys.bip38_intermediate_password(pw))['ownerentropy'])
                except Exception as e:
                    col.violation(None, 'generation call under a re-seeded global PRNG raised %r' % (e,), case, repr(e), None)
                    continue
                prov.append((i, drawn[0], _random.getstate() != before))
        finally:
            _os.urandom = real_urandom
            _random.setstate(saved)
        for what, vals in (('bip38_create_new_encrypted_wif (default seed)', hres), ('bip38_intermediate_password (default salt)', hsalts)):
            if len(vals) >= 2 and len(set(vals)) != len(vals):
                col.violation(None, '%s: %d requests, each made with the same state of the global `random` module, gave only %d distinct results' % (
                    what, len(vals), len(set(vals))), case, [v[0].hex() if isinstance(v, tuple) else v.hex() for v in vals[:4]], 'pairwise distinct')
        noos = [p for p in prov if p[1] == 0 and p[2]]
        if noos:
            col.violation(None, '%d of %d generation calls fetched no bytes from os.urandom and advanced the global PRNG instead '
                          '(randomness of new keys taken from the `random` module)' % (len(noos), len(prov)), case, noos[:3], 'OS entropy')
    # -- the last generated key belongs to the passphrase (one scrypt; ties the history to real keys)
    if res and case.get('decrypt_one', True):
        col.probe('fresh_generated_key_decrypts')
        r = res[-1][1]
        try:
            sec, comp = ref.decrypt(r['encrypted_wif'], pw)
            if ref.BITCOIN(ec.pub_from_secret(int.from_bytes(sec, 'big'), comp)) != r['address']:
                col.violation(None, 'generated key decrypts to another address', case, r['address'], None)
        except ref.Bip38Error as e:
            col.violation(None, 'generated key is not decryptable with the passphrase under BIP38: %r' % (e,), case, r['encrypted_wif'], None)


# ------------------------------------------------------------------------------------------ plan / shards / replay
def _selfcheck(col, full):
    import os
    import json
    from vf import env as venv
    try:
        if full == 'minimal':       # freshness shard: Base58Check + EC-multiplied parse/decrypt path (one scrypt)
            codec.selfcheck()
            ec.selfcheck()
            v = ref._EC[2]
            r = ref.decrypt_info(v[2], v[0])
            assert r['address'] == v[3] and (r['lot'], r['sequence']) == (v[6], v[7])
            assert ref.parse_intermediate(v[1])['ownerentropy'][4:] == (v[6] * 4096 + v[7]).to_bytes(4, 'big')
            return True
        rv = None
        p = os.path.join(venv.repo_dir(), 'tests', 'bip38_protected_key_tests.json')
        if full and os.path.exists(p):
            rv = json.load(open(p))
        chain.selfcheck()
        codec.selfcheck()
        ref.selfcheck(rv, full=full)
        return True
    except Exception as e:
        col.note_inconclusive('reference self-check failed: %r' % (e,))
        return False


def run_case(case, col, rnd):
    k = case['kind']
    if k == 'noec':
        chk_noec(case, col, rnd)
    elif k == 'ec':
        chk_ec(case, col, rnd)
    elif k == 'fresh':
        chk_fresh(case, col)
    elif k == 'grid':
        chk_grid(case, col)


def replay(case, col):
    if _selfcheck(col, full=False):
        run_case(case, col, random.Random('replay'))


def plan(tier, seed, scale=1.0):
    thorough = tier == 'thorough'
    nshard = 16 if thorough else 8
    specs = []
    for i in range(nshard):
        specs.append({'shard': i, 'nshard': nshard,
                      'n_noec': max(1, int((30 if thorough else 1) * scale)),
                      'n_ec': max(1, int((30 if thorough else 1) * scale)),
                      'fresh': None, 'full_selfcheck': i == 0})
    # one dedicated process for the freshness history (a history is a statement about ONE process). Cost measured:
    # ~0.4 s per full flow (one scrypt 16384/8/8), ~5 ms per new key on an existing intermediate code.
    specs.append({'shard': nshard, 'nshard': nshard, 'n_noec': 0, 'n_ec': 0, 'full_selfcheck': 'minimal',
                  'fresh': {'n_flows': max(48, int((400 if thorough else 48) * scale)),
                            'n_batch': max(96, int((3000 if thorough else 160) * scale)),
                            'n_hostile': max(24, int((400 if thorough else 24) * scale)),
                            'n_hostile_intermediate': 6 if thorough else 2}})
    return specs


def gen_noec(rnd, g):
    nets = chain.NETWORK_NAMES
    api = APIS[g % len(APIS)]
    scls = SECRET_CLASSES[(g // 2) % len(SECRET_CLASSES)] if g % 3 else rnd.choice(SECRET_CLASSES)
    pcls, pw = _PASS[(g * 5 + g // len(_PASS)) % len(_PASS)]
    compressed = True if api == 'HDKey-default' else bool((g + g // 7) % 2)
    if api == 'HDKey-default' and not _is_nfc(pw):      # one named feature per case: keep the passphrase feature out
        pcls, pw = _NFC_INVARIANT[g % len(_NFC_INVARIANT)]
    pass_bytes = False
    if g % 4 == 1:          # every run of 4 consecutive cases has a passphrase that looks like hexadecimal
        pcls, pw = 'hexlike', HEXLIKE[(g // 4) % len(HEXLIKE)]
        pass_bytes = api in ('Key', 'func') and (g // 4) % 2 == 1
    return {'kind': 'noec', 'pass_bytes': pass_bytes, 'api': api, 'network': nets[(g * 3 + g // len(nets)) % len(nets)] if g % 4 else 'bitcoin',
            'compressed': compressed, 'secret': _secret(rnd, scls).hex(), 'scls': scls, 'pass': pw, 'pcls': pcls}


def gen_ec(rnd, g):
    nets = chain.NETWORK_NAMES
    pcls, pw = _PASS[(g * 7 + 3 + g // len(_PASS)) % len(_PASS)]
    kind = g % 4
    lot = seq = None
    lotcls = 'none'
    salt = rnd.randbytes(8)
    if kind in (1, 3):
        lotcls, lot, seq = rnd.choice([('lib-range', rnd.randint(100000, 999999), rnd.randint(1, 4095)),
                                       ('lib-edge', rnd.choice([100000, 999999]), rnd.choice([1, 4095])),
                                       ('seq0', rnd.randint(100000, 999999), 0),
                                       ('lot-outside-lib-range', rnd.choice([0, 1, 99999, 1000000, 1048575]), rnd.randint(0, 4095))])
        if rnd.random() < 0.5:
            salt = salt[:4]
    api = ['Key', 'func', 'HDKey-legacy', 'Key'][(g // 4) % 4]
    network = 'bitcoin' if g % 3 != 2 else nets[(g // 3) % len(nets)]
    if chain.NETWORKS[network]['p2pkh'] != chain.NETWORKS['bitcoin']['p2pkh'] and not _is_nfc(pw):
        pcls, pw = _NFC_INVARIANT[g % len(_NFC_INVARIANT)]      # one named feature per case
    pass_bytes = False
    if g % 4 == 2:          # (no lot/sequence: the library's own intermediate code is judged too)
        pcls, pw = 'hexlike', HEXLIKE[(g // 4 + 3) % len(HEXLIKE)]
        pass_bytes = api in ('Key', 'func') and (g // 4) % 2 == 0
    return {'kind': 'ec', 'pass_bytes': pass_bytes, 'api': api, 'network': network, 'compressed': bool((g // 2) % 2), 'pass': pw, 'pcls': pcls,
            'salt': salt.hex(), 'seedb': rnd.randbytes(24).hex(), 'lot': lot, 'seq': seq, 'lotcls': lotcls,
            'salt_form': rnd.choice(['bytes', 'hex']), 'seed_form': rnd.choice(['bytes', 'hex'])}


def run_shard(spec, col):
    if not _selfcheck(col, full=spec.get('full_selfcheck', False)):
        return
    for p in ('noec_encrypt', 'noec_decrypt', 'noec_wrong_passphrase', 'ec_intermediate', 'ec_generate', 'ec_decrypt',
              'ec_wrong_passphrase', 'func_result_fields', 'key_object_views', 'hexlike_passphrase'):
        col.require(p)
    # the freshness history must be long: >= 48 owner salts and >= 144 seeds compared pairwise within one process
    col.require('fresh_salt_history', 48)
    col.require('fresh_seed_history', 144)
    col.require('fresh_material_windows', 192)
    col.require('fresh_hostile_prng', 26)
    for mode, comp in GRID_GROUPS:          # a cell of the entry-point grid that never ran makes the run inconclusive
        for entry in GRID_ENTRIES:
            col.require(_grid_probe(entry, mode, comp))
    rnd = random.Random('%s-%d-%d' % (ID, spec['seed'], spec['shard']))
    sh, ns = spec['shard'], spec['nshard']
    off = spec['seed'] * 7919
    if spec.get('fresh'):
        chk_fresh(dict(spec['fresh'], kind='fresh', **{'pass': 'freshness-%d' % spec['seed']}), col)
    if spec['n_noec'] or spec['n_ec']:
        for j in range(sh, 8, ns):          # 8 grid units (4 groups x 2 halves of the entry points) over the case shards
            chk_grid(gen_grid(rnd, spec['seed'], j), col)
    for i in range(spec['n_noec']):
        chk_noec(gen_noec(rnd, off + i * ns + sh), col, rnd)
    for i in range(spec['n_ec']):
        chk_ec(gen_ec(rnd, off + i * ns + sh), col, rnd)
