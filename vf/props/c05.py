"""C05 - address <-> locking script mapping is standard and mutually inverse; foreign-network addresses are refused.

Monitor shape: reference-model comparator on the real Output(...) / Transaction.add_output(...) code.  The oracle
is vf.refs.chain (golden network table + BIP13/16/141/173/350 script and address rules); it never sees library
values except the ones it judges.

Every case is a base (a standard destination given as an address string, or a locking script) plus named
features (future witness version, other program length, wrong base58 payload length, foreign network, source
kind = Address object / HDKey / key / hash, entry point = add_output).  A failing check is keyed only when
(a) a narrow predicate recognises the exact shape of a named mechanism and (b) the same case with the
corresponding feature neutralised passes (ablation).  Everything else is key=None.
"""
import random

from vf.refs import chain, codec
from vf.refs import secp256k1 as ec

ID = 'C05'
LEVEL = 'exploration'
ANCHORS = ['bitcoinlib/transactions.py', 'bitcoinlib/scripts.py', 'bitcoinlib/keys.py', 'bitcoinlib/encoding.py', 'bitcoinlib/networks.py']
DEPS = ()
RULE = ('cases: every network of the golden table x {P2PKH, P2SH, P2WPKH, P2WSH, P2TR} x random/edge payloads (all-zero, all-ff, leading '
        'zeros, payloads that read as a script / witness-program header), witness '
        'versions 0..16 x program lengths 2..40, base58 payload lengths != 20, every ordered network pair for the '
        'foreign-network clause; sources: address string, Address.parse object, Address(hashed_data/data) object, '
        'HDKey, Key.address_obj, public key, hash+type, raw script; entry points Output(...) and Transaction.add_output; '
        'both directions and their composition. non-trivial = distinct (kind, network, type / witness version / '
        'length class, source, entry point, foreign?) tuples')
TRUSTED_BASE = ['golden/chainparams.json (address version bytes / HRPs: independent for bitcoin, testnet*, signet, litecoin*, dogecoin*; pinned from tree 074a788 for bitcoinlib_test, regtest, litecoin_legacy)',
                'vf/refs/chain.py + vf/refs/codec.py (Base58Check, Bech32/Bech32m, segwit address rules; self-checked on BIP173/350 vectors)',
                'vf/refs/secp256k1.py (public keys for the key-based sources)']
ASSUMPTIONS = ['an all-upper-case bech32 string is the same address (BIP173): on a foreign network it must be refused like the lower-case one; on its own network it must be accepted by every source that takes the string (Output/add_output, Address.parse with and without network, deserialize_address) with the exact script and report the string as typed or its lower-case form, never a mixed-case string; a well-formed bech32 address whose HRP belongs to no known network must be refused on every network',
               '"different network" = the address version byte / HRP is not one of the transaction network\'s own constants; shared prefixes are not foreign',
               'a standard destination given as a lower-case address STRING of the right network must be accepted (a refusal there is a violation); '
               'for BIP350-valid future witness destinations (version >= 1 other than v1/32 bytes) a refusal is acceptable, a wrong script is not',
               'object sources (Address, HDKey): a refusal is tolerated and counted; an accepted object must yield exactly the script of the address string it shows',
               'the foreign-network clause for OBJECT sources is judged only through Transaction.add_output (Output() documents that it adopts the object\'s own network)',
               'script -> address for non-standard witness programs: reporting no address (or raising on .address) is acceptable, a different address is not - except for versions 1..16 with 20/32-byte programs: when address -> script yields the script, the script must report that address (inverse clause); '
               'the type label is judged only for the five standard types',
               'P2PK / bare multisig / nulldata outputs are not standard destinations of the statement: only their script bytes are checked when built from a public key']
EXHAUSTIVE = ['UPPER-CASE bech32/bech32m strings for every ordered network pair (incl. own) x {p2wpkh, p2wsh, p2tr}, and addresses of unknown HRPs on every network, in every quick run',
              'prior calls on the same HDKey object (address() with every script_type x encoding, address_obj, hash160, wif, public, as_dict) x 3 witness types before it is used as output source, in every quick run',
              'header-like payloads: first byte in {00, 51..60, 76, a9, 6a, 4c} x second byte in {len-2, 14, 20} x 5 standard types, both directions + hash / Address(hashed_data) sources, in every quick run',
              'networks x 5 standard types (string source, both entry points) in every quick run',
              'witness versions 0..16 x program lengths {20, 32} on every network in every quick run',
              'ordered network pairs x 5 standard types for the foreign-network clause (string source) in every quick run']

K_WV20 = 'C05/addr-to-script/witver-ge1-20-byte-program-paid-as-v0-p2wpkh'
K_WV2 = 'C05/addr-to-script/witver-ge2-paid-as-v1'
K_B58LEN = 'C05/addr-to-script/base58-payload-length-unchecked'
K_PARSE_WITVER = 'C05/address-object/parse-drops-witness-version'
K_OBJ_TYPE = 'C05/address-object/output-uses-object-script-type-not-address-type'
K_FOREIGN_OBJ = 'C05/foreign-network/address-object-or-hdkey-adopted-by-add-output'
K_SHORTPROG = 'C05/script-to-addr/witness-program-misread-as-version-length-header'
K_UPPER = 'C05/address-parse/upper-case-bech32-reencoded-with-mixed-case'      # fixed in bc2b8c2: named so that a recurrence is recognised
K_PROGKEY = 'C05/script-to-addr/witness-program-that-is-a-public-key-reported-as-p2wpkh-of-key'

NETS = chain.NETWORK_NAMES
STD = ('p2pkh', 'p2sh', 'p2wpkh', 'p2wsh', 'p2tr')


# ====================================================================== reference side
def ref_address(net, case):
    """address string of the destination described by case, encoded with the constants of `net`"""
    p = bytes.fromhex(case['payload'])
    if case['enc'] == 'base58':
        return codec.b58check_encode(bytes.fromhex(chain.NETWORKS[net][case['type']]) + p)
    a = codec.bech32_encode(case.get('hrp') or chain.NETWORKS[net]['hrp'], [case['witver']] + codec.convertbits(p, 8, 5),
                            codec.BECH32_CONST if case['witver'] == 0 else codec.BECH32M_CONST)
    # spelling variants that BIP173 allows for the same address: all upper case.  'hrp' = a well-formed address of NO known network.
    return a.upper() if case.get('spelling') == 'upper' else a


def _same_addr(got, addr, case):
    """the address as typed, or - for an upper-case spelling - its canonical lower-case form; never a mixed-case string"""
    if case.get('spelling') == 'upper' and isinstance(got, str):
        return got in (addr, addr.lower())
    return got == addr


def ref_script(case):
    p = bytes.fromhex(case['payload'])
    if case['enc'] == 'base58':
        return chain.script_p2pkh(p) if case['type'] == 'p2pkh' else chain.script_p2sh(p)
    return chain.script_witness(case['witver'], p)


def dest_type(case):
    """'p2pkh'.. for the five standard destinations, 'future' for other BIP350-valid witness destinations, 'badlen' for base58 payload != 20"""
    n = len(case['payload']) // 2
    if case['enc'] == 'base58':
        return case['type'] if n == 20 else 'badlen'
    v = case['witver']
    if v == 0 and n == 20:
        return 'p2wpkh'
    if v == 0 and n == 32:
        return 'p2wsh'
    if v == 1 and n == 32:
        return 'p2tr'
    return 'future'


def dest_for(t, payload, witver=None):
    if t in ('p2pkh', 'p2sh'):
        return {'enc': 'base58', 'type': t, 'payload': payload.hex()}
    v = {'p2wpkh': 0, 'p2wsh': 0, 'p2tr': 1}.get(t, witver)
    return {'enc': 'segwit', 'witver': v, 'payload': payload.hex()}


def features_of(case):
    f = []
    n = len(case['payload']) // 2
    if case['enc'] == 'segwit':
        if n not in (20, 32):
            f.append('prog_len_other')
        if dest_type(dict(case, payload='00' * (n if n in (20, 32) else 32))) == 'future':
            f.append('witver_future')
    elif n != 20:
        f.append('payload_len_bad')
    if case.get('addr_net', case['network']) != case['network']:
        f.append('other_net_constants')
    if case.get('src', 'string') != 'string':
        f.append('src_object')
    if case.get('via', 'output') != 'output':
        f.append('via_add_output')
    return f


def neutralise(case, feature):
    c = dict(case)
    n = len(case['payload']) // 2
    if feature == 'witver_future':
        c['witver'] = 0
        if n not in (20, 32):
            c['payload'] = (case['payload'] + '00' * 32)[:64]
    elif feature == 'prog_len_other':
        c['payload'] = (case['payload'] + '00' * 32)[:64]
    elif feature == 'payload_len_bad':
        c['payload'] = (case['payload'] + '00' * 20)[:40]
    elif feature == 'other_net_constants':
        c['addr_net'] = case['network']
    elif feature == 'src_object':
        c['src'] = 'string'
    elif feature == 'via_add_output':
        c['via'] = 'output'
    return c


# ====================================================================== library side
def _make(via, net, **kw):
    """Build one output through Output(...) or Transaction.add_output(...). -> library Output"""
    from bitcoinlib.transactions import Output, Transaction
    if via == 'output':
        return Output(kw.pop('value', 1000), network=net, **kw)
    t = Transaction(network=net)
    for k in ('script_type', 'witness_type', 'witver'):      # add_output has no such parameters
        kw.pop(k, None)
    t.add_output(kw.pop('value', 1000), **kw)
    return t.outputs[-1]


def _view(o):
    """(script bytes, type, address | 'EXC ...') - .address is a lazy property that may itself raise"""
    try:
        a = o.address
    except Exception as e:
        a = 'EXC %s' % type(e).__name__
    return bytes(o.lock_script), o.script_type, a


def _src_obj(case, addr):
    from bitcoinlib.keys import Address
    src = case.get('src', 'string')
    if src == 'string':
        return addr
    if src == 'addr_parse':
        return Address.parse(addr)
    if src == 'addr_parse_net':
        return Address.parse(addr, network=case.get('addr_net', case['network']))
    raise ValueError(src)


class Fail:
    def __init__(self, check, symptom, observed, expected):
        self.check, self.symptom, self.observed, self.expected = check, symptom, observed, expected


def _eval_deserialize(case, addr, own, dt, prog):
    """deserialize_address(string, network=N) called directly: the decoder every string source goes through"""
    from bitcoinlib.keys import deserialize_address
    N = case['network']
    fails = []
    try:
        d = deserialize_address(addr, network=N)
    except Exception as e:
        if own and dt in STD:
            fails.append(Fail('accept', 'refused-standard', '%s: %s' % (type(e).__name__, str(e)[:120]), {'address': addr}))
        return 'refused', fails
    if dt == 'badlen':
        fails.append(Fail('refuse-badlen', 'accepted-bad-length', {'script': '', 'type': d.get('script_type')}, 'refusal'))
        return 'accepted', fails
    if N not in (d.get('networks') or []):
        # the decoder's way of refusing a bech32 string for network N: N is not among the networks it reports (callers test exactly this)
        if own and dt in STD:
            fails.append(Fail('accept', 'refused-standard', {'networks': d.get('networks')}, {'address': addr, 'network': N}))
        return 'refused', fails
    if not own:
        fails.append(Fail('refuse-foreign', 'accepted-foreign', {'script': '', 'address': d.get('address'), 'output_network': str(d.get('network'))},
                          'refusal: %s is not an address of network %s' % (addr, N)))
        return 'accepted', fails
    if bytes(d['public_key_hash_bytes']) != prog:
        fails.append(Fail('script', 'wrong-payload', bytes(d['public_key_hash_bytes']).hex(), prog.hex()))
    if case['enc'] == 'segwit':
        if d['witver'] != case['witver']:
            fails.append(Fail('script', 'wrong-witver', d['witver'], case['witver']))
        hrp = case.get('hrp') or chain.NETWORKS[case.get('addr_net', N)]['hrp']
        if d['prefix'] not in (hrp, hrp.upper() if case.get('spelling') == 'upper' else hrp):
            fails.append(Fail('address', 'wrong-prefix', d['prefix'], hrp))
    if dt in STD and d['script_type'] != dt:
        fails.append(Fail('type', 'wrong-type', d['script_type'], dt))
    return 'accepted', fails


def eval_dest(case):
    """-> (status, [Fail...]) ; status: 'accepted' | 'refused' ; no recording (used by ablation too)"""
    N = case['network']
    M = case.get('addr_net', N)
    addr = ref_address(M, case)
    dt = dest_type(case)
    prog = bytes.fromhex(case['payload'])
    src = case.get('src', 'string')
    via = case.get('via', 'output')
    own = dt != 'badlen' and chain.address_network_ok(addr, N)
    fails = []
    if src == 'deserialize':
        return _eval_deserialize(case, addr, own, dt, prog)
    try:
        o = _make(via, N, address=_src_obj(case, addr))
        spk, typ, rep = _view(o)
    except Exception as e:
        exc = '%s: %s' % (type(e).__name__, str(e)[:120])
        if dt == 'badlen' or not own:
            return 'refused', fails
        if dt == 'future' or (src != 'string' and case.get('spelling') != 'upper'):
            return 'refused', fails                       # tolerated (see ASSUMPTIONS), counted by the caller
        fails.append(Fail('accept', 'refused-standard', exc, {'address': addr, 'script': ref_script(case).hex()}))
        return 'refused', fails
    if dt == 'badlen':
        fails.append(Fail('refuse-badlen', 'accepted-bad-length', {'script': spk.hex(), 'type': typ}, 'refusal: base58 payload of %d bytes is not an address' % len(prog)))
        return 'accepted', fails
    if not own:
        if src == 'string' or via == 'add_output':
            fails.append(Fail('refuse-foreign', 'accepted-foreign', {'script': spk.hex(), 'address': rep, 'output_network': o.network.name},
                              'refusal: %s is not an address of network %s' % (addr, N)))
            return 'accepted', fails
        # Output(address=<object of another network>, network=N): documented adoption of the object's network -> judged as an own-network object
    want = ref_script(case)
    if spk != want:
        fails.append(Fail('script', 'wrong-script', spk.hex(), want.hex()))
    if dt == 'future':
        if rep != '' and not _same_addr(rep, addr, case):
            fails.append(Fail('address', 'wrong-address', rep, addr))
    else:
        if not _same_addr(rep, addr, case):
            fails.append(Fail('address', 'wrong-address', rep, addr))
        if typ != dt:
            fails.append(Fail('type', 'wrong-type', typ, dt))
    # inverse: the script the library produced, read back by the library on the same network, must name the same address
    try:
        back = _view(_make('output', N if own else M, lock_script=spk))[2]
    except Exception as e:
        back = 'EXC %s' % type(e).__name__
    if dt == 'future':
        lenient = len(prog) not in (20, 32)      # 20/32-byte programs of versions 1..16: the accepted address must come back exactly
        if spk == want and not _same_addr(back, addr, case) and not (lenient and (back == '' or back.startswith('EXC'))):
            fails.append(Fail('inverse', 'wrong-inverse', back, addr))
    elif not _same_addr(back, addr, case) and spk == want:
        fails.append(Fail('inverse', 'wrong-inverse', back, addr))
    return 'accepted', fails


def classify_dest(case, fail):
    """narrow predicate + ablation -> key or None"""
    prog = bytes.fromhex(case['payload'])
    feats = features_of(case)
    hrp = chain.NETWORKS[case.get('addr_net', case['network'])]['hrp']
    if fail.check in ('address', 'object-address') and case.get('spelling') == 'upper' and case['enc'] == 'segwit' and isinstance(fail.observed, str):
        # shape of the repaired defect: UPPER-case HRP kept, data re-encoded in lower case with a checksum over the upper-case HRP;
        # ablation: the lower-case spelling of the same address passes this check
        h = case.get('hrp') or hrp
        mixed = codec.bech32_encode(h.upper(), [case['witver']] + codec.convertbits(prog, 8, 5), codec.BECH32_CONST if case['witver'] == 0 else codec.BECH32M_CONST)
        if fail.observed == mixed and mixed != mixed.upper():
            c2 = dict(case)
            c2.pop('spelling')
            if not any(f.check == fail.check for f in eval_dest(c2)[1]):
                return K_UPPER

    def heals(feature):
        if feature not in feats:
            return False
        st, fl = eval_dest(neutralise(case, feature))
        return not any(f.check == fail.check for f in fl)

    if fail.check == 'script' and case['enc'] == 'segwit':
        v = case['witver']
        if v >= 1 and len(prog) == 20 and fail.observed == chain.script_witness(0, prog).hex() and heals('witver_future'):
            return K_WV20
        if v >= 2 and len(prog) != 20 and fail.observed == chain.script_witness(1, prog).hex() and heals('witver_future'):
            return K_WV2
    if fail.check == 'refuse-badlen':
        L = len(prog)
        shapes = (b'\x76\xa9' + bytes([L]) + prog + b'\x88\xac', b'\xa9' + bytes([L]) + prog + b'\x87')
        if L < 76 and fail.observed['script'] in [s.hex() for s in shapes] and heals_badlen(case):
            return K_B58LEN
    if fail.check == 'refuse-foreign' and case.get('src', 'string') != 'string' and case.get('via') == 'add_output':
        # shape: the output silently took over a network of the OBJECT (one whose constants encode the address); ablation: the string is refused
        adopted = fail.observed['output_network']
        if adopted != case['network'] and chain.address_network_ok(ref_address(case.get('addr_net', case['network']), case), adopted) and heals('src_object'):
            return K_FOREIGN_OBJ
    if fail.check in ('address', 'inverse') and case['enc'] == 'segwit' and _short_shape(hrp, prog, fail.observed) and 'prog_len_other' in feats:
        # ablation: with a 32-byte program the check passes - or, for an Address.parse source, fails only in the parse-drops-witver shape
        c2 = neutralise(case, 'prog_len_other')
        rest = [f for f in eval_dest(c2)[1] if f.check == fail.check]
        if not rest or all(classify_dest(c2, f) == K_PARSE_WITVER for f in rest):
            return K_SHORTPROG
    keyish = _keyish(prog) if case['enc'] == 'segwit' else None
    if fail.check == 'inverse' and keyish:
        if fail.observed == codec.segwit_encode(hrp, 0, ec.hash160(keyish)):
            # ablation: the same destination with a byte that is no key prefix
            c2 = dict(case, payload=prog.replace(keyish, b'\x05' + keyish[1:]).hex())
            if not any(f.check == 'inverse' for f in eval_dest(c2)[1]):
                return K_PROGKEY
    if fail.check == 'address' and case.get('src', 'string').startswith('addr_parse') and case['enc'] == 'segwit' and case['witver'] >= 1:
        if 2 <= len(prog) <= 40 and fail.observed == _v0_string(hrp, prog) and heals('src_object'):
            return K_PARSE_WITVER
    return None


def _short_shape(hrp, prog, observed):
    """observed is a bech32-looking string of hrp whose program characters encode only prog[2:] (the first two program
    bytes were consumed as a <version><length> header); the version symbol and checksum are whatever came out"""
    if not isinstance(observed, str) or not observed.startswith(hrp + '1') or len(prog) in (20, 32, 40) or not (2 <= len(prog) <= 40) or \
            prog[1] != len(prog) - 2:
        return False
    body = observed[len(hrp) + 2:-6]
    return body == ''.join(codec.CHARSET[d] for d in codec.convertbits(prog[2:], 8, 5))


def _keyish(prog):
    """the first 33 bytes inside a witness program that a data-typing heuristic would take for a compressed public key:
    the program itself, or a 33-byte push found when the program is read as a script (on the curve or not)"""
    prog = bytes(prog)
    if len(prog) == 33 and prog[0] in (2, 3):
        return prog
    i = 0
    while i < len(prog):                       # lenient push tokenisation: stop at the first truncated push
        op = prog[i]
        i += 1
        if 1 <= op <= 75:
            d = prog[i:i + op]
            if len(d) != op:
                break
            if op == 33 and d[0] in (2, 3):
                return d
            i += op
        elif op in (0x4c, 0x4d, 0x4e):
            break
    return None


def heals_badlen(case):
    st, fl = eval_dest(neutralise(case, 'payload_len_bad'))
    return not fl


def _v0_string(hrp, prog):
    """what a bech32 encoder prints for (hrp, version 0, prog) without the BIP173 length rule"""
    return codec.bech32_encode(hrp, [0] + codec.convertbits(prog, 8, 5), codec.BECH32_CONST)


def judge_dest(case, col):
    dt = dest_type(case)
    N = case['network']
    M = case.get('addr_net', N)
    src, via = case.get('src', 'string'), case.get('via', 'output')
    addr = ref_address(M, case)
    own = dt != 'badlen' and chain.address_network_ok(addr, N)
    n = len(case['payload']) // 2
    lcls = str(n) if n in (20, 32) else ('2-4' if n <= 4 else '5-40' if n <= 40 else '>40')
    vcls = ('v%d' % case['witver']) if case['enc'] == 'segwit' else case['type']
    cls = 'dest/%s/%s/%s' % (dt, 'own' if own else ('foreign' if dt != 'badlen' else 'badlen'), src)
    col.case(cls, nontrivial=('dest', N, M if M != N else '', vcls, lcls, src, via, case.get('spelling'), bool(case.get('hrp'))), sample=case)
    col.probe('addr_to_script')
    if not own and dt != 'badlen':
        col.probe('foreign_refusal')
    if dt == 'badlen':
        col.probe('badlen_refusal')
    st, fails = eval_dest(case)
    if st == 'refused' and not fails:
        if own and dt != 'badlen':
            col.probe('tolerated_refusals')
        return
    if st == 'accepted' and own and dt in STD:
        col.probe('std_accepted')
    if st == 'accepted':
        col.probe('inverse_script_to_addr')
    for f in fails:
        key = classify_dest(case, f)
        col.violation(key, '%s[%s] address %s (%s%s, %d-byte payload) on network %s: %s' % (
            via, src, addr, vcls, '' if M == N else ' of ' + M, n, N, f.symptom), case, f.observed, f.expected)


# ---------------------------------------------------------------------- script -> address
def eval_script(case):
    N = case['network']
    spk = bytes.fromhex(case['spk'])
    rt, payload, ver = chain.classify_script(spk)
    want = chain.address_for_script(N, spk)
    fails = []
    try:
        o = _make(case.get('via', 'output'), N, lock_script=spk, strict=case.get('strict', True))
        got_spk, typ, rep = _view(o)
    except Exception as e:
        if rt in STD:
            fails.append(Fail('accept', 'refused-standard-script', '%s: %s' % (type(e).__name__, str(e)[:100]), want))
        return 'refused', fails
    if got_spk != spk:
        fails.append(Fail('script-kept', 'script-changed', got_spk.hex(), spk.hex()))
    if rt in STD:
        if rep != want:
            fails.append(Fail('address', 'wrong-address', rep, want))
        if typ != rt:
            fails.append(Fail('type', 'wrong-type', typ, rt))
        # inverse: the reported address, given back to the library on the same network, must produce the same script
        if rep == want:
            try:
                back = bytes(_make('output', N, address=rep).lock_script)
            except Exception as e:
                back = ('EXC %s' % type(e).__name__).encode()
            if back != spk:
                fails.append(Fail('inverse', 'wrong-inverse', back.hex() if not back.startswith(b'EXC') else back.decode(), spk.hex()))
    elif rt == 'witness_unknown':
        if not (rep in (want, '') or rep.startswith('EXC')):
            fails.append(Fail('address', 'wrong-address', rep, want))
        elif rep != want and len(payload) in (20, 32):
            # witness versions 1..16 with a 20/32-byte program are inside the statement's quantifier: when the library itself turns the
            # address into exactly this script, "no address" for the script means the two directions are not inverse
            try:
                forward = bytes(_make('output', N, address=want).lock_script) == spk
            except Exception:
                forward = False
            if forward:
                fails.append(Fail('address', 'no-address-although-address-to-script-works', {'address': rep, 'type': typ}, want))
    return 'accepted', fails


def classify_script(case, fail):
    N = case['network']
    spk = bytes.fromhex(case['spk'])
    rt, payload, ver = chain.classify_script(spk)
    if fail.check == 'address' and rt == 'witness_unknown' and _short_shape(chain.NETWORKS[N]['hrp'], payload, fail.observed):
        # ablation: the same version with a 32-byte program is reported correctly
        c2 = dict(case, spk=chain.script_witness(ver, bytes(range(32))).hex())
        st, fl = eval_script(c2)
        if not any(f.check == 'address' for f in fl):
            return K_SHORTPROG
    keyish = _keyish(payload) if rt == 'witness_unknown' else None
    if fail.check == 'address' and keyish:
        # shape: the program is (or is one push of) 33 bytes with a compressed-key prefix and the P2WPKH address of those bytes is reported
        if fail.observed == chain.address_segwit(N, 0, ec.hash160(keyish)):
            # ablation: the same program with a prefix byte that is no key prefix gets no (or the right) address
            c2 = dict(case, spk=chain.script_witness(ver, payload.replace(keyish, b'\x05' + keyish[1:])).hex())
            st, fl = eval_script(c2)
            if not any(f.check == 'address' for f in fl):
                return K_PROGKEY
    return None


def judge_script(case, col):
    spk = bytes.fromhex(case['spk'])
    rt, payload, ver = chain.classify_script(spk)
    n = len(payload) if payload else 0
    lcls = str(n) if n in (20, 32) else ('2-4' if n <= 4 else '5-40')
    col.case('script/%s' % rt, nontrivial=('script', case['network'], rt, ver, lcls, case.get('via', 'output'), case.get('strict', True)), sample=case)
    col.probe('script_to_addr')
    st, fails = eval_script(case)
    if st == 'accepted' and rt in STD and not fails:
        col.probe('inverse_addr_to_script')
    for f in fails:
        col.violation(classify_script(case, f), '%s(lock_script=%s.., strict=%s) on %s [%s v%s/%d bytes]: %s' % (
            case.get('via', 'output'), case['spk'][:12], case.get('strict', True), case['network'], rt, ver, n, f.symptom), case, f.observed, f.expected)


# ---------------------------------------------------------------------- hash / public key / HDKey / Address(...) sources
def _secret_pub(case):
    d = int(case['secret'], 16)
    return d, ec.pub_from_secret(d, case.get('compressed', True))


# calls a program may have made on a key object before handing it to Output()/add_output(); none of them is documented to change the
# key's own address (address_uncompressed() is left out: it switches the object to its uncompressed form by design)
PRIOR_CALLS = {
    'address()': lambda k: k.address(),
    'address_obj': lambda k: k.address_obj,
    'hash160': lambda k: k.hash160,
    'wif': lambda k: k.wif(),
    'public': lambda k: k.public(),
    'as_dict': lambda k: k.as_dict(),
}
for _st in (None, 'p2pkh', 'p2sh', 'p2wpkh', 'p2wsh', 'p2sh_p2wpkh', 'p2sh_p2wsh', 'p2tr'):
    for _enc in (None, 'base58', 'bech32'):
        if _st is None and _enc is None:
            continue
        PRIOR_CALLS['address(%s,%s)' % (_st, _enc)] = (lambda st, enc: (lambda k: k.address(script_type=st, encoding=enc)))(_st, _enc)


def eval_other(case):
    """-> (status, fails, meta) for kinds hash | pubkey | hdkey | addrobj"""
    from bitcoinlib.keys import Address, HDKey, Key
    N = case['network']
    kind = case['kind']
    via = case.get('via', 'output')
    fails = []
    foreign = False
    obj_addr = None
    if kind == 'hash':
        h = bytes.fromhex(case['payload'])
        t = case['type']
        want = ref_script(dest_for(t, h))
        kw = {'public_hash': h}
        if via == 'output':
            kw['script_type'] = t
        if case.get('encoding'):
            kw['encoding'] = case['encoding']
        want_type = t
    elif kind == 'pubkey':
        d, pub = _secret_pub(case)
        t = case['type']
        h = ec.hash160(pub)
        want = chain.script_p2pk(pub) if t == 'p2pk' else ref_script(dest_for(t, h))
        kw = {'public_key': pub if case.get('as', 'bytes') == 'bytes' else pub.hex()}
        if via == 'output' and case.get('explicit_type', True):
            kw['script_type'] = t
        if case.get('encoding'):
            kw['encoding'] = case['encoding']
        want_type = t
    elif kind == 'hdkey':
        d, pub = _secret_pub(case)
        M = case.get('key_net', N)
        wt = case['witness_type']
        h = ec.hash160(pub)
        if wt == 'legacy':
            t, want = 'p2pkh', chain.script_p2pkh(h)
        elif wt == 'segwit':
            t, want = 'p2wpkh', chain.script_witness(0, h)
        else:
            t, want = 'p2sh', chain.script_p2sh(ec.hash160(chain.script_witness(0, h)))
        want_type = t
        key_addr = chain.address_for_script(M, want)
        foreign = not chain.address_network_ok(key_addr, N)
        k = HDKey(d.to_bytes(32, 'big'), network=M, witness_type=wt, compressed=case.get('compressed', True))
        for call in case.get('prior', []):          # earlier, unrelated uses of the SAME key object must not change what it pays to
            try:
                PRIOR_CALLS[call](k)
            except Exception:
                pass
        kw = {'address': k if case.get('as', 'hdkey') == 'hdkey' else k.address_obj}
        obj_addr = key_addr
    elif kind == 'addrobj':
        ctor = case['ctor']
        M = case.get('obj_net', N)
        if ctor == 'hashed':
            h = bytes.fromhex(case['payload'])
            t = case['type']
            want = ref_script(dest_for(t, h))
            a = Address(hashed_data=h, script_type=t, network=M, **({'encoding': case['encoding']} if case.get('encoding') else {}))
        else:
            d, pub = _secret_pub(case)
            h = ec.hash160(pub)
            v = case['variant']
            redeem = chain.script_multisig(1, [pub])
            if v == 'default':
                t, want, a = 'p2wpkh', chain.script_witness(0, h), Address(data=pub, network=M)
            elif v == 'enc_base58':
                t, want, a = 'p2pkh', chain.script_p2pkh(h), Address(data=pub, encoding='base58', network=M)
            elif v == 'wt_legacy':
                t, want, a = 'p2pkh', chain.script_p2pkh(h), Address(data=pub, witness_type='legacy', network=M)
            elif v == 'st_p2pkh':
                t, want, a = 'p2pkh', chain.script_p2pkh(h), Address(data=pub, script_type='p2pkh', network=M)
            elif v == 'st_p2wpkh':
                t, want, a = 'p2wpkh', chain.script_witness(0, h), Address(data=pub, script_type='p2wpkh', network=M)
            elif v == 'wt_p2sh_segwit':
                t, want, a = 'p2sh', chain.script_p2sh(ec.hash160(chain.script_witness(0, h))), Address(data=pub, witness_type='p2sh-segwit', network=M)
            elif v == 'st_p2sh_p2wpkh':
                t, want, a = 'p2sh', chain.script_p2sh(ec.hash160(chain.script_witness(0, h))), Address(data=pub, script_type='p2sh_p2wpkh', network=M)
            elif v == 'st_p2sh_script':
                t, want, a = 'p2sh', chain.script_p2sh(ec.hash160(redeem)), Address(data=redeem, script_type='p2sh', network=M)
            elif v == 'st_p2wsh_script':
                t, want, a = 'p2wsh', chain.script_witness(0, ec.sha256(redeem)), Address(data=redeem, script_type='p2wsh', network=M)
            elif v == 'st_p2sh_p2wsh_script':
                t, want, a = 'p2sh', chain.script_p2sh(ec.hash160(chain.script_witness(0, ec.sha256(redeem)))), Address(data=redeem, script_type='p2sh_p2wsh', network=M)
            elif v == 'key_address_obj':
                t, want, a = 'p2pkh', chain.script_p2pkh(h), Key(d.to_bytes(32, 'big'), network=M, compressed=case.get('compressed', True)).address_obj
            elif v == 'key_address_bech32':
                kk = Key(d.to_bytes(32, 'big'), network=M)
                kk.address(encoding='bech32')
                t, want, a = 'p2wpkh', chain.script_witness(0, h), kk.address_obj
            else:
                raise ValueError(v)
        want_type = t
        obj_addr = chain.address_for_script(M, want)
        if a.address != obj_addr:
            fails.append(Fail('object-address', 'wrong-object-address', a.address, obj_addr))
            return 'accepted', fails, {'foreign': False}
        foreign = not chain.address_network_ok(obj_addr, N)
        kw = {'address': a}
    else:
        raise ValueError(kind)
    try:
        o = _make(via, N, **kw)
        spk, typ, rep = _view(o)
    except Exception as e:
        if kind in ('hash', 'pubkey'):
            fails.append(Fail('accept', 'refused-standard', '%s: %s' % (type(e).__name__, str(e)[:120]), want.hex()))
        return 'refused', fails, {'foreign': foreign}
    if foreign and via == 'add_output':
        fails.append(Fail('refuse-foreign', 'accepted-foreign', {'script': spk.hex(), 'address': rep, 'output_network': o.network.name},
                          'refusal: %s belongs to another network than %s' % (obj_addr, N)))
        return 'accepted', fails, {'foreign': True, 'want': want, 'obj_addr': obj_addr}
    if spk != want:
        fails.append(Fail('script', 'wrong-script', spk.hex(), want.hex()))
    if want_type in STD:
        wa = obj_addr if obj_addr is not None else chain.address_for_script(N, want)
        if rep != wa:
            fails.append(Fail('address', 'wrong-address', rep, wa))
        if typ != want_type and spk == want:
            fails.append(Fail('type', 'wrong-type', typ, want_type))
    return 'accepted', fails, {'foreign': foreign, 'want': want, 'obj_addr': obj_addr}


def classify_other(case, fail, meta):
    kind = case['kind']
    if fail.check == 'refuse-foreign' and kind in ('hdkey', 'addrobj'):
        # shape: the output silently took over a network of the OBJECT; ablation: the object's address as a STRING is refused on that network
        adopted = fail.observed['output_network']
        if adopted != case['network'] and meta.get('obj_addr') and chain.address_network_ok(meta['obj_addr'], adopted):
            from bitcoinlib.transactions import Transaction
            try:
                Transaction(network=case['network']).add_output(1000, address=meta['obj_addr'])
                refused = False
            except Exception:
                refused = True
            if refused:
                return K_FOREIGN_OBJ
    if fail.check == 'script' and kind in ('hdkey', 'addrobj') and meta.get('obj_addr'):
        # shape: another standard template over the very payload the object's address string carries
        rd = [r for r in chain.decode_address(meta['obj_addr'])]
        if rd:
            p = rd[0]['payload']
            alts = {chain.script_p2pkh(p).hex(), chain.script_p2sh(p).hex()} if len(p) == 20 else set()
            if len(p) in (20, 32):
                alts.add(chain.script_witness(0, p).hex())
            alts.discard(meta['want'].hex())
            if fail.observed in alts:
                # ablation: the object's address given as a string yields the right script
                try:
                    ok = bytes(_make('output', rd[0]['networks'][0] if case['network'] not in rd[0]['networks'] else case['network'],
                                     address=meta['obj_addr']).lock_script) == meta['want']
                except Exception:
                    ok = False
                if ok:
                    return K_OBJ_TYPE
    return None


def judge_other(case, col):
    kind = case['kind']
    sub = case.get('type') or case.get('witness_type') or case.get('variant')
    if kind == 'addrobj':
        sub = case.get('variant') or ('hashed-' + case['type'])
    col.case('%s/%s' % (kind, sub), nontrivial=(kind, case['network'], case.get('key_net') or case.get('obj_net') or '', sub, case.get('via', 'output'),
                                                 case.get('encoding'), case.get('compressed', True), case.get('as'), tuple(case.get('prior', []))), sample=case)
    col.probe('source_' + kind)
    try:
        st, fails, meta = eval_other(case)
    except Exception as e:
        if kind in ('hdkey', 'addrobj'):
            col.probe('tolerated_refusals')       # constructing the object itself was refused
            return
        col.violation(None, '%s source raised %r' % (kind, e), case, repr(e)[:200], None)
        return
    if meta.get('foreign') and case.get('via') == 'add_output':
        col.probe('foreign_refusal_object')
    if st == 'refused' and not fails:
        col.probe('tolerated_refusals')
    for f in fails:
        col.violation(classify_other(case, f, meta), '%s source (%s) via %s on %s: %s' % (kind, sub, case.get('via', 'output'), case['network'], f.symptom),
                      case, f.observed, f.expected)


# ====================================================================== plan / shards / replay
def run_case(case, col):
    k = case.get('kind')
    if k == 'dest':
        judge_dest(case, col)
    elif k == 'script':
        judge_script(case, col)
    else:
        judge_other(case, col)


def _selfcheck():
    codec.selfcheck()
    chain.selfcheck()
    ec.selfcheck()
    # the oracle's two directions are inverse on its own table
    for net in NETS:
        for t, p in (('p2pkh', bytes(20)), ('p2sh', b'\xff' * 20), ('p2wpkh', bytes(range(20))), ('p2wsh', bytes(range(32))), ('p2tr', b'\x01' * 32)):
            d = dict(dest_for(t, p), network=net)
            a = ref_address(net, d)
            rd = [r for r in chain.decode_address(a) if net in r['networks']]
            assert rd and rd[0]['script'] == ref_script(d) and chain.address_for_script(net, ref_script(d)) == a, (net, t)


def replay(case, col):
    _selfcheck()
    run_case(case, col)


# payloads that themselves look like the start of a serialised script / witness program: <OP_0|OP_1..OP_16|OP_DUP|OP_HASH160|
# OP_RETURN|PUSHDATA1> followed by a byte that reads as a plausible push length.  A hash is arbitrary data, so these are ordinary
# members of the input space for every 20/32(/40)-byte payload; content-sniffing code paths treat them differently.
HEADER_FIRST = (0x00,) + tuple(range(0x51, 0x61)) + (0x76, 0xa9, 0x6a, 0x4c)


def header_seconds(n):
    return (n - 2, 0x14, 0x20, n - 1, n, n - 3, 0x12, 0x1e, 0x26, 0xa9, 0x00)


def _headerlike(rnd, n, first=None, second=None):
    first = rnd.choice(HEADER_FIRST) if first is None else first
    second = rnd.choice(header_seconds(n)) if second is None else second
    return bytes([first, second & 0xff]) + rnd.randbytes(n - 2)


def _payload(rnd, n):
    r = rnd.random()
    if r < 0.15 and n >= 4:
        return _headerlike(rnd, n)
    r = rnd.random()
    if r < 0.08:
        return bytes(n)
    if r < 0.14:
        return b'\xff' * n
    if r < 0.22:
        return bytes(rnd.randint(1, 3)) + rnd.randbytes(n)[rnd.randint(1, 3):][:n - 3] + bytes(3)   # leading zero bytes (base58 leading 1s)
    return rnd.randbytes(n)


def _fix(p, n):
    return (p + bytes(n))[:n]


def plan(tier, seed, scale=1.0):
    thorough = tier == 'thorough'
    nshard = 16 if thorough else 8
    return [{'shard': i, 'nshard': nshard, 'n_random': int((12000 if thorough else 330) * scale),
             'timeout': 3 * 3600 if thorough else 900} for i in range(nshard)]


def run_shard(spec, col):
    try:
        _selfcheck()
    except Exception as e:
        col.note_inconclusive('reference self-check failed: %r' % (e,))
        return
    for p in ('addr_to_script', 'script_to_addr', 'std_accepted', 'inverse_script_to_addr', 'inverse_addr_to_script', 'foreign_refusal', 'badlen_refusal',
              'source_hash', 'source_pubkey', 'source_hdkey', 'source_addrobj', 'foreign_refusal_object'):
        col.require(p)
    sh, ns = spec['shard'], spec['nshard']
    rnd = random.Random('%s-%d-%d' % (ID, spec['seed'], sh))
    idx = 0

    def mine():
        nonlocal idx
        idx += 1
        return idx % ns == sh

    # ---- (1) exhaustive skeleton, striped over the shards: networks x standard types x entry points (string source)
    for net in NETS:
        for t in STD:
            for via in ('output', 'add_output'):
                if mine():
                    n = 32 if t in ('p2wsh', 'p2tr') else 20
                    judge_dest(dict(dest_for(t, _fix(_payload(rnd, n), n)), kind='dest', network=net, via=via), col)
                    judge_script({'kind': 'script', 'network': net, 'spk': ref_script(dest_for(t, _fix(_payload(rnd, n), n))).hex(), 'via': via,
                                  'strict': via == 'output'}, col)
    # ---- (2) witness versions 0..16 x {20, 32} on every network
    for net in NETS:
        for v in range(17):
            for n in (20, 32):
                if mine():
                    p = rnd.randbytes(n) if rnd.random() < 0.6 else _headerlike(rnd, n)
                    judge_dest({'kind': 'dest', 'network': net, 'enc': 'segwit', 'witver': v, 'payload': p.hex(), 'via': rnd.choice(['output', 'add_output'])}, col)
                    judge_script({'kind': 'script', 'network': net, 'spk': chain.script_witness(v, p).hex(), 'strict': rnd.random() < 0.5}, col)
    # ---- (2b) payloads that look like a script / witness-program header, every standard type, both directions and all hash-based sources
    for first in HEADER_FIRST:
        for t in STD:
            n = 32 if t in ('p2wsh', 'p2tr') else 20
            for second in (n - 2, 0x14, 0x20):
                if not mine():
                    continue
                net = rnd.choice(NETS)
                via = rnd.choice(['output', 'add_output'])
                p = _headerlike(rnd, n, first, second)
                judge_dest(dict(dest_for(t, p), kind='dest', network=net, via=via, src=rnd.choice(['string', 'string', 'addr_parse'])), col)
                judge_script({'kind': 'script', 'network': net, 'spk': ref_script(dest_for(t, p)).hex(), 'via': via, 'strict': rnd.random() < 0.5}, col)
                judge_other({'kind': 'hash', 'network': net, 'type': t, 'payload': p.hex(), 'via': 'output'}, col)
                judge_other({'kind': 'addrobj', 'ctor': 'hashed', 'network': net, 'type': t, 'payload': p.hex(), 'via': via}, col)
    for v in range(1, 17):                                    # future witness versions with 20/32/40-byte header-like programs
        for n in (20, 32, 40):
            if mine():
                net = rnd.choice(NETS)
                p = _headerlike(rnd, n, rnd.choice(HEADER_FIRST[:17]), n - 2)
                judge_dest({'kind': 'dest', 'network': net, 'enc': 'segwit', 'witver': v, 'payload': p.hex(), 'via': 'output', 'src': rnd.choice(['string', 'addr_parse'])}, col)
                judge_script({'kind': 'script', 'network': net, 'spk': chain.script_witness(v, p).hex(), 'strict': False}, col)
    # ---- (2c) call sequences on ONE key object: every prior call x witness type, then the key is used as output source
    for call in sorted(PRIOR_CALLS):
        for wt in ('legacy', 'segwit', 'p2sh-segwit'):
            if mine():
                judge_other({'kind': 'hdkey', 'network': rnd.choice(NETS), 'secret': '%x' % rnd.randrange(1, ec.N), 'witness_type': wt,
                             'via': rnd.choice(['output', 'add_output']), 'compressed': True, 'as': 'hdkey', 'prior': [call]}, col)
    # ---- (3) every ordered network pair x standard type: address of M used on N (string source; foreign or shared prefix)
    for N in NETS:
        for M in NETS:
            if M == N:
                continue
            for t in STD:
                if mine():
                    n = 32 if t in ('p2wsh', 'p2tr') else 20
                    judge_dest(dict(dest_for(t, rnd.randbytes(n)), kind='dest', network=N, addr_net=M, via=rnd.choice(['output', 'add_output'])), col)
    # ---- (3b) legal spelling variants of bech32 strings: UPPER CASE for every ordered network pair (a foreign address stays foreign however it
    #      is spelled; an own-network one may be refused or must give the exact script), and well-formed addresses of an unknown HRP
    for N in NETS:
        for M in NETS:
            for t in ('p2wpkh', 'p2wsh', 'p2tr'):
                if mine():
                    n = 32 if t in ('p2wsh', 'p2tr') else 20
                    judge_dest(dict(dest_for(t, rnd.randbytes(n)), kind='dest', network=N, addr_net=M, spelling='upper',
                                    src=rnd.choice(['string', 'string', 'addr_parse', 'addr_parse_net', 'deserialize']),
                                    via=rnd.choice(['output', 'add_output'])), col)
        for src in ('string', 'addr_parse', 'addr_parse_net', 'deserialize'):
            for t in ('p2wpkh', 'p2wsh', 'p2tr'):
                if mine():
                    n = 32 if t in ('p2wsh', 'p2tr') else 20
                    judge_dest(dict(dest_for(t, rnd.randbytes(n)), kind='dest', network=N, spelling='upper', src=src, via=rnd.choice(['output', 'add_output'])), col)
        for hrp in ('xyz', 'bc1', 'b', 'tbx', 'lnbc', 'BC'.lower() + 'c'):
            if mine():
                t = rnd.choice(['p2wpkh', 'p2wsh', 'p2tr'])
                n = 32 if t in ('p2wsh', 'p2tr') else 20
                judge_dest(dict(dest_for(t, rnd.randbytes(n)), kind='dest', network=N, hrp=hrp, spelling=rnd.choice([None, 'upper']),
                                via=rnd.choice(['output', 'add_output'])), col)
    # ---- (4) random mix
    secrets = [rnd.randrange(1, ec.N) for _ in range(6)]
    for _ in range(spec['n_random']):
        r = rnd.random()
        N = rnd.choice(NETS)
        via = rnd.choice(['output', 'add_output'])
        if r < 0.22:                                         # standard destinations, all string/object sources, sometimes another network's constants
            t = rnd.choice(STD)
            n = 32 if t in ('p2wsh', 'p2tr') else 20
            c = dict(dest_for(t, _fix(_payload(rnd, n), n)), kind='dest', network=N, via=via, src=rnd.choice(['string', 'string', 'addr_parse', 'addr_parse_net']))
            if rnd.random() < 0.35:
                c['addr_net'] = rnd.choice(NETS)
            if rnd.random() < 0.12:
                c['src'] = 'deserialize'
            if c['enc'] == 'segwit' and rnd.random() < 0.3:
                c['spelling'] = 'upper'          # every source that takes the string: Output/add_output, Address.parse (with/without network), deserialize_address
            judge_dest(c, col)
        elif r < 0.40:                                       # witness version x program length 2..40
            v = rnd.randint(0, 16)
            n = rnd.choice([2, 3, 4, 5, 16, 19, 20, 21, 31, 32, 33, 34, 39, 40, rnd.randint(2, 40)])
            if v == 0 and n not in (20, 32):
                n = rnd.choice([20, 32])                     # BIP173: v0 programs are 20 or 32 bytes (anything else is not an address)
            p = rnd.randbytes(n) if (n not in (20, 32, 40) or rnd.random() < 0.7) else _headerlike(rnd, n)
            if n not in (20, 32, 40) and v >= 1 and rnd.random() < (0.5 if n <= 4 else 0.15):
                p = p[:1] + bytes([n - 2]) + p[2:]           # a program whose 2nd byte equals the number of bytes after it (looks like <ver><len> header)
            elif n in (33, 34) and v >= 1 and rnd.random() < 0.5:
                p = bytes([rnd.choice([2, 3])]) + rnd.randbytes(32)      # a program that looks like a compressed public key (on the curve or not)
                if n == 34:
                    p = b'\x21' + p
            judge_dest({'kind': 'dest', 'network': N, 'enc': 'segwit', 'witver': v, 'payload': p.hex(), 'via': via,
                        'src': rnd.choice(['string', 'string', 'addr_parse'])}, col)
            judge_script({'kind': 'script', 'network': N, 'spk': chain.script_witness(v, p).hex(), 'strict': rnd.random() < 0.5, 'via': via}, col)
        elif r < 0.50:                                       # base58check strings with a payload that is not 20 bytes
            L = rnd.choice([16, 19, 21, 22, 24, 25, 30, 32, 33, 40, rnd.randint(10, 45)])
            if L == 20:
                L = 21
            judge_dest({'kind': 'dest', 'network': N, 'enc': 'base58', 'type': rnd.choice(['p2pkh', 'p2sh']), 'payload': rnd.randbytes(L).hex(), 'via': via}, col)
        elif r < 0.62:                                       # hash + type
            t = rnd.choice(STD)
            n = 32 if t in ('p2wsh', 'p2tr') else 20
            c = {'kind': 'hash', 'network': N, 'type': t, 'payload': _fix(_payload(rnd, n), n).hex(), 'via': 'output'}
            if rnd.random() < 0.4:
                c['encoding'] = 'base58' if t in ('p2pkh', 'p2sh') else 'bech32'
            judge_other(c, col)
            if t in ('p2pkh', 'p2wpkh'):                     # add_output has no script_type: the encoding selects p2pkh / p2wpkh
                c2 = dict(c, via='add_output', encoding='base58' if t == 'p2pkh' else rnd.choice([None, 'bech32']))
                if c2['encoding'] is None:
                    del c2['encoding']
                judge_other(c2, col)
        elif r < 0.72:                                       # public key
            comp = rnd.random() < 0.7
            t = rnd.choice(['p2pkh', 'p2wpkh', 'p2pk']) if comp else rnd.choice(['p2pkh', 'p2pk'])
            c = {'kind': 'pubkey', 'network': N, 'secret': '%x' % rnd.choice(secrets), 'compressed': comp, 'type': t, 'via': 'output', 'as': rnd.choice(['bytes', 'hex'])}
            if t != 'p2pk' and rnd.random() < 0.5:
                c['encoding'] = 'base58' if t == 'p2pkh' else 'bech32'
            judge_other(c, col)
            if t in ('p2pkh', 'p2wpkh'):
                c2 = dict(c, via='add_output', encoding='base58' if t == 'p2pkh' else 'bech32')
                judge_other(c2, col)
        elif r < 0.84:                                       # HDKey (own network, shared-prefix network, foreign network)
            wt = rnd.choice(['legacy', 'segwit', 'p2sh-segwit'])
            c = {'kind': 'hdkey', 'network': N, 'secret': '%x' % rnd.choice(secrets), 'witness_type': wt, 'via': via,
                 'compressed': True if wt != 'legacy' else rnd.random() < 0.7, 'as': rnd.choice(['hdkey', 'hdkey', 'address_obj'])}
            if rnd.random() < 0.4:
                c['key_net'] = rnd.choice(NETS)
            if c['as'] == 'hdkey' and rnd.random() < 0.5:
                c['prior'] = rnd.sample(sorted(PRIOR_CALLS), rnd.randint(1, 3))
            judge_other(c, col)
        else:                                                # Address(...) objects
            if rnd.random() < 0.45:
                t = rnd.choice(STD)
                n = 32 if t in ('p2wsh', 'p2tr') else 20
                c = {'kind': 'addrobj', 'ctor': 'hashed', 'network': N, 'type': t, 'payload': _fix(_payload(rnd, n), n).hex(), 'via': via}
                if rnd.random() < 0.3:
                    c['encoding'] = 'base58' if t in ('p2pkh', 'p2sh') else 'bech32'
            else:
                c = {'kind': 'addrobj', 'ctor': 'data', 'network': N, 'secret': '%x' % rnd.choice(secrets), 'via': via,
                     'variant': rnd.choice(['default', 'enc_base58', 'wt_legacy', 'st_p2pkh', 'st_p2wpkh', 'wt_p2sh_segwit', 'st_p2sh_p2wpkh', 'st_p2sh_script',
                                            'st_p2wsh_script', 'st_p2sh_p2wsh_script', 'key_address_obj', 'key_address_bech32'])}
            if rnd.random() < 0.35:
                c['obj_net'] = rnd.choice(NETS)
            judge_other(c, col)
