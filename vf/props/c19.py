"""C19 - script evaluation agrees with Bitcoin consensus for the implemented opcodes; a script that consensus
rejects is never reported as valid.

Two oracles, both against vf.refs.script_interp (written from interpreter.cpp, never imports bitcoinlib):

* STEP oracle: every `Stack.op_*` method is wrapped (record-and-continue).  The wrapper snapshots the stack, calls the
  real method, and compares (success, stack after) with the reference opcode applied to the same stack-before.
  OP_IF/OP_NOTIF additionally compare the rewritten command list with the consensus branch selection.
* PROGRAM oracle: `Script(commands).evaluate()` validity and final stack against the reference for random programs
  with nested conditionals and for standard spends with real signatures.  A disagreement is attributed by replaying
  the consensus dispatch loop with the library's observed step results substituted (hybrid replay) and by named
  attribution models of the dispatch loop; what cannot be attributed gets key None.

Keys name mechanisms: `C19/<op>/<deviation>` (one narrow predicate each), `C19/dispatch/<deviation>`, and
`C19/false-accept/<mechanism>` whenever Script.evaluate() reports VALID for a script consensus rejects.
"""
import random

from vf.refs import script_interp as si
from vf.refs import secp256k1 as ec

ID = 'C19'
LEVEL = 'exploration'
ANCHORS = ['bitcoinlib/scripts.py', 'bitcoinlib/config/opcodes.py']
DEPS = ()
RULE = ('steps: every Stack.op_* method x every stack of depth <= 3 (thorough 4) over the 11-element set, plus targeted '
        'deep stacks (PICK/ROLL/2ROT/2OVER/2SWAP/3DUP), numeric operand grids, real keys/signatures for CHECKSIG/'
        'CHECKMULTISIG and locktime grids for CLTV/CSV; programs: random programs of length <= 20 (thorough 60) with nested '
        'conditionals generated stack-aware, and P2PK/P2PKH/bare m-of-n spends with valid and invalidated signatures; '
        'non-trivial = distinct (method, depth, top-two elements) for steps, distinct (class, executed-opcode set, '
        'nesting, outcome) for programs')
TRUSTED_BASE = ['vf/refs/script_interp.py (EvalScript semantics for sigversion BASE with consensus flags DERSIG, NULLDUMMY, CLTV, CSV; '
                'self-checked on hand-verified script vectors, hash vectors, signature/multisig ordering and BIP65/BIP112 cases)',
                'vf/refs/secp256k1.py (ECDSA verify, strict DER)']
ASSUMPTIONS = ['the signature digest is supplied (message); sighash computation is C01, ECDSA itself C13',
               'a Stack method "succeeds" when it neither raises nor returns False (the criterion Script.evaluate applies)',
               'Script.evaluate() is judged as EvalScript over the single command list followed by the final truth check; '
               'its final stack is compared after the pop evaluate() performs',
               'consensus = block validation flags (DERSIG, NULLDUMMY, CLTV, CSV); policy-only rules (MINIMALDATA, LOW_S, NULLFAIL, '
               'CLEANSTACK, ...) are not demanded',
               'opcodes without a Stack method reachable from the dispatch loop must merely never yield "valid"']
EXHAUSTIVE = ['every Stack.op_* method x all stacks of depth <= 3 (thorough: <= 4) over '
              "{'', 00, 80, 01, 81, 02, 7f, ff00, 0080, 0000008000, 20-byte blob}"]

ELEMENTS = [b'', b'\x00', b'\x80', b'\x01', b'\x81', b'\x02', b'\x7f', b'\xff\x00', b'\x00\x80',
            b'\x00\x00\x00\x80\x00', bytes(range(1, 21))]

OP = si.OP
# library method name -> consensus opcode.  The four comparison methods carry a `num` prefix in the library.
METHOD_OP = {name.lower(): code for code, name in si.OPNAME.items()
             if code > 0x60 or code in (0x50,)}
for _lib, _core in (('op_numlessthan', 'OP_LESSTHAN'), ('op_numgreaterthan', 'OP_GREATERTHAN'),
                    ('op_numlessthanorequal', 'OP_LESSTHANOREQUAL'), ('op_numgreaterthanorequal', 'OP_GREATERTHANOREQUAL')):
    METHOD_OP[_lib] = OP[_core]
LT_FAMILY = frozenset(OP[n] for n in ('OP_LESSTHAN', 'OP_GREATERTHAN', 'OP_LESSTHANOREQUAL', 'OP_GREATERTHANOREQUAL'))
IF_METHODS = ('op_if', 'op_notif')
# The opcode set the pinned tree implements (074a788).  "Implemented" is not taken from the tree under test: a method
# that disappears must be reported, not excused as "not implemented".
BASELINE_METHODS = (
    'op_0notequal op_1add op_1sub op_2drop op_2dup op_2over op_2rot op_2swap op_3dup op_abs op_add op_booland op_boolor '
    'op_checklocktimeverify op_checkmultisig op_checkmultisigverify op_checksequenceverify op_checksig op_checksigverify '
    'op_depth op_drop op_dup op_equal op_equalverify op_hash160 op_hash256 op_if op_ifdup op_max op_min op_negate op_nip '
    'op_nop op_nop1 op_nop10 op_nop4 op_nop5 op_nop6 op_nop7 op_nop8 op_nop9 op_not op_notif op_numequal op_numequalverify '
    'op_numgreaterthan op_numgreaterthanorequal op_numlessthan op_numlessthanorequal op_numnotequal op_over op_pick '
    'op_return op_ripemd160 op_roll op_rot op_sha1 op_sha256 op_size op_sub op_swap op_tuck op_verify op_within').split()
ARGNAMES = {'op_checksig': ('message', '_'), 'op_checksigverify': ('message', '_'),
            'op_checkmultisig': ('message', 'data'), 'op_checkmultisigverify': ('message', 'data'),
            'op_checklocktimeverify': ('sequence', 'tx_locktime'), 'op_checksequenceverify': ('sequence', 'version'),
            'op_if': ('commands',), 'op_notif': ('commands',)}


def hx(stack):
    return [bytes(x).hex() for x in stack]


def cmds_json(cmds):
    return [c if isinstance(c, int) else bytes(c).hex() for c in cmds]


def cmds_unjson(cmds):
    return [c if isinstance(c, int) else bytes.fromhex(c) for c in cmds]


def all_bytes(seq):
    return all(isinstance(x, (bytes, bytearray)) for x in seq)


# ====================================================================== monitor
class Entry:
    __slots__ = ('name', 'before', 'args', 'ret', 'exc', 'after', 'depth', 'cmds_before', 'cmds_after', 'ok', 'dev',
                 'judged', 'ref_ok', 'ref_after')

    def __init__(self):
        self.dev = None
        self.judged = False


class Monitor:
    """Wraps Stack.op_*; judges every call against the reference; keeps the step log of the current program."""

    def __init__(self, col):
        self.col = col
        self.depth = 0
        self.log = None
        self.installed = False
        self.unmapped = []

    def install(self):
        if self.installed:
            return
        from bitcoinlib.scripts import Stack
        self.Stack = Stack
        for name in sorted(n for n in dir(Stack) if n.startswith('op_')):
            raw = Stack.__dict__.get(name)
            if raw is None:
                continue
            if name not in METHOD_OP:
                self.unmapped.append(name)
                continue
            if isinstance(raw, staticmethod):
                setattr(Stack, name, staticmethod(self._wrap_static(name, raw.__func__)))
            else:
                setattr(Stack, name, self._wrap(name, raw))
        self.installed = True
        if self.unmapped:
            self.col.note_inconclusive('Stack methods without a reference mapping: %s' % self.unmapped)

    def _bind(self, name, a, kw):
        names = ARGNAMES.get(name, ())
        out = {}
        for i, v in enumerate(a):
            if i < len(names):
                out[names[i]] = v
        for k, v in kw.items():
            out[k] = v
        return out

    def _wrap(self, name, orig):
        mon = self

        def wrapper(self, *a, **kw):
            e = Entry()
            e.name = name
            e.before = list(self)
            e.args = mon._bind(name, a, kw)
            e.depth = mon.depth
            e.cmds_before = list(e.args['commands']) if name in IF_METHODS and isinstance(e.args.get('commands'), list) else None
            e.ret = None
            e.exc = None
            mon.depth += 1
            try:
                e.ret = orig(self, *a, **kw)
            except Exception as ex:
                e.exc = ex
            finally:
                mon.depth -= 1
            e.after = list(self)
            e.cmds_after = list(e.args['commands']) if e.cmds_before is not None else None
            e.ok = e.exc is None and e.ret is not False
            try:
                judge_step(e, mon.col)
            except Exception as ex:    # the oracle must never disturb the library
                mon.col.note_inconclusive('step oracle crashed on %s: %r' % (name, ex))
            if mon.log is not None:
                mon.log.append(e)
            if e.exc is not None:
                raise e.exc
            return e.ret
        wrapper.__name__ = name
        wrapper.__wrapped__ = orig
        return wrapper

    def _wrap_static(self, name, orig):
        mon = self

        def wrapper(*a, **kw):
            e = Entry()
            e.name = name
            e.before = None
            e.args = {}
            e.depth = mon.depth
            e.cmds_before = e.cmds_after = None
            e.ret = None
            e.exc = None
            try:
                e.ret = orig(*a, **kw)
            except Exception as ex:
                e.exc = ex
            e.after = None
            e.ok = e.exc is None and e.ret is not False
            try:
                judge_step(e, mon.col)
            except Exception as ex:
                mon.col.note_inconclusive('step oracle crashed on %s: %r' % (name, ex))
            if mon.log is not None:
                mon.log.append(e)
            if e.exc is not None:
                raise e.exc
            return e.ret
        wrapper.__name__ = name
        return wrapper

    def begin(self):
        self.log = []

    def end(self):
        log, self.log = self.log, None
        return log


_MON = None


def monitor(col):
    global _MON
    if _MON is None or _MON.col is not col:
        if _MON is not None and _MON.installed:
            _MON.col = col
        else:
            _MON = Monitor(col)
    _MON.install()
    return _MON


# ====================================================================== step oracle
def _ctx_for(e):
    a = e.args
    msg = a.get('message')
    digest = bytes(msg) if isinstance(msg, (bytes, bytearray)) and len(msg) == 32 else None
    if e.name == 'op_checklocktimeverify':
        return si.Ctx(locktime=a.get('tx_locktime'), sequence=a.get('sequence'))
    if e.name == 'op_checksequenceverify':
        return si.Ctx(sequence=a.get('sequence'), version=a.get('version'))
    return si.Ctx(digest=digest)


def _args_json(e):
    out = {}
    for k, v in e.args.items():
        if k == 'commands':
            continue
        if isinstance(v, (bytes, bytearray)):
            out[k] = bytes(v).hex()
        elif isinstance(v, int) or v is None:
            out[k] = v
        elif isinstance(v, dict):
            out[k] = {str(kk): (vv.hex() if isinstance(vv, (bytes, bytearray)) else vv) for kk, vv in v.items()
                      if isinstance(vv, (bytes, bytearray, int, str, type(None)))}
        else:
            out[k] = repr(v)[:80]
    return out


def step_case(e):
    c = {'kind': 'step', 'op': e.name, 'stack': hx(e.before) if e.before is not None else None, 'args': _args_json(e)}
    if e.cmds_before is not None:
        c['commands'] = cmds_json(e.cmds_before) if all(isinstance(x, (int, bytes, bytearray)) for x in e.cmds_before) else None
    return c


def judge_step(e, col):
    """Compare one observed Stack.op_* call with the reference; record a violation on disagreement."""
    name = e.name
    col.probe('step')
    col.probe('step:' + name)
    opcode = METHOD_OP[name]
    if name == 'op_return':
        e.judged = True
        e.ref_ok, e.ref_after = False, None
        if e.ok:
            e.dev = 'op_return/succeeds'
            col.violation(None, 'op_return reported success (ret=%r)' % (e.ret,), step_case(e), repr(e.ret), 'script fails')
        return
    if e.before is None or not all_bytes(e.before):
        col.probe('step-skipped-nonbytes')
        return
    if name in IF_METHODS:
        return judge_if(e, col)
    if name in ('op_checksig', 'op_checksigverify', 'op_checkmultisig', 'op_checkmultisigverify'):
        msg = e.args.get('message')
        if not (isinstance(msg, (bytes, bytearray)) and len(msg) == 32):
            col.probe('step-skipped-nodigest')
            return
    ctx = _ctx_for(e)
    ok_ref, after_ref, reason = si.step(opcode, e.before, ctx)
    e.judged = True
    e.ref_ok, e.ref_after = ok_ref, after_ref
    after_lib = e.after
    agree = (e.ok == ok_ref) and (not ok_ref or (all_bytes(after_lib) and [bytes(x) for x in after_lib] == after_ref))
    if agree:
        if e.ok and e.ret is not True:
            col.probe('step-nonbool-success')      # e.g. CSV's class object where consensus passes as well
        return
    key = classify_step(e, ok_ref, after_ref, reason, ctx)
    e.dev = key or ('%s/unattributed' % name)
    if e.ok and not ok_ref:
        what = 'succeeds where consensus fails the script (%s)' % reason
    elif ok_ref and not e.ok:
        what = 'fails (%s) where consensus succeeds' % ('raised %s' % type(e.exc).__name__ if e.exc is not None else 'returned False')
    else:
        what = 'leaves a different stack'
    col.violation(key, '%s on stack %s %s' % (name, _short_stack(e.before), what), step_case(e),
                  {'ok': e.ok, 'ret': repr(e.ret)[:60], 'exc': repr(e.exc)[:120] if e.exc is not None else None,
                   'stack_after': hx(after_lib) if all_bytes(after_lib) else repr(after_lib)[:200]},
                  {'ok': ok_ref, 'stack_after': hx(after_ref) if after_ref is not None else None, 'reason': reason})


def _short_stack(st):
    return '[' + ' '.join((x.hex() if len(x) <= 6 else '%s..(%d)' % (x[:3].hex(), len(x))) or "''" for x in st) + ']'


def judge_if(e, col):
    notif = e.name == 'op_notif'
    cmds = e.cmds_before
    if cmds is None or not all(isinstance(c, (int, bytes, bytearray)) for c in cmds):
        col.probe('step-skipped-nonbytes')
        return
    e.judged = True
    exp_stack = exp_cmds = None
    reason = ''
    if len(e.before) < 1:
        ok_ref, reason = False, 'unbalanced conditional (empty stack)'
        found = poisoned = None
    else:
        cond = si.cast_to_bool(e.before[-1])
        if notif:
            cond = not cond
        found, selected, tail, poisoned = si.split_conditional(cmds, cond)
        ok_ref = found and not poisoned
        if not found:
            reason = 'unbalanced conditional (no OP_ENDIF)'
        elif poisoned:
            reason = 'disabled opcode / OP_VERIF / oversized push in the skipped branch'
        exp_stack = e.before[:-1]
        exp_cmds = selected + tail
    e.ref_ok, e.ref_after = ok_ref, exp_stack if ok_ref else None
    agree = (e.ok == ok_ref) and (not ok_ref or (e.after == exp_stack and _cmds_eq(e.cmds_after, exp_cmds)))
    if agree:
        return
    key = classify_if(e, ok_ref, found, poisoned, exp_stack, exp_cmds)
    e.dev = key or ('%s/unattributed' % e.name)
    col.violation(key, '%s on stack %s, commands %s: library %s, consensus %s' % (
        e.name, _short_stack(e.before), _short_cmds(cmds), 'continues with %s' % _short_cmds(e.cmds_after) if e.ok else 'fails',
        'continues with %s' % _short_cmds(exp_cmds) if ok_ref else 'fails (%s)' % reason), step_case(e),
        {'ok': e.ok, 'stack_after': hx(e.after), 'commands_after': cmds_json(e.cmds_after)},
        {'ok': ok_ref, 'stack_after': hx(exp_stack) if exp_stack is not None else None,
         'commands_after': cmds_json(exp_cmds) if exp_cmds is not None else None, 'reason': reason})


def _cmds_eq(a, b):
    if a is None or b is None or len(a) != len(b):
        return False
    for x, y in zip(a, b):
        if isinstance(x, int) != isinstance(y, int):
            return False
        if isinstance(x, int):
            if x != y:
                return False
        elif bytes(x) != bytes(y):
            return False
    return True


def _short_cmds(cmds):
    if cmds is None:
        return 'None'
    out = []
    for c in cmds[:24]:
        if isinstance(c, int):
            out.append(si.OPNAME.get(c, '0x%02x' % c).replace('OP_', ''))
        else:
            out.append('<%s>' % (bytes(c).hex() if len(c) <= 4 else '%dB' % len(c)))
    return ' '.join(out) + (' ...' if len(cmds) > 24 else '')


# ---------------------------------------------------------------------- deviation predicates (step level)
def _num(b):
    """script number of any length (the library never limits operand size in decode_num)"""
    return si.num_decode(b, max_size=10 ** 6)


def _noncanonical_false(b):
    return b != b'' and not si.cast_to_bool(b)


def _small(st, n):
    return len(st) >= n and all(len(x) <= 4 for x in st[-n:])


def classify_step(e, ok_ref, after_ref, reason, ctx):
    """-> mechanism key or None. Every branch recognises exactly one shape of deviation."""
    n = e.name
    b = e.before
    a = [bytes(x) for x in e.after] if all_bytes(e.after) else None
    ok = e.ok
    if a is None:
        return None
    f = _PRED.get(n)
    if f is None:
        return None
    try:
        return f(e, b, a, ok, ok_ref, after_ref, reason, ctx)
    except si.ScriptFail:
        return None


_PRED = {}


def pred(*names):
    def deco(f):
        for nm in names:
            _PRED[nm] = f
        return f
    return deco


def _enc(n):
    return si.num_encode(n)


def _b(x):
    return b'\x01' if x else b''


def _models_heal(opcode, e, a, ok, ctx_kwargs, candidates, flags=si.CONSENSUS_FLAGS):
    """Feature ablation on the reference: the smallest set of named departures under which the reference op produces
    exactly the library's result.  -> tuple of names or None."""
    import itertools
    for r in (1, 2, 3):
        for combo in itertools.combinations(candidates, r):
            model = tuple(c for c in combo if c != 'NO_NULLDUMMY')
            fl = flags - {'NULLDUMMY'} if 'NO_NULLDUMMY' in combo else flags
            okm, afterm, _ = si.step(opcode, e.before, si.Ctx(flags=fl, model=model, **ctx_kwargs))
            if okm == ok and (not ok or afterm == a):
                return combo
    return None


@pred('op_verify')
def _p_verify(e, b, a, ok, ok_ref, after_ref, reason, ctx):
    if ok and not ok_ref and b and _noncanonical_false(b[-1]) and a == b[:-1]:
        return 'C19/op_verify/bytewise-truthiness'


@pred('op_ifdup')
def _p_ifdup(e, b, a, ok, ok_ref, after_ref, reason, ctx):
    if ok and ok_ref and _noncanonical_false(b[-1]) and a == b + [b[-1]]:
        return 'C19/op_ifdup/bytewise-truthiness'


@pred('op_not')
def _p_not(e, b, a, ok, ok_ref, after_ref, reason, ctx):
    if ok and ok_ref and _noncanonical_false(b[-1]) and a == b[:-1] + [_b(b[-1] == b'')]:
        return 'C19/op_not/bytewise-zero-test'


@pred('op_0notequal')
def _p_0ne(e, b, a, ok, ok_ref, after_ref, reason, ctx):
    if ok and ok_ref and _noncanonical_false(b[-1]) and a == b[:-1] + [_b(b[-1] != b'')]:
        return 'C19/op_0notequal/bytewise-zero-test'


@pred('op_booland')
def _p_booland(e, b, a, ok, ok_ref, after_ref, reason, ctx):
    if ok and ok_ref and (_noncanonical_false(b[-1]) or _noncanonical_false(b[-2])) and a == b[:-2] + [_b(b[-1] != b'' and b[-2] != b'')]:
        return 'C19/op_booland/bytewise-zero-test'


@pred('op_boolor')
def _p_boolor(e, b, a, ok, ok_ref, after_ref, reason, ctx):
    if ok and ok_ref and (_noncanonical_false(b[-1]) or _noncanonical_false(b[-2])) and a == b[:-2] + [_b(b[-1] != b'' or b[-2] != b'')]:
        return 'C19/op_boolor/bytewise-zero-test'


@pred('op_numequal')
def _p_numequal(e, b, a, ok, ok_ref, after_ref, reason, ctx):
    if ok and ok_ref and _num(b[-1]) == _num(b[-2]) and b[-1] != b[-2] and a == b[:-2] + [b'']:
        return 'C19/op_numequal/bytewise-compare'


@pred('op_numnotequal')
def _p_numnotequal(e, b, a, ok, ok_ref, after_ref, reason, ctx):
    if ok and ok_ref and _num(b[-1]) == _num(b[-2]) and b[-1] != b[-2] and a == b[:-2] + [b'\x01']:
        return 'C19/op_numnotequal/bytewise-compare'


@pred('op_numequalverify')
def _p_numequalverify(e, b, a, ok, ok_ref, after_ref, reason, ctx):
    if len(b) < 2:
        return None
    if not ok and ok_ref and e.exc is None and _small(b, 2) and _num(b[-1]) == _num(b[-2]) and b[-1] != b[-2]:
        return 'C19/op_numequal/bytewise-compare'
    if ok and not ok_ref and not _small(b, 2) and a == b[:-1]:
        # op_numequal refused the oversized operand, its False is ignored and op_verify pops the top item
        return 'C19/op_numequalverify/oversized-operand-passes'


@pred('op_sub')
def _p_sub(e, b, a, ok, ok_ref, after_ref, reason, ctx):
    if ok and ok_ref and _small(b, 2) and a == b[:-2] + [_enc(_num(b[-1]) - _num(b[-2]))]:
        return 'C19/op_sub/operands-swapped'


def _cmp_pred(fn, key):
    def p(e, b, a, ok, ok_ref, after_ref, reason, ctx):
        if ok and ok_ref and _small(b, 2) and a == b[:-2] + [_b(fn(_num(b[-1]), _num(b[-2])))]:
            return key
    return p


_PRED['op_numlessthan'] = _cmp_pred(lambda top, second: top < second, 'C19/op_numlessthan/operands-swapped')
_PRED['op_numgreaterthan'] = _cmp_pred(lambda top, second: top > second, 'C19/op_numgreaterthan/operands-swapped')
_PRED['op_numlessthanorequal'] = _cmp_pred(lambda top, second: top <= second, 'C19/op_numlessthanorequal/operands-swapped')
_PRED['op_numgreaterthanorequal'] = _cmp_pred(lambda top, second: top >= second, 'C19/op_numgreaterthanorequal/operands-swapped')


@pred('op_within')
def _p_within(e, b, a, ok, ok_ref, after_ref, reason, ctx):
    # consensus: (x min max) -> min <= x < max; library takes x from the top and max from the third item
    if ok and ok_ref and _small(b, 3) and a == b[:-3] + [_b(_num(b[-2]) <= _num(b[-1]) < _num(b[-3]))]:
        return 'C19/op_within/operands-rotated'


@pred('op_tuck')
def _p_tuck(e, b, a, ok, ok_ref, after_ref, reason, ctx):
    if ok and ok_ref and len(b) >= 2 and a == b + [b[-2]]:
        return 'C19/op_tuck/behaves-as-over'


@pred('op_2swap')
def _p_2swap(e, b, a, ok, ok_ref, after_ref, reason, ctx):
    if not ok or len(b) < 2:
        return None
    rest = b[:-2]
    pos = max(len(rest) - 2, 0)
    shape = rest[:pos] + [b[-1], b[-2]] + rest[pos:]      # `self[-2:-2] = [self.pop(), self.pop()]`
    if a != shape:
        return None
    if ok_ref:
        return 'C19/op_2swap/moved-pair-reversed'
    if len(b) < 4:
        return 'C19/op_2swap/short-stack-accepted'


def _pyindex(rest, n):
    """rest[-n] with Python semantics (n = 0 -> bottom item, n < 0 -> counted from the bottom)"""
    i = -n
    if i < -len(rest) or i >= len(rest):
        return None
    return i % len(rest) if rest else None


@pred('op_pick')
def _p_pick(e, b, a, ok, ok_ref, after_ref, reason, ctx):
    if not ok or not b:
        return None
    rest = b[:-1]
    i = _pyindex(rest, _num(b[-1]))
    if i is None or a != rest + [rest[i]]:
        return None
    if ok_ref:
        return 'C19/op_pick/index-off-by-one'
    if reason == 'script number overflow':
        return 'C19/op_pick/oversized-index-accepted'
    return 'C19/op_pick/out-of-range-index-accepted'


@pred('op_roll')
def _p_roll(e, b, a, ok, ok_ref, after_ref, reason, ctx):
    if not ok or not b:
        return None
    rest = b[:-1]
    i = _pyindex(rest, _num(b[-1]))
    if i is None or a != rest[:i] + rest[i + 1:] + [rest[i]]:
        return None
    if ok_ref:
        return 'C19/op_roll/index-off-by-one'
    if reason == 'script number overflow':
        return 'C19/op_roll/oversized-index-accepted'
    return 'C19/op_roll/out-of-range-index-accepted'


@pred('op_checksig', 'op_checksigverify')
def _p_checksig(e, b, a, ok, ok_ref, after_ref, reason, ctx):
    if len(b) < 2:
        return None
    sig, pub = b[-2], b[-1]
    if not ok and ok_ref and e.exc is not None:
        if sig == b'':
            return 'C19/op_checksig/empty-signature-raises'
        pt = si.decode_pubkey(pub)
        if pt is None:
            return 'C19/op_checksig/undecodable-pubkey-raises'
        if len(pub) == 65 and pub[0] in (6, 7):
            return 'C19/op_checksig/hybrid-pubkey-refused'
        return None
    if ok and len(sig) == 64:
        healed = _models_heal(METHOD_OP[e.name], e, a, ok, {'digest': ctx.digest}, ('SIG_RAW64',))
        if healed == ('SIG_RAW64',):
            return 'C19/op_checksig/raw-64-byte-signature-accepted'
    return None


_CMS_MODELS = {'CMS_COUNTS_UNCHECKED': 'counts-unchecked', 'CMS_DUMMY_OPTIONAL': 'dummy-optional', 'NO_NULLDUMMY': 'nulldummy-not-enforced',
               'SIG_RAW64': 'raw-64-byte-signature-accepted'}


def _cms_parts(b):
    """(pubkeys, sigs) as the library pops them, or None when the stack is too short"""
    try:
        st = list(b)
        n = _num(st.pop())
        keys = [st.pop() for _ in range(max(n, 0))]
        m = _num(st.pop())
        sigs = [st.pop() for _ in range(max(m, 0))]
        return n, m, keys, sigs
    except (IndexError, si.ScriptFail):
        return None


@pred('op_checkmultisig', 'op_checkmultisigverify')
def _p_cms(e, b, a, ok, ok_ref, after_ref, reason, ctx):
    if not ok and ok_ref and e.exc is not None:
        parts = _cms_parts(b)
        if parts is None:
            return None
        n, m, keys, sigs = parts
        if m == 0 and n > 0 and isinstance(e.exc, IndexError):
            return 'C19/op_checkmultisig/zero-signatures-required-raises'
        if any(s_ == b'' for s_ in sigs):
            return 'C19/op_checkmultisig/empty-signature-raises'
        if any(si.decode_pubkey(k) is None for k in keys):
            return 'C19/op_checkmultisig/undecodable-pubkey-raises'
        return None
    if ok:
        healed = _models_heal(METHOD_OP[e.name], e, a, ok, {'digest': ctx.digest}, tuple(_CMS_MODELS))
        if healed:
            return 'C19/op_checkmultisig/' + '+'.join(_CMS_MODELS[h] for h in healed)
    return None


_CLTV_MODELS = {'CLTV_THRESHOLD_5E7': 'type-threshold-50000000', 'CLTV_ZERO_TXLOCKTIME_FAILS': 'zero-tx-locktime-refused',
                'NUM_ANYSIZE': 'oversized-operand-accepted'}


@pred('op_checklocktimeverify')
def _p_cltv(e, b, a, ok, ok_ref, after_ref, reason, ctx):
    if ok and a != b:
        return None
    kw = {'locktime': ctx.locktime, 'sequence': ctx.sequence}
    healed = _models_heal(METHOD_OP[e.name], e, a, ok, kw, tuple(_CLTV_MODELS))
    if healed and len(healed) == 1:
        return 'C19/op_checklocktimeverify/' + _CLTV_MODELS[healed[0]]
    return None


@pred('op_checksequenceverify')
def _p_csv(e, b, a, ok, ok_ref, after_ref, reason, ctx):
    if ok and not ok_ref and e.ret is NotImplementedError and a == b:
        return 'C19/op_checksequenceverify/not-implemented-always-passes'


def classify_if(e, ok_ref, found, poisoned, exp_stack, exp_cmds):
    if not e.ok or not e.before:
        return None
    cond = si.cast_to_bool(e.before[-1])
    if e.name == 'op_notif':
        cond = not cond
    if e.after != e.before[:-1]:
        return None
    if found and poisoned and not ok_ref and _cmds_eq(e.cmds_after, exp_cmds):
        return 'C19/op_if/skipped-branch-not-scanned'
    f2, sel2, tail2, _ = si.split_conditional(e.cmds_before, cond, single_else=True)
    if f2 and _cmds_eq(e.cmds_after, sel2 + tail2) and sum(1 for c in _level0(e.cmds_before) if c == 0x67) >= 2:
        return 'C19/op_if/only-first-else-honoured'
    return None


def _level0(cmds):
    """commands at nesting level 0 up to the matching OP_ENDIF"""
    d = 0
    out = []
    for c in cmds:
        if isinstance(c, int):
            if c in (0x63, 0x64):
                d += 1
            elif c == 0x68:
                if d == 0:
                    break
                d -= 1
        if d == 0:
            out.append(c)
    return out


# ====================================================================== step workload
def exec_step(name, stack, args, col, cls=None):
    """Drive one real Stack method; the installed wrapper judges it."""
    mon = monitor(col)
    st = mon.Stack([bytes(x) for x in stack])
    meth = getattr(st, name, None)
    if meth is None:
        col.probe('step-method-missing')
        return
    ident = (name, len(stack), hx(stack[-2:]), sorted((k, str(v)[:20]) for k, v in (args or {}).items() if k != 'message'))
    col.case(cls or ('step/%s/depth%d' % (name, min(len(stack), 5))), nontrivial=ident,
             sample={'kind': 'step', 'op': name, 'stack': hx(stack), 'args': {k: (v.hex() if isinstance(v, bytes) else v) for k, v in (args or {}).items()}})
    a = dict(args or {})
    try:
        if name in ('op_checksig', 'op_checksigverify', 'op_checkmultisig', 'op_checkmultisigverify'):
            meth(a.get('message', DIGEST))
        elif name == 'op_checklocktimeverify':
            meth(a.get('sequence'), a.get('tx_locktime'))
        elif name == 'op_checksequenceverify':
            meth(a.get('sequence'), a.get('version'))
        elif name in IF_METHODS:
            meth(list(a.get('commands', [])))
        else:
            meth()
    except Exception:
        pass


DIGEST = bytes.fromhex('5a805853bf82bcdd865deb09c73ccdd61d2331ac19d8c2911f17c7d954aec059')

CLTV_ENVS = [{'sequence': 1, 'tx_locktime': 1000}, {'sequence': 0xffffffff, 'tx_locktime': 1000}, {'sequence': 1, 'tx_locktime': 0},
             {'sequence': 0xfffffffe, 'tx_locktime': 600000000}, {'sequence': 1, 'tx_locktime': None}]
CSV_ENVS = [{'sequence': 10, 'version': 2}, {'sequence': 10, 'version': 1}, {'sequence': 0x8000000a, 'version': 2},
            {'sequence': 0x400005, 'version': 2}, {'sequence': 0, 'version': 2}]
IF_TAILS = [[0x52, 0x67, 0x53, 0x68, 0x54], [0x52, 0x68], [0x52, 0x67, 0x53], [0x68], [0x63, 0x52, 0x67, 0x53, 0x68, 0x67, 0x55, 0x68, 0x56]]


def step_methods(col):
    mon = monitor(col)
    return [n for n in sorted(METHOD_OP) if n in mon.Stack.__dict__]


def check_baseline(col):
    mon = monitor(col)
    for name in BASELINE_METHODS:
        col.probe('baseline-method')
        if not callable(getattr(mon.Stack, name, None)):
            col.violation(None, 'Stack.%s, implemented in the pinned tree, is missing' % name, {'kind': 'baseline', 'op': name}, 'missing', 'present')


def step_variants(name):
    if name == 'op_checklocktimeverify':
        return CLTV_ENVS
    if name == 'op_checksequenceverify':
        return CSV_ENVS
    if name in IF_METHODS:
        return [{'commands': t} for t in IF_TAILS]
    return [{}]


def iter_stacks(maxdepth):
    idx = 0
    for d in range(maxdepth + 1):
        n = len(ELEMENTS) ** d
        for k in range(n):
            st = []
            kk = k
            for _ in range(d):
                st.append(ELEMENTS[kk % len(ELEMENTS)])
                kk //= len(ELEMENTS)
            yield idx, st
            idx += 1


def run_exhaustive(spec, col):
    sh, ns = spec['shard'], spec['nshard']
    methods = step_methods(col)
    for idx, st in iter_stacks(spec['depth']):
        if idx % ns != sh:
            continue
        for name in methods:
            vs = step_variants(name)
            if len(vs) > 1:
                # env/tail variants multiply the space; rotate them deterministically, all of them on shallow stacks
                vs = vs if len(st) <= 2 else [vs[idx % len(vs)], vs[(idx // 7) % len(vs)]]
            for v in vs:
                exec_step(name, st, v, col)
    col.probe('exhaustive-stacks', sum(1 for idx, _ in iter_stacks(spec['depth']) if idx % ns == sh))


# ---------------------------------------------------------------------- targeted step families
NUMS = [-2147483647, -65536, -256, -129, -128, -127, -2, -1, 0, 1, 2, 3, 127, 128, 255, 256, 32767, 65535, 2147483647]
BIN_NUM = ['op_add', 'op_sub', 'op_booland', 'op_boolor', 'op_numequal', 'op_numequalverify', 'op_numnotequal', 'op_numlessthan',
           'op_numgreaterthan', 'op_numlessthanorequal', 'op_numgreaterthanorequal', 'op_min', 'op_max']
UN_NUM = ['op_1add', 'op_1sub', 'op_negate', 'op_abs', 'op_not', 'op_0notequal']


def distinct(n, salt=0):
    return [bytes([0x10 + salt + i]) * (1 + (i + salt) % 3) for i in range(n)]


def run_targeted(spec, col):
    sh, ns = spec['shard'], spec['nshard']
    jobs = []
    for name in BIN_NUM:
        for x in NUMS:
            for y in NUMS:
                jobs.append((name, [si.num_encode(x), si.num_encode(y)], {}))
    for name in UN_NUM:
        for x in NUMS + [2147483648, -2147483648]:
            jobs.append((name, [si.num_encode(x)], {}))
    small = [-2, -1, 0, 1, 2, 3, 5]
    for x in small:
        for y in small:
            for z in small:
                jobs.append(('op_within', [si.num_encode(x), si.num_encode(y), si.num_encode(z)], {}))
    # deep stack shuffles
    for name in ('op_2rot', 'op_2over', 'op_2swap', 'op_3dup', 'op_2dup', 'op_rot', 'op_tuck', 'op_over', 'op_nip', 'op_swap',
                 'op_2drop', 'op_depth', 'op_dup', 'op_drop'):
        for d in range(0, 9):
            for salt in (0, 5):
                jobs.append((name, distinct(d, salt), {}))
    for name in ('op_pick', 'op_roll'):
        for d in range(0, 7):
            for n in (-2, -1, 0, 1, 2, 3, 4, 5, 6, 7):
                jobs.append((name, distinct(d) + [si.num_encode(n)], {}))
            jobs.append((name, distinct(d) + [b'\x01\x00\x00\x00\x00'], {}))
            jobs.append((name, distinct(d) + [b'\x01\x00'], {}))
    # hashes on several lengths
    for name in ('op_ripemd160', 'op_sha1', 'op_sha256', 'op_hash160', 'op_hash256', 'op_size'):
        for L in (0, 1, 31, 32, 33, 55, 56, 64, 65, 75, 76, 255, 256, 520):
            jobs.append((name, [bytes((i * 7 + L) & 0xff for i in range(L))], {}))
    for name in ('op_equal', 'op_equalverify'):
        for x, y in ((b'\x01', b'\x01\x00'), (b'', b'\x00'), (b'\x80', b''), (b'ab', b'ab'), (b'ab', b'ac'), (b'abc', b'ab'), (b'a' * 20, b'a' * 20),
                     (b'a' * 20, b'a' * 19 + b'b'), (b'\x00' * 3, b'\x00' * 4)):
            jobs.append((name, [x, y], {}))
    # locktimes
    for top in (0, 1, 499, 500, 501, 40000000, 60000000, 400000000, 499999999, 500000000, 600000000, 2147483648, 4294967295, -1, -500):
        for txl in (None, 0, 500, 1000, 50000001, 450000000, 499999999, 500000000, 600000000, 4294967295):
            for seq in (0, 1, 0xfffffffe, 0xffffffff):
                jobs.append(('op_checklocktimeverify', [si.num_encode(top)], {'sequence': seq, 'tx_locktime': txl}))
    jobs.append(('op_checklocktimeverify', [b'\x01\x00\x00\x00\x00\x00'], {'sequence': 1, 'tx_locktime': 1000}))
    jobs.append(('op_checklocktimeverify', [], {'sequence': 1, 'tx_locktime': 1000}))
    for top in (0, 1, 10, 0xffff, 0x10000, 0x400005, 0x40000a, 0x80000000, 0x8000000a, -1, -10):
        for seq in (0, 9, 10, 11, 0x400006, 0x40000a, 0x8000000a, 0xffffffff):
            for ver in (0, 1, 2, 3):
                jobs.append(('op_checksequenceverify', [si.num_encode(top)], {'sequence': seq, 'version': ver}))
    jobs.append(('op_checksequenceverify', [b'\x0a\x00\x00\x00\x00\x00'], {'sequence': 10, 'version': 2}))
    jobs.append(('op_checksequenceverify', [], {'sequence': 10, 'version': 2}))
    # conditionals as steps
    tails = IF_TAILS + [
        [0x52, 0x67, 0x53, 0x67, 0x54, 0x68, 0x55],                 # two OP_ELSE
        [0x52, 0x67, 0x53, 0x67, 0x54, 0x67, 0x56, 0x68],           # three OP_ELSE
        [0x52, 0x67, 0x7e, 0x68, 0x55], [0x7e, 0x67, 0x52, 0x68],   # disabled opcode in one branch
        [0x52, 0x67, 0x65, 0x68], [0x66, 0x67, 0x52, 0x68],         # OP_VERIF / OP_VERNOTIF in one branch
        [0x62, 0x67, 0x52, 0x68], [0x50, 0x67, 0x52, 0x68],         # OP_VER / OP_RESERVED only fail when executed
        [0x63, 0x63, 0x52, 0x68, 0x67, 0x53, 0x68, 0x67, 0x64, 0x54, 0x67, 0x55, 0x68, 0x68, 0x56],
        [b'\x01', 0x67, b'\x02\x03', 0x68], [], [0x67, 0x68], [0x68, 0x68],
    ]
    for name in IF_METHODS:
        for t in tails:
            for top in ([b'\x01'], [b''], [b'\x00'], [b'\x80'], [b'\x00\x80'], [b'\x00\x00\x00\x00\x01'], [b'\x02', b'\x81'], []):
                jobs.append((name, top, {'commands': t}))
    for i, (name, st, args) in enumerate(jobs):
        if i % ns == sh:
            exec_step(name, st, args, col, cls='step-targeted/%s' % name)
    run_sig_steps(spec, col)


# ---------------------------------------------------------------------- signatures
class Keyring:
    def __init__(self, rnd, n=5):
        self.rnd = rnd
        self.d = [rnd.randrange(1, ec.N) for _ in range(n)]
        self.pub = [ec.pub_from_secret(d, True) for d in self.d]
        self.pubu = [ec.pub_from_secret(d, False) for d in self.d]

    def sign(self, i, digest, ht=1, high_s=False):
        z = int.from_bytes(digest, 'big')
        k = self.rnd.randrange(1, ec.N)
        r, s = ec.ecdsa_sign_with_k(z, self.d[i], k)
        if (s > ec.N // 2) != high_s:
            s = ec.N - s
        return ec.der_encode(r, s) + bytes([ht]), (r, s)


def sig_variants(kr, i, digest, rnd):
    """name -> signature bytes for key i; which ones are consensus-valid is decided by the reference, not here."""
    good, (r, s) = kr.sign(i, digest)
    other = bytes(x ^ 0x55 for x in digest)
    der = ec.der_encode(r, s)
    out = {
        'valid': good,
        'valid-hashtype-83': kr.sign(i, digest, ht=0x83)[0],
        'valid-high-s': kr.sign(i, digest, high_s=True)[0],
        'wrong-digest': kr.sign(i, other)[0],
        'wrong-key': kr.sign((i + 1) % len(kr.d), digest)[0],
        's-bitflip': ec.der_encode(r, s ^ 4) + b'\x01',
        'empty': b'',
        'raw64': r.to_bytes(32, 'big') + s.to_bytes(32, 'big'),
        'raw64-wrong': r.to_bytes(32, 'big') + (s ^ 4).to_bytes(32, 'big'),
        'no-hashtype': der,
        'der-trailing-garbage': der + b'\x00\x01',
        'truncated': good[:40],
        'one-byte': b'\x01',
    }
    if not (der[4] & 0x80) and der[4] != 0:
        out['der-padded-r'] = b'\x30' + bytes([der[1] + 1]) + b'\x02' + bytes([der[3] + 1]) + b'\x00' + der[4:] + b'\x01'
    return out


def pub_variants(kr, i):
    p = kr.pub[i]
    pu = kr.pubu[i]
    x = 5
    while ec.lift_x(x, False) is not None:
        x += 1
    return {'compressed': p, 'uncompressed': pu, 'hybrid': bytes([6 + (pu[-1] & 1)]) + pu[1:],
            'wrong-parity': bytes([p[0] ^ 1]) + p[1:], 'not-on-curve': b'\x02' + x.to_bytes(32, 'big'),
            'short': p[:32], 'empty': b'', 'prefix-05': b'\x05' + p[1:]}


def run_sig_steps(spec, col):
    sh, ns = spec['shard'], spec['nshard']
    rnd = random.Random('%s-sig-%d-%d' % (ID, spec['seed'], sh))
    kr = Keyring(rnd, 4)
    digest = rnd.randbytes(32)
    reps = spec.get('sig_reps', 1)
    for _ in range(reps):
        for i in range(2):
            sv = sig_variants(kr, i, digest, rnd)
            pv = pub_variants(kr, i)
            for name in ('op_checksig', 'op_checksigverify'):
                for sn, sg in sv.items():
                    for pn, pb in pv.items():
                        if sn != 'valid' and pn not in ('compressed', 'uncompressed'):
                            continue
                        exec_step(name, [b'\x07', sg, pb], {'message': digest}, col, cls='step-sig/%s/%s/%s' % (name, sn, pn))
                exec_step(name, [sv['valid']], {'message': digest}, col, cls='step-sig/%s/short-stack' % name)
        for case, st in multisig_stacks(kr, digest, rnd):
            for name in ('op_checkmultisig', 'op_checkmultisigverify'):
                exec_step(name, st, {'message': digest}, col, cls='step-sig/%s/%s' % (name, case))


def multisig_stacks(kr, digest, rnd):
    """(label, stack) for CHECKMULTISIG as a step; the reference decides what each one should do."""
    def num(n):
        return si.num_encode(n)
    S = lambda i, **kw: kr.sign(i, digest, **kw)[0]
    P = kr.pub
    out = []
    out.append(('1of1', [b'', S(0), num(1), P[0], num(1)]))
    out.append(('1of2-first', [b'', S(0), num(1), P[0], P[1], num(2)]))
    out.append(('1of2-second', [b'', S(1), num(1), P[0], P[1], num(2)]))
    out.append(('2of2', [b'', S(0), S(1), num(2), P[0], P[1], num(2)]))
    out.append(('2of3-01', [b'', S(0), S(1), num(2), P[0], P[1], P[2], num(3)]))
    out.append(('2of3-02', [b'', S(0), S(2), num(2), P[0], P[1], P[2], num(3)]))
    out.append(('2of3-12', [b'', S(1), S(2), num(2), P[0], P[1], P[2], num(3)]))
    out.append(('3of3', [b'', S(0), S(1), S(2), num(3), P[0], P[1], P[2], num(3)]))
    out.append(('2of3-uncompressed', [b'', S(0), S(2), num(2), kr.pubu[0], P[1], kr.pubu[2], num(3)]))
    out.append(('2of3-below-item', [b'\x33', b'', S(0), S(1), num(2), P[0], P[1], P[2], num(3)]))
    out.append(('2of3-order-swapped', [b'', S(1), S(0), num(2), P[0], P[1], P[2], num(3)]))
    out.append(('2of3-duplicate-sig', [b'', S(0), S(0), num(2), P[0], P[1], P[2], num(3)]))
    out.append(('2of3-one-sig-too-few', [b'', S(0), num(2), P[0], P[1], P[2], num(3)]))
    out.append(('2of3-m-minus-1-claimed', [b'', S(0), num(1), P[0], P[1], P[2], num(3)]))
    out.append(('2of3-one-invalid', [b'', S(0), kr.sign(1, bytes(32))[0], num(2), P[0], P[1], P[2], num(3)]))
    out.append(('2of3-foreign-key-sig', [b'', S(0), S(3), num(2), P[0], P[1], P[2], num(3)]))
    out.append(('2of3-empty-sig', [b'', S(0), b'', num(2), P[0], P[1], P[2], num(3)]))
    out.append(('2of3-all-empty-sigs', [b'', b'', b'', num(2), P[0], P[1], P[2], num(3)]))
    out.append(('2of3-no-dummy', [S(0), S(1), num(2), P[0], P[1], P[2], num(3)]))
    out.append(('2of3-nonnull-dummy', [b'\x01', S(0), S(1), num(2), P[0], P[1], P[2], num(3)]))
    out.append(('2of3-dummy-00', [b'\x00', S(0), S(1), num(2), P[0], P[1], P[2], num(3)]))
    out.append(('2of3-raw64-sig', [b'', S(0), _raw64(kr, 1, digest), num(2), P[0], P[1], P[2], num(3)]))
    out.append(('2of3-bad-pubkey-unused', [b'', S(1), S(2), num(2), b'\x02' + bytes(32), P[1], P[2], num(3)]))
    out.append(('2of3-bad-pubkey-needed', [b'', S(0), S(2), num(2), P[0], b'\x09' * 33, P[2], num(3)]))
    out.append(('0of2', [b'', num(0), P[0], P[1], num(2)]))
    out.append(('0of0', [b'', num(0), num(0)]))
    out.append(('m-gt-n', [b'', S(0), S(1), num(2), P[0], num(1)]))
    out.append(('n-negative', [b'', S(0), num(1), num(-1)]))
    out.append(('n-negative-nonnull-dummy', [b'\x01', S(0), num(1), num(-1)]))
    out.append(('counts-zero-and-negative-nonnull-dummy', [b'\x01', num(0), num(-1)]))
    out.append(('counts-zero-and-negative-no-dummy', [num(0), num(-1)]))
    out.append(('n-21', [b''] + [S(0)] + [num(1)] + [P[0]] * 21 + [num(21)]))
    out.append(('n-20', [b''] + [S(0)] + [num(1)] + [P[1]] * 19 + [P[0]] + [num(20)]))
    out.append(('n-5byte', [b'', S(0), num(1), P[0], b'\x01\x00\x00\x00\x00']))
    out.append(('keys-missing', [b'', S(0), num(1), P[0], num(3)]))
    out.append(('sig-high-s', [b'', kr.sign(0, digest, high_s=True)[0], num(1), P[0], num(1)]))
    return out


def _raw64(kr, i, digest):
    _, (r, s) = kr.sign(i, digest)
    return r.to_bytes(32, 'big') + s.to_bytes(32, 'big')


# ====================================================================== program oracle
def implemented_by_dispatch(Stack):
    """Opcodes whose consensus name, lower-cased, is a Stack method - what the dispatch loop can reach - in the pinned
    baseline or in the tree under test."""
    out = set()
    for code, name in si.OPNAME.items():
        if code > 0x60 and (hasattr(Stack, name.lower()) or name.lower() in BASELINE_METHODS):
            out.add(code)
    return out


def run_program(cmds, message, env, col, cls):
    """Evaluate with the real library and with the reference; attribute any disagreement."""
    mon = monitor(col)
    from bitcoinlib.scripts import Script
    col.probe('program')
    mon.begin()
    res = None
    exc = None
    lib_stack = None
    try:
        s = Script(list(cmds))
        try:
            res = s.evaluate(message=message, env_data=env)
        except Exception as ex:
            exc = ex
        lib_stack = list(s.stack) if isinstance(s.stack, list) else None
    except Exception as ex:
        exc = ex
    log = mon.end()
    case = {'kind': 'program', 'cmds': cmds_json(cmds), 'message': message.hex() if message else None, 'env': _env_json(env)}
    return judge_evaluation(cmds, message, env, col, cls, case, res, exc, lib_stack, log, mon)


def judge_evaluation(cmds, message, env, col, cls, case, res, exc, lib_stack, log, mon, where=''):
    """One observed Script.evaluate() (verdict, exception, final stack, step log) against the reference run on `cmds`."""
    valid = exc is None and bool(res)
    env = env or {}
    ctx_args = dict(digest=message, locktime=env.get('locktime'), sequence=env.get('sequence'), version=env.get('version'))
    trace = []
    R = si.verify(cmds, si.Ctx(**ctx_args), trace=trace)
    executed = [t[1] for t in trace]
    impl = implemented_by_dispatch(mon.Stack)
    unimpl = [c for c in executed if c not in impl]
    nest = _max_nesting(cmds)
    outcome = ('valid' if valid else 'raised' if exc is not None else 'invalid') + '/' + ('ok' if R.ok else 'fail')
    col.case(cls, nontrivial=(cls, sorted(set(executed)), nest, outcome, len(cmds) // 5), sample=case)
    if valid:
        col.probe('program-valid')
    if R.ok:
        col.probe('program-consensus-valid')
    if valid and not R.ok:
        kind = 'false-accept'
    elif R.ok and not valid:
        kind = 'false-reject'
    elif valid and R.ok:
        if lib_stack is not None and all_bytes(lib_stack) and [bytes(x) for x in lib_stack] == R.stack[:-1]:
            return log
        kind = 'final-stack'
    else:
        col.probe('program-both-reject')
        return log
    if kind == 'false-reject' and unimpl and not (set(unimpl) <= LT_FAMILY):
        col.probe('program-unimplemented-refused')
        return log
    mech = attribute_program(cmds, ctx_args, env, log, valid, lib_stack, R, kind, unimpl, exc, mon)
    if kind == 'false-accept':
        key = ('C19/false-accept/' + mech) if mech else None
        desc = 'FALSE ACCEPT: Script.evaluate() reports VALID for a script consensus rejects (%s)' % R.reason
    elif kind == 'false-reject':
        key = ('C19/' + mech) if mech else None
        desc = 'false reject: Script.evaluate() %s for a script consensus accepts' % ('raised %s' % type(exc).__name__ if exc is not None else 'returned False')
    else:
        key = ('C19/' + mech) if mech else None
        desc = 'both valid but the final stack differs'
    desc += '; program %s' % _short_cmds(cmds)
    desc += where
    if mech:
        desc += '; attributed to ' + mech
    col.violation(key, desc, case,
                  {'valid': valid, 'exc': repr(exc)[:160] if exc is not None else None, 'stack': hx(lib_stack) if lib_stack is not None and all_bytes(lib_stack) else repr(lib_stack)[:200],
                   'steps': [(e.name, e.dev) for e in log if e.dev][:6]},
                  {'valid': R.ok, 'reason': R.reason, 'stack_before_final_pop': hx(R.stack)})
    return log


def _env_json(env):
    return {k: (v.hex() if isinstance(v, (bytes, bytearray)) else v) for k, v in (env or {}).items()}


def _max_nesting(cmds):
    d = m = 0
    for c in cmds:
        if c in (0x63, 0x64):
            d += 1
            m = max(m, d)
        elif c == 0x68:
            d = max(0, d - 1)
    return m


class Diverged(Exception):
    pass


class StoppedAtLT(Exception):
    pass


DISPATCH_MODELS = [
    ('', ()),
    ('dispatch/final-check-bytewise-truthiness', ('FINAL_BYTEWISE',)),
    ('dispatch/resource-limits-not-enforced', ('NOLIMITS',)),
    ('op_if/skipped-branch-not-scanned', ('NO_UNEXECUTED_FAIL',)),
    ('op_if/only-first-else-honoured', ('SINGLE_ELSE',)),
    ('dispatch/checkmultisig-verifies-then-pushes-env-redeemscript', ('CMS_REWRITE',)),
]


def _cms_rewrite(cmds, env):
    """Attribution model of the dispatch loop's CHECKMULTISIG handling: the result is verified on the spot and
    env_data['redeemscript'] is pushed (a missing entry ends the evaluation as invalid)."""
    rs = (env or {}).get('redeemscript')
    tail = [bytes(rs)] if isinstance(rs, (bytes, bytearray)) else [0x65]   # OP_VERIF: fails inside the dispatch loop
    out = []
    for c in cmds:
        if c == 0xae:
            out += [0xae, 0x69] + tail
        elif c == 0xaf:
            out += [0xaf] + tail
        else:
            out.append(c)
    return out


def hybrid(cmds, ctx_args, top, model, env, stop_lt=False, undispatchable=None):
    """The consensus dispatch loop (optionally under named attribution models) fed with the library's observed
    step results.  -> Result or None when the library's step sequence cannot be aligned with it.
    `undispatchable`: opcodes the library's dispatch loop cannot reach (it raises there); given only when the library
    did raise, so that the replay may stop at such an opcode exactly where the library's step log ends."""
    mm = tuple(m for m in model if m != 'CMS_REWRITE')
    prog = _cms_rewrite(cmds, env) if 'CMS_REWRITE' in model else cmds
    extra = [0]

    def hook(j, opcode, before):
        if j >= len(top):
            if stop_lt and opcode in LT_FAMILY:
                raise StoppedAtLT()
            if undispatchable is not None and opcode in undispatchable and j == len(top):
                extra[0] = 1
                return (False, before)
            raise Diverged()
        e = top[j]
        if METHOD_OP.get(e.name) != opcode or not e.judged:
            raise Diverged()
        if e.before is not None and [bytes(x) for x in e.before] != before:
            raise Diverged()
        if e.name == 'op_return':
            return (False, before)
        return (e.ok, [bytes(x) for x in e.after] if all_bytes(e.after) else before)
    try:
        H = si.verify(prog, si.Ctx(model=mm, **ctx_args), hook=hook)
    except Diverged:
        return None
    if H.nsteps != len(top) + extra[0]:
        return None
    return H


def counterfactual(cmds, ctx_args, table, model, env):
    """Free-running reference under `model` in which exactly the (opcode, stack-before) pairs of `table` behave as the
    library was observed to behave - "what if only these deviations existed"."""
    mm = tuple(m for m in model if m != 'CMS_REWRITE')
    prog = _cms_rewrite(cmds, env) if 'CMS_REWRITE' in model else cmds

    def hook(j, opcode, before):
        return table.get((opcode, tuple(before)))
    return si.verify(prog, si.Ctx(model=mm, **ctx_args), hook=hook)


def attribute_program(cmds, ctx_args, env, log, valid, lib_stack, R, kind, unimpl, exc, mon):
    """-> mechanism name (without the C19/ prefix) or None.

    1. Explanation: the smallest set M of dispatch-level attribution models under which the consensus loop, fed with
       the library's observed step results and aligned step by step with the library's log, ends exactly like the
       library did (verdict and final stack).  No such set -> None (unattributed).
    2. Naming: the first element of M, else the first deviating step, whose removal alone changes the outcome."""
    import itertools
    top = [e for e in log if e.depth == 0 and e.name not in IF_METHODS]
    devs = [e for e in log if e.dev]
    libst = [bytes(x) for x in lib_stack] if lib_stack is not None and all_bytes(lib_stack) else None

    def same(H):
        if H is None or H.ok != valid:
            return False
        if kind == 'final-stack' or valid:
            return libst is not None and H.stack[:-1] == libst
        return True

    undisp = None
    if exc is not None and type(exc).__name__ in ('ScriptError', 'KeyError'):
        impl = implemented_by_dispatch(mon.Stack)
        undisp = ({0x50} | set(range(0x61, 0x100))) - impl - {0x63, 0x64, 0x67, 0x68}
    if kind == 'false-reject' and unimpl and set(unimpl) <= LT_FAMILY and exc is not None and type(exc).__name__ == 'ScriptError':
        try:
            hybrid(cmds, ctx_args, top, (), env, stop_lt=True)
        except StoppedAtLT:
            if all(hasattr(mon.Stack, m) for m in ('op_numlessthan', 'op_numgreaterthan', 'op_numlessthanorequal', 'op_numgreaterthanorequal')):
                return 'dispatch/lessthan-family-unreachable'
    if any(not e.dev.startswith('C19/') for e in devs):
        return None                      # an unattributed step deviation took part: nothing may absorb this
    names = DISPATCH_MODELS[1:]
    found = None
    for r in range(0, len(names) + 1):
        for combo in itertools.combinations(range(len(names)), r):
            model = tuple(x for i in combo for x in names[i][1])
            if same(hybrid(cmds, ctx_args, top, model, env, undispatchable=undisp)):
                found = combo
                break
        if found is not None:
            break
    if found is None:
        return None
    M = [names[i] for i in found]
    sub = [e for e in devs if e.depth == 0 and e.name not in IF_METHODS and e.before is not None and all_bytes(e.after)]
    if not M and not devs:
        return None
    table = {(METHOD_OP[e.name], tuple(bytes(x) for x in e.before)): (e.ok, [bytes(x) for x in e.after]) for e in sub}
    full = tuple(x for nm, mm in M for x in mm)

    def keeps(model, tab):
        P = counterfactual(cmds, ctx_args, tab, model, env)
        if P.ok != valid:
            return False
        if kind == 'final-stack':
            return libst is not None and P.stack[:-1] == libst
        return True

    if keeps(full, table):
        for nm, mm in M:
            rest = tuple(x for n2, m2 in M if n2 != nm for x in m2)
            if not keeps(rest, table):
                return nm
        for e in sub:
            k = (METHOD_OP[e.name], tuple(bytes(x) for x in e.before))
            t2 = {kk: v for kk, v in table.items() if kk != k}
            if not keeps(full, t2):
                return e.dev[len('C19/'):]
    if M:
        return M[0][0]
    return devs[0].dev[len('C19/'):]


# ====================================================================== program workload
NEEDS = {0x69: 1, 0x6d: 2, 0x6e: 2, 0x6f: 3, 0x70: 4, 0x71: 6, 0x72: 4, 0x73: 1, 0x74: 0, 0x75: 1, 0x76: 1, 0x77: 2, 0x78: 2, 0x79: 2,
         0x7a: 2, 0x7b: 3, 0x7c: 2, 0x7d: 2, 0x82: 1, 0x87: 2, 0x88: 2, 0x8b: 1, 0x8c: 1, 0x8f: 1, 0x90: 1, 0x91: 1, 0x92: 1, 0x93: 2,
         0x94: 2, 0x9a: 2, 0x9b: 2, 0x9c: 2, 0x9d: 2, 0x9e: 2, 0xa3: 2, 0xa4: 2, 0xa5: 3, 0xa6: 1, 0xa7: 1, 0xa8: 1, 0xa9: 1, 0xaa: 1,
         0x61: 0, 0xb0: 0, 0xb3: 0, 0xb9: 0}
RARE_OPS = [0x9f, 0xa0, 0xa1, 0xa2, 0x6b, 0x6c, 0xab, 0x50, 0x62, 0x89, 0x8a, 0x7e, 0x8d, 0x95, 0x65, 0x66, 0x6a, 0xba, 0xfe]


def gen_push(rnd):
    r = rnd.random()
    if r < 0.45:
        return rnd.choice([0, 0x4f] + list(range(0x51, 0x61)))
    if r < 0.65:
        return rnd.choice(ELEMENTS[:9])
    if r < 0.85:
        return si.num_encode(rnd.choice([1, -1]) * rnd.getrandbits(rnd.choice([3, 7, 8, 15, 16, 31])))
    if r < 0.90:
        return rnd.choice([b'\x00', b'\x80', b'\x00\x00', b'\x00\x80', b'\x01\x00'])
    if r < 0.95:
        return rnd.randbytes(rnd.choice([5, 20, 32, 33]))
    return rnd.choice(ELEMENTS[9:])


def gen_program(rnd, maxlen, kr=None, digest=None):
    """Stack-aware random program: the reference tracks the stack of the prefix so that most opcodes find operands;
    conditionals nest; a small share of tokens is hostile (unbalanced, repeated OP_ELSE, disabled / unimplemented)."""
    target = rnd.randint(1, maxlen)
    cmds = []
    opens = []            # per open conditional: has an OP_ELSE been emitted
    ops = list(NEEDS)
    ctx = si.Ctx(digest=digest, locktime=1000, sequence=10, version=2)
    guard = 0
    while len(cmds) < target and guard < 6 * maxlen:
        guard += 1
        r = si.eval_script(cmds, ctx)
        alive = r.ok or r.reason == 'unbalanced conditional'
        executing = alive and all(r.vf or [True])
        st = r.stack if alive else []
        x = rnd.random()
        if not alive and x < 0.5:
            break
        if executing:
            if x < 0.30:
                cmds.append(gen_push(rnd))
            elif x < 0.80:
                for _ in range(6):
                    o = rnd.choice(ops)
                    if NEEDS[o] > len(st):
                        continue
                    ok_, _a, _r = si.step(o, st, ctx)
                    if ok_ or rnd.random() < 0.15:
                        cmds.append(o)
                        break
                else:
                    cmds.append(gen_push(rnd))
            elif x < 0.88:
                if not st:
                    cmds.append(gen_push(rnd))
                cmds.append(rnd.choice([0x63, 0x63, 0x64]))
                opens.append(False)
            elif x < 0.93 and opens:
                if not opens[-1] or rnd.random() < 0.15:
                    cmds.append(0x67)
                    opens[-1] = True
                else:
                    cmds.append(0x68)
                    opens.pop()
            elif x < 0.96 and opens:
                cmds.append(0x68)
                opens.pop()
            elif x < 0.975:
                cmds.append(rnd.choice(ops))
            elif x < 0.985:
                cmds.append(rnd.choice(RARE_OPS))
            elif x < 0.992 and kr is not None:
                i = rnd.randrange(len(kr.d))
                sg = kr.sign(i, digest if rnd.random() < 0.8 else bytes(32))[0]
                cmds += [sg, kr.pub[i], rnd.choice([0xac, 0xac, 0xad])]
            elif x < 0.996:
                cmds += [si.num_encode(rnd.choice([0, 5, 10, 11, 500, 1000, 1001, 60000000])), rnd.choice([0xb1, 0xb2])]
            else:
                cmds.append(gen_push(rnd))
        else:
            if x < 0.30:
                cmds.append(gen_push(rnd))
            elif x < 0.55:
                cmds.append(rnd.choice(ops))
            elif x < 0.62:
                cmds.append(rnd.choice([0x63, 0x64]))
                opens.append(False)
            elif x < 0.80 and opens:
                if not opens[-1] or rnd.random() < 0.15:
                    cmds.append(0x67)
                    opens[-1] = True
                else:
                    cmds.append(0x68)
                    opens.pop()
            elif x < 0.95 and opens:
                cmds.append(0x68)
                opens.pop()
            elif x < 0.97:
                cmds.append(rnd.choice(RARE_OPS))
            else:
                cmds.append(gen_push(rnd))
    if rnd.random() < 0.93:
        cmds += [0x68] * len(opens)
    if rnd.random() < 0.6:
        r = si.verify(cmds, ctx)
        if not r.ok and r.reason.startswith('eval false'):
            cmds.append(rnd.choice([0x51, 0x51, 0x74, 0x91, 0x52]))
    return cmds


def run_programs(spec, col):
    rnd = random.Random('%s-%d-%d' % (ID, spec['seed'], spec['shard']))
    kr = Keyring(rnd, 3)
    maxlen = spec['maxlen']
    for k in range(spec['n_programs']):
        digest = DIGEST if k % 2 else rnd.randbytes(32)
        ml = maxlen if k % 3 else max(4, maxlen // 3)
        cmds = gen_program(rnd, ml, kr, digest)
        env = {'sequence': 10, 'locktime': 1000, 'version': 2}
        run_program(cmds, digest, env, col, 'program/random/len%d-%d' % (10 * (len(cmds) // 10), 10 * (len(cmds) // 10) + 9))
    # consensus resource limits (a handful per shard; they are deterministic)
    if spec['shard'] == 0:
        big = b'\x42' * 521
        for label, cmds in (('push-521', [big, 0x75, 0x51]), ('push-520', [big[:520], 0x75, 0x51]),
                            ('ops-202', [0x51] + [0x61] * 202), ('ops-201', [0x51] + [0x61] * 201),
                            ('stack-1001', [0x51] * 1001), ('stack-1000', [0x51] * 1000),
                            ('script-size-10001', [b'\x42' * 520, 0x75] * 19 + [b'\x42' * 78, 0x75, 0x51]),
                            ('multisig-21-keys', [0, 0] + [b'\x02' + bytes(32)] * 21 + [si.num_encode(21), 0xae])):
            run_program(cmds, DIGEST, {'redeemscript': b'\x51'}, col, 'program/limits/' + label)


def run_lifted(spec, col):
    """Every small stack x every dispatchable opcode as a program (pushes followed by the opcode): the program-level
    consequence of each step deviation.  Where the library's opcode leaves a different stack than consensus, a second
    program compares the differing item with the value the library produced (`... OP DROP* <lib item> EQUAL`), which
    consensus must reject: the directed search for false accepts."""
    mon = monitor(col)
    sh, ns = spec['shard'], spec['nshard']
    impl = sorted(c for c in implemented_by_dispatch(mon.Stack) if c not in (0x63, 0x64, 0x67, 0x68, 0xac, 0xad, 0xae, 0xaf))
    env = {'sequence': 10, 'locktime': 1000, 'version': 2}
    full3 = spec['depth'] >= 4
    for idx, st in iter_stacks(3):
        if idx % ns != sh:
            continue
        for opc in impl:
            if len(st) == 3 and not full3 and not (NEEDS.get(opc, 0) >= 3 or opc in (0x79, 0x7a, 0x72)):
                continue
            name = si.OPNAME[opc].lower()
            log = run_program(list(st) + [opc], DIGEST, env, col, 'program/lifted/%s' % name)
            _directed_compare(list(st), opc, log, env, col)
    # deeper stacks for the shuffles that need four or more items
    for d in range(4, 8):
        for salt in (0, 5):
            for opc in (0x72, 0x70, 0x71, 0x6f, 0x7d, 0x7b):
                if (d + salt + opc) % ns != sh:
                    continue
                st = distinct(d, salt)
                log = run_program(st + [opc], DIGEST, env, col, 'program/lifted/%s' % si.OPNAME[opc].lower())
                _directed_compare(st, opc, log, env, col)
    if sh == 0:
        run_directed(col)


def _directed_compare(st, opc, log, env, col):
    top = [e for e in (log or []) if e.depth == 0]
    if len(top) != 1 or not top[0].judged or not top[0].dev:
        return
    e = top[0]
    if not (e.ok and e.ref_ok and e.ref_after is not None and all_bytes(e.after)):
        return
    a = [bytes(x) for x in e.after]
    r = e.ref_after
    k = 0
    while k < len(a) and k < len(r) and a[-1 - k] == r[-1 - k]:
        k += 1
    if k >= len(a):
        return
    prog = list(st) + [opc] + [0x75] * k + [a[-1 - k], 0x87]
    run_program(prog, DIGEST, env, col, 'program/directed/%s' % si.OPNAME[opc].lower())


def run_directed(col):
    """Fixed programs aimed at the dispatch-level and conditional mechanisms (deterministic, shard 0)."""
    env = {'sequence': 10, 'locktime': 1000, 'version': 2}
    progs = [
        ('if/two-else-accept', [0x51, 0x63, 0x51, 0x67, 0, 0x67, 0, 0x68], env),
        ('if/two-else-reject', [0x51, 0x63, 0, 0x67, 0, 0x67, 0x51, 0x68], env),
        ('if/two-else-false-branch', [0, 0x63, 0x51, 0x67, 0, 0x67, 0x51, 0x68], env),
        ('if/three-else', [0x51, 0x63, 0x52, 0x67, 0x53, 0x67, 0x54, 0x67, 0x55, 0x68, 0x93, 0x56, 0x87], env),
        ('notif/two-else', [0, 0x64, 0x51, 0x67, 0, 0x67, 0, 0x68], env),
        ('if/nested-two-else', [0x51, 0x51, 0x63, 0x63, 0x51, 0x67, 0, 0x67, 0, 0x68, 0x67, 0, 0x68], env),
        ('if/skipped-disabled', [0, 0x63, 0x7e, 0x68, 0x51], env),
        ('if/skipped-disabled-else', [0x51, 0x63, 0x51, 0x67, 0x8d, 0x68], env),
        ('if/skipped-verif', [0, 0x63, 0x65, 0x68, 0x51], env),
        ('notif/skipped-vernotif', [0x51, 0x64, 0x66, 0x68, 0x51], env),
        ('if/skipped-oversized-push', [0, 0x63, b'\x42' * 521, 0x68, 0x51], env),
        ('if/skipped-reserved-is-fine', [0, 0x63, 0x50, 0x62, 0x89, 0x8a, 0x68, 0x51], env),
        ('if/executed-disabled', [0x51, 0x63, 0x7e, 0x68, 0x51], env),
        ('if/unbalanced-open', [0x51, 0x63, 0x51], env),
        ('if/unbalanced-endif', [0x51, 0x68], env),
        ('if/unbalanced-else', [0x51, 0x67, 0x51, 0x68], env),
        ('if/empty-stack', [0x63, 0x51, 0x68, 0x51], env),
        ('if/negative-zero', [b'\x80', 0x63, 0, 0x67, 0x51, 0x68], env),
        ('if/five-byte-zero', [b'\x00\x00\x00\x00\x80', 0x64, 0x51, 0x67, 0, 0x68], env),
        ('final/negative-zero', [b'\x80'], env), ('final/00', [b'\x00'], env), ('final/0000', [0x51, b'\x00\x00'], env),
        ('final/empty-stack', [0x51, 0x75], env), ('final/empty-script', [], env), ('final/true-below-false', [0x51, 0], env),
        ('cltv/height-vs-time-accept', [si.num_encode(400000000), 0xb1], {'sequence': 1, 'locktime': 600000000, 'version': 2}),
        ('cltv/height-vs-height-reject', [si.num_encode(40000000), 0xb1], {'sequence': 1, 'locktime': 60000000, 'version': 2}),
        ('cltv/zero-locktime', [0, 0xb1, 0x51], {'sequence': 1, 'locktime': 0, 'version': 2}),
        ('cltv/six-byte-operand', [b'\x01\x00\x00\x00\x00\x00', 0xb1], {'sequence': 1, 'locktime': 1000, 'version': 2}),
        ('cltv/final-sequence', [si.num_encode(500), 0xb1], {'sequence': 0xffffffff, 'locktime': 1000, 'version': 2}),
        ('cltv/satisfied', [si.num_encode(500), 0xb1], {'sequence': 1, 'locktime': 1000, 'version': 2}),
        ('csv/satisfied', [si.num_encode(10), 0xb2], {'sequence': 10, 'locktime': 0, 'version': 2}),
        ('csv/unsatisfied', [si.num_encode(11), 0xb2], {'sequence': 10, 'locktime': 0, 'version': 2}),
        ('csv/version-1', [si.num_encode(10), 0xb2], {'sequence': 10, 'locktime': 0, 'version': 1}),
        ('csv/disabled-in-tx', [si.num_encode(10), 0xb2], {'sequence': 0x8000000a, 'locktime': 0, 'version': 2}),
        ('csv/negative', [0x4f, 0xb2, 0x51], {'sequence': 10, 'locktime': 0, 'version': 2}),
        ('csv/empty-stack', [0xb2, 0x51], {'sequence': 10, 'locktime': 0, 'version': 2}),
        ('pick/five-byte-index', [0x52, 0x53, b'\x01\x00\x00\x00\x00', 0x79], env),
        ('roll/five-byte-index', [0x52, 0x53, b'\x01\x00\x00\x00\x00', 0x7a], env),
        ('numequalverify/five-byte', [0x51, b'\x01\x00\x00\x00\x00', 0x9d], env),
        ('lessthan/unreachable', [0x51, 0x52, 0x9f], env), ('greaterthan/unreachable', [0x52, 0x51, 0xa0], env),
        ('lessthanorequal/unreachable', [0x51, 0x51, 0xa1], env), ('greaterthanorequal/unreachable', [0x51, 0x51, 0xa2], env),
        ('unimplemented/altstack', [0x51, 0x6b, 0x6c], env), ('unimplemented/codeseparator', [0x51, 0xab], env),
        ('unimplemented/reserved', [0x51, 0x50], env), ('unimplemented/unknown-ba', [0x51, 0xba], env),
        ('unimplemented/bare-push-opcode', [0x51, 0x05], env), ('disabled/cat', [0x51, 0x51, 0x7e], env),
        ('return', [0x51, 0x6a], env), ('return/with-data', [0x6a, b'data'], env),
    ]
    for label, cmds, e in progs:
        run_program(cmds, DIGEST, e, col, 'program/directed/' + label)


def _n(n):
    return (0x50 + n) if 1 <= n <= 16 else (0 if n == 0 else si.num_encode(n))


def run_spends(spec, col):
    """P2PK / P2PKH / bare m-of-n with real signatures.  Which variant a shard runs is a deterministic round-robin over
    (signature variant x key encoding x template x suffix); only keys, nonces and digests come from the seed."""
    rnd = random.Random('%s-spend-%d-%d' % (ID, spec['seed'], spec['shard']))
    sh, ns = spec['shard'], spec['nshard']
    n = spec['n_spends']
    kinds = ['p2pk', 'p2pkh', 'p2pkh-wrong-hash', 'p2pk-verify']
    tails = [[], [0x91], [0x91, 0x91]]
    kr = Keyring(rnd, 4)
    digest = rnd.randbytes(32)
    sv_names = sorted(sig_variants(kr, 0, digest, rnd))
    pv_names = sorted(pub_variants(kr, 0))
    combos = []
    for sn in sv_names + ['der-padded-r']:
        for pn in pv_names:
            if sn != 'valid' and pn not in ('compressed', 'uncompressed'):
                continue
            for kind in kinds:
                for t in range(len(tails)):
                    if kind == 'p2pk-verify' and t:
                        continue
                    combos.append((sn, pn, kind, t))
    count = 0
    rounds = 0
    while count < n:
        for ci, (sn, pn, kind, t) in enumerate(combos):
            if (ci + rounds) % ns != sh or count >= n:
                continue
            if count % 6 == 0:
                kr = Keyring(rnd, 4)
                digest = rnd.randbytes(32)
            i = rnd.randrange(4)
            sv = sig_variants(kr, i, digest, rnd)
            if sn not in sv:
                continue
            sg, pb = sv[sn], pub_variants(kr, i)[pn]
            tail = tails[t]
            if kind == 'p2pk':
                cmds = [sg, pb, 0xac] + tail
            elif kind == 'p2pk-verify':
                cmds = [sg, pb, 0xad, 0x51]
            else:
                h = ec.hash160(pb if kind == 'p2pkh' else pb + b'\x00')
                cmds = [sg, pb, 0x76, 0xa9, h, 0x88, 0xac] + tail
            run_program(cmds, digest, None, col, 'spend/%s/sig-%s/pub-%s%s' % (kind, sn, pn, '/not' * len(tail)))
            count += 1
        rounds += 1
        if rounds > 50:
            break
    # bare multisig: every labelled stack, as CHECKMULTISIG / CHECKMULTISIGVERIFY 1 / CHECKMULTISIG NOT, without and
    # with env_data['redeemscript'] (the dispatch loop needs it and pushes it)
    reps = max(1, spec.get('sig_reps', 1))
    for rep in range(reps):
        kr = Keyring(rnd, 4)
        digest = rnd.randbytes(32)
        for li, (label, st) in enumerate(multisig_stacks(kr, digest, rnd)):
            if (li + rep) % ns != sh:
                continue
            body = [(_n(si.num_decode(x)) if (len(x) <= 1 and (x == b'' or 1 <= x[0] <= 16)) else x) for x in st]
            for form, cmds in (('', body + [0xae]), ('/verify', body + [0xaf, 0x51]), ('/not', body + [0xae, 0x91])):
                for envname, env in (('no-env', None), ('env-redeemscript', {'redeemscript': b'\x51'})):
                    run_program(cmds, digest, env, col, 'spend/multisig/%s/%s%s' % (label, envname, form))


# ====================================================================== sequences on one Script object
def _ser(cmds):
    from vf.refs import codec
    return b''.join(bytes([c]) if isinstance(c, int) else codec.push_data(bytes(c)) for c in cmds)


def _flat_commands(s):
    """the command list the object holds right now (data only), or None when it is not a flat list of ints/bytes"""
    cm = getattr(s, 'commands', None)
    if not isinstance(cm, list) or not all(isinstance(c, (int, bytes, bytearray)) and not isinstance(c, bool) for c in cm):
        return None
    return [c if isinstance(c, int) else bytes(c) for c in cm]


def _observe(s, message, env, mon):
    mon.begin()
    res = exc = None
    try:
        res = s.evaluate(message=message, env_data=env)
    except Exception as ex:
        exc = ex
    log = mon.end()
    st = list(s.stack) if isinstance(getattr(s, 'stack', None), list) else None
    return res, exc, st, log


def run_sequence(steps, message, env, col, cls):
    """A sequence of operations on ONE Script object: {'do': 'new'|'eval'|'add'|'append', 'cmds': [...], 'via': 'list'|'parse'}.
    Every 'eval' is judged against the reference run on the command list the object holds at that moment; it must also
    agree with a fresh Script built from that same list (evaluate() has no memory)."""
    mon = monitor(col)
    from bitcoinlib.scripts import Script
    col.probe('sequence')
    case = {'kind': 'sequence', 'steps': [dict(st, cmds=cmds_json(st['cmds'])) if 'cmds' in st else dict(st) for st in steps],
            'message': message.hex() if message else None, 'env': _env_json(env)}

    def build(cmds, via):
        if via == 'parse':
            return Script.parse_bytes(_ser(cmds), strict=False)
        return Script(list(cmds))

    s = None
    expected = None          # the harness's own idea of the command list (only for objects built from lists)
    nev = 0
    for i, st in enumerate(steps):
        do = st['do']
        try:
            if do == 'new':
                s = build(st['cmds'], st.get('via', 'list'))
                expected = list(st['cmds']) if st.get('via', 'list') == 'list' else None
                continue
            if do == 'add':
                s = s + build(st['cmds'], st.get('via', 'list'))
                expected = (expected + list(st['cmds'])) if expected is not None and st.get('via', 'list') == 'list' else None
                continue
            if do == 'append':
                s.commands.extend(list(st['cmds']))
                expected = (expected + list(st['cmds'])) if expected is not None else None
                continue
        except Exception:
            col.probe('sequence-build-raised')      # constructing / adding scripts is not what C19 judges
            return
        if s is None:
            return
        now = _flat_commands(s)
        if now is None:
            col.probe('sequence-skipped-nested')
            return
        if expected is not None and not _cmds_eq(now, [0 if c == b'' else c for c in expected]) and not _cmds_eq(now, expected):
            col.violation(None, 'Script.commands after %s is not the concatenation of the parts' % [x['do'] for x in steps[:i]],
                          case, cmds_json(now), cmds_json(expected))
            return
        nev += 1
        col.probe('sequence-eval')
        res, exc, st_lib, log = _observe(s, message, env, mon)
        try:
            fres, fexc, fst, _flog = _observe(Script(list(now)), message, env, mon)
        except Exception as ex:
            fres, fexc, fst = None, ex, None
        same = (bool(res) == bool(fres)) and ((exc is None) == (fexc is None)) and (type(exc) is type(fexc)) and \
               (not (exc is None and res) or st_lib == fst)
        where = '; evaluation #%d of one Script object after %s' % (nev, '->'.join(x['do'] + (':' + x['via'] if x.get('via') else '') for x in steps[:i]))
        if not same:
            col.probe('sequence-state-dependent')
            R = si.verify(now, si.Ctx(digest=message, locktime=(env or {}).get('locktime'), sequence=(env or {}).get('sequence'), version=(env or {}).get('version')))
            fa = exc is None and bool(res) and not R.ok
            col.violation(None, '%sScript.evaluate() depends on the object\'s history: a reused object gives %s, a fresh Script with the same commands %s (consensus: %s); commands now %s%s' % (
                'FALSE ACCEPT: ' if fa else '', _verdict(res, exc), _verdict(fres, fexc), 'valid' if R.ok else 'invalid (%s)' % R.reason, _short_cmds(now), where),
                case, {'reused': _verdict(res, exc), 'stack': hx(st_lib) if st_lib is not None and all_bytes(st_lib) else repr(st_lib)[:200]},
                {'fresh': _verdict(fres, fexc), 'consensus_valid': R.ok, 'stack': hx(fst) if fst is not None and all_bytes(fst) else repr(fst)[:200]})
            continue
        judge_evaluation(now, message, env, col, '%s/eval%d' % (cls, nev), case, res, exc, st_lib, log, mon, where=where)


def _verdict(res, exc):
    return 'raised %s' % type(exc).__name__ if exc is not None else ('valid' if res else 'invalid')


SEQ_SHAPES = [
    ('eval-add-eval', lambda a, b: [{'do': 'new', 'cmds': a, 'via': 'list'}, {'do': 'eval'}, {'do': 'add', 'cmds': b, 'via': 'list'}, {'do': 'eval'}]),
    ('eval-append-eval', lambda a, b: [{'do': 'new', 'cmds': a, 'via': 'list'}, {'do': 'eval'}, {'do': 'append', 'cmds': b}, {'do': 'eval'}]),
    ('parse-eval-add-eval', lambda a, b: [{'do': 'new', 'cmds': a, 'via': 'parse'}, {'do': 'eval'}, {'do': 'add', 'cmds': b, 'via': 'list'}, {'do': 'eval'}]),
    ('eval-addparsed-eval-eval', lambda a, b: [{'do': 'new', 'cmds': a, 'via': 'list'}, {'do': 'eval'}, {'do': 'add', 'cmds': b, 'via': 'parse'}, {'do': 'eval'}, {'do': 'eval'}]),
    ('add-eval-eval', lambda a, b: [{'do': 'new', 'cmds': a, 'via': 'list'}, {'do': 'add', 'cmds': b, 'via': 'list'}, {'do': 'eval'}, {'do': 'eval'}]),
    ('eval-eval-add-eval-append-eval', lambda a, b: [{'do': 'new', 'cmds': a, 'via': 'list'}, {'do': 'eval'}, {'do': 'eval'}, {'do': 'add', 'cmds': b[:len(b) // 2], 'via': 'list'},
                                                     {'do': 'eval'}, {'do': 'append', 'cmds': b[len(b) // 2:]}, {'do': 'eval'}]),
]


def run_sequences(spec, col):
    """evaluate -> extend -> evaluate on one object: unlock+lock composition of the standard spends, hash locks and
    arithmetic locks with right and wrong solutions, and random programs cut at a random point."""
    rnd = random.Random('%s-seq-%d-%d' % (ID, spec['seed'], spec['shard']))
    sh, ns = spec['shard'], spec['nshard']
    env = {'sequence': 10, 'locktime': 1000, 'version': 2}
    jobs = []
    # fixed unlock / lock pairs (both verdicts, both directions of a stale result)
    pre = b'secret-%d' % spec['seed']
    h256 = ec.sha256(pre)
    h160 = ec.hash160(pre)
    fixed = [
        ('hashlock-sha256-right', [pre], [0xa8, h256, 0x87]), ('hashlock-sha256-wrong', [pre + b'x'], [0xa8, h256, 0x87]),
        ('hashlock-hash160-right', [pre], [0xa9, h160, 0x88, 0x51]), ('hashlock-hash160-wrong', [b'\x01'], [0xa9, h160, 0x88, 0x51]),
        ('sum-right', [0x52, 0x53], [0x93, 0x55, 0x87]), ('sum-wrong', [0x52, 0x54], [0x93, 0x55, 0x87]),
        ('true-then-verify-false', [0x51], [0, 0x69]), ('false-then-true', [0], [0x51]), ('true-then-false', [0x51], [0]),
        ('true-then-return', [0x51], [0x6a]), ('if-split', [0x51, 0x63, 0x52], [0x67, 0, 0x68]), ('empty-then-true', [], [0x51]),
        ('true-then-drop', [0x51], [0x75]), ('nonstandard-unlock', [0x51, 0x52, 0x93], [0x53, 0x9c]), ('wrong-nonstandard-unlock', [0x51, 0x51, 0x93], [0x53, 0x9c]),
    ]
    for label, a, b in fixed:
        for sname, shape in SEQ_SHAPES:
            jobs.append(('sequence/%s/%s' % (label, sname), shape(a, b), DIGEST, env))
    # standard spends: the unlocking script is evaluated on its own first, then unlock + lock
    kr = Keyring(rnd, 4)
    digest = rnd.randbytes(32)
    for i in range(2):
        sv = sig_variants(kr, i, digest, rnd)
        pv = pub_variants(kr, i)
        for sn in ('valid', 'wrong-digest', 'wrong-key', 's-bitflip', 'empty', 'valid-hashtype-83'):
            for pn in ('compressed', 'uncompressed'):
                sg, pb = sv[sn], pv[pn]
                jobs.append(('p2pk/sig-%s/pub-%s' % (sn, pn), [sg], [pb, 0xac]))
                jobs.append(('p2pkh/sig-%s/pub-%s' % (sn, pn), [sg, pb], [0x76, 0xa9, ec.hash160(pb), 0x88, 0xac]))
                jobs.append(('p2pkh-other-key/sig-%s/pub-%s' % (sn, pn), [sg, pb], [0x76, 0xa9, ec.hash160(kr.pub[(i + 1) % 4]), 0x88, 0xac]))
    spend_jobs = []
    for k, (label, a, b) in enumerate(j for j in jobs if len(j) == 3):
        sname, shape = SEQ_SHAPES[k % len(SEQ_SHAPES)]
        spend_jobs.append(('sequence/spend/%s/%s' % (label, sname), shape(a, b), digest, None))
        sname, shape = SEQ_SHAPES[(k + 1) % 2]
        spend_jobs.append(('sequence/spend/%s/%s' % (label, sname), shape(a, b), digest, None))
    jobs = [j for j in jobs if len(j) == 4] + spend_jobs
    for label, st in multisig_stacks(kr, digest, rnd)[:12]:
        body = [(_n(si.num_decode(x)) if (len(x) <= 1 and (x == b'' or 1 <= x[0] <= 16)) else x) for x in st]
        cut = next((k for k, c in enumerate(body) if isinstance(c, int) and 0x51 <= c <= 0x60), 1)
        for sname, shape in SEQ_SHAPES[:2]:
            jobs.append(('sequence/spend/multisig/%s/%s' % (label, sname), shape(body[:cut], body[cut:] + [0xae]), digest, {'redeemscript': b'\x51'}))
    for k, (cls, steps, msg, e) in enumerate(jobs):
        if k % ns == sh:
            run_sequence(steps, msg, e, col, cls)
    # random programs cut in two
    for k in range(spec.get('n_sequences', 60)):
        cmds = gen_program(rnd, spec['maxlen'], None, DIGEST)
        if len(cmds) < 2:
            cmds = cmds + [0x51]
        cut = rnd.randint(0, len(cmds) - 1)
        sname, shape = SEQ_SHAPES[k % len(SEQ_SHAPES)]
        run_sequence(shape(cmds[:cut], cmds[cut:]), DIGEST, env, col, 'sequence/random/%s' % sname)


# ====================================================================== plan / shards / replay
def replay(case, col):
    try:
        si.selfcheck()
        ec.selfcheck()
    except Exception as e:
        col.note_inconclusive('reference self-check failed: %r' % (e,))
        return
    monitor(col)
    if case.get('kind') == 'step':
        args = dict(case.get('args') or {})
        if isinstance(args.get('message'), str):
            args['message'] = bytes.fromhex(args['message'])
        if case.get('commands') is not None:
            args['commands'] = cmds_unjson(case['commands'])
        exec_step(case['op'], [bytes.fromhex(x) for x in (case.get('stack') or [])], args, col)
    elif case.get('kind') == 'baseline':
        check_baseline(col)
    elif case.get('kind') == 'program':
        env = dict(case.get('env') or {})
        if isinstance(env.get('redeemscript'), str):
            env['redeemscript'] = bytes.fromhex(env['redeemscript'])
        msg = bytes.fromhex(case['message']) if case.get('message') else None
        run_program(cmds_unjson(case['cmds']), msg, env or None, col, 'replay')
    elif case.get('kind') == 'sequence':
        env = dict(case.get('env') or {})
        if isinstance(env.get('redeemscript'), str):
            env['redeemscript'] = bytes.fromhex(env['redeemscript'])
        msg = bytes.fromhex(case['message']) if case.get('message') else None
        steps = [dict(st, cmds=cmds_unjson(st['cmds'])) if 'cmds' in st else dict(st) for st in case['steps']]
        run_sequence(steps, msg, env or None, col, 'replay')


def plan(tier, seed, scale=1.0):
    thorough = tier == 'thorough'
    nshard = 16 if thorough else 8
    specs = []
    for i in range(nshard):
        specs.append({'shard': i, 'nshard': nshard, 'depth': 4 if thorough else 3,
                      'n_programs': int((18000 if thorough else 560) * scale),
                      'n_spends': int((900 if thorough else 70) * scale),
                      'n_sequences': int((3000 if thorough else 60) * scale),
                      'maxlen': 60 if thorough else 20, 'sig_reps': 3 if thorough else 1})
    return specs


def run_shard(spec, col):
    try:
        si.selfcheck()
        ec.selfcheck()
    except Exception as e:
        col.note_inconclusive('reference self-check failed: %r' % (e,))
        return
    col.require('step', 1000)
    col.require('program', 50)
    col.require('program-valid', 10)
    col.require('program-consensus-valid', 10)
    col.require('exhaustive-stacks', 1)
    col.require('sequence-eval', 40)
    monitor(col)
    check_baseline(col)
    for name in step_methods(col):
        col.require('step:' + name, 1)
    run_exhaustive(spec, col)
    run_targeted(spec, col)
    run_lifted(spec, col)
    run_programs(spec, col)
    run_spends(spec, col)
    run_sequences(spec, col)
