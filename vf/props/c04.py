"""C04 - private key -> public key -> address is exact; values that are not keys are refused.

Monitor shape: reference-model comparison on the real constructors and accessors called by the harness
(Key(...), HDKey(...), public_hex, public_uncompressed_hex, public_point(), hash160, address(...), Address(...).address)
against vf.refs.secp256k1 (d*G, lift_x, on-curve) and vf.refs.chain (standard scripts/addresses, golden network table).
Negative cases: a non-key is "refused" when construction or the first derived observation (address()) raises.
"""
import random

from vf.refs import secp256k1 as ec
from vf.refs import chain as rchain
from vf.refs import codec

ID = 'C04'
LEVEL = 'exploration'
ANCHORS = ['bitcoinlib/keys.py', 'bitcoinlib/encoding.py', 'bitcoinlib/networks.py']
DEPS = ()
RULE = ('cases: valid scalars by class (1, 2, 3, n-1, n-2, 2^k, 2^k-1, sparse, small, leading-zero, near-n, random) x import '
        'format (int, hex, bytes, WIF compressed/uncompressed, hex+01, HDKey(bytes), HDKey(key=bytes)) x compressed flag; public '
        'imports (compressed both parities hex/bytes, uncompressed hex/bytes, point tuple, HDKey) incl. decompression of '
        'arbitrary x; for each key every network in turn x the address cells {p2pkh, p2sh-p2wpkh, p2wpkh via Key.address, '
        'Address(data) and Address(hashed_data); p2sh, p2wsh, p2sh-p2wsh from a script; p2tr from a 32-byte program} x '
        '{base58, bech32} (non-standard encoding/type pairs are judged by a weak rule, see assumptions); negative: scalars '
        '0, n, n+1, 2^256-1, random >= n in every private format; off-curve x with both prefixes, x >= p, uncompressed '
        'points off the curve (random y, y^1, swapped, zero), off-curve tuples, hybrid 06/07 encodings; sequences in ONE process of '
        'related keys (a point and its negation = both parities of one x, the same secret / point through different formats and '
        'compression flags, private then public) under four construct/observe schedules, every object re-observed at the end '
        '(exposes state kept between key objects); every hexadecimal text import (private hex, hex+01, HDKey(hex), public compressed / '
        'uncompressed hex, Address(data/hashed_data=hex)) in lower, UPPER and two mixed letter cases; address cells and encoding '
        'functions fed ready-made 20/32-byte hashes incl. hashes that begin like a script or witness-program header (00|51..60, '
        'then len-2 / 12 / 1e / 26 / 14 / 20), leading-zero, all-zero, all-ff; the full matrix of optional arguments of Address() '
        '(witness_type x script_type x encoding given or omitted, prefix given or not, data vs hashed_data, bytes vs hex; key and script '
        'data; p2tr), Address.parse (no / network / encoding / all optional arguments), Key.address() and HDKey.address() (script_type x '
        'encoding x compressed x prefix) and the HDKey constructor (witness_type x encoding x multisig), judged exactly where the '
        'arguments agree on one kind and by the weak rule where they contradict each other. non-trivial = distinct '
        '(case kind, scalar/point class, import format, compressed, network) and (network, address cell, route) tuples')
TRUSTED_BASE = ['vf/refs/secp256k1.py (self-checked on G, 2G, (n-1)G, nG, hash160 vector)',
                'vf/refs/chain.py + vf/refs/codec.py (Base58Check, Bech32/Bech32m self-checked on BIP173/350 vectors)',
                'golden/chainparams.json address/WIF version bytes and HRPs (independent for bitcoin, testnet*, signet, litecoin*, '
                'dogecoin*; pinned from 074a788 for bitcoinlib_test, regtest, litecoin_legacy: change detector there)']
ASSUMPTIONS = ['refused = any exception from construction or from the first address() call (DESIGN 2.4)',
               'Key(0) documents "generate a new key"; only the consistency of the generated key is judged',
               'hex+01 private import is exercised only when the hex string does not start with 02/03 (format sniffing '
               'reads those as public keys; import ambiguities are judged by C12)',
               'non-standard (script type, encoding) pairs such as p2pkh+bech32 have no standard address; the library may refuse '
               'or return any standard address of this network that commits to a hash of the given data; anything else '
               '(a string no decoder accepts) is a deviation',
               'Key.address() without arguments follows the last used encoding/script type of that object by design; default '
               'calls are judged on fresh objects',
               'segwit addresses of uncompressed keys are refused by design (BKeyError) - accepted as refusal, never demanded',
               'argument matrix: each optional argument of Address()/Key.address()/HDKey() either says nothing or names a set of '
               'address kinds (docstrings); the denoted kind is the intersection, base58 with no wrap indication means the plain kind, '
               'an empty intersection is judged by the weak rule, several remaining kinds (nothing specified) accept any of them; '
               "sig_pubkey says nothing; p2sh_multisig says P2SH or P2WSH; p2tr with witness_type='taproot' is exercised with witver=1 only"]
EXHAUSTIVE = ['all 11 networks x 13 standard address cells per route (cycled over keys)',
              'boundary scalars {0, 1, 2, 3, n-2, n-1, n, n+1, 2^256-1} in every private import format',
              '2^k and 2^k-1 for every k (thorough)']

N = ec.N
P = ec.P

K_RANGE = 'C04/key/scalar-outside-1..n-1-accepted'
K_OFFCURVE = 'C04/key/public-point-not-validated'
K_B58_32 = 'C04/address/base58-of-32-byte-hash-returned'
K_WIF_01 = 'C04/wif-uncompressed/trailing-01-read-as-compression-flag'

PRIV_FORMATS = ('int', 'hex', 'bytes', 'wif', 'wif-uncompressed', 'hex01', 'hdkey', 'hdkey-key', 'hdkey-hexstr')
TEXT_PRIV = ('hex', 'hex01', 'hdkey-hexstr')                    # formats that are hexadecimal text: letter case is an input class
TEXT_PUB = ('hex', 'hex-uncompressed', 'hdkey-hex')
TEXTCASES = ('lower', 'upper', 'mixed-a', 'mixed-b')


def _tc(s, mode):
    """hex text in the requested letter case; mixed-a upper-cases even positions, mixed-b odd positions (incl. the last digit)"""
    if mode == 'upper':
        return s.upper()
    if mode in ('mixed-a', 'mixed-b'):
        o = 0 if mode == 'mixed-a' else 1
        return ''.join(c.upper() if i % 2 == o else c for i, c in enumerate(s))
    return s


def gen_textcase(rnd):
    return rnd.choice(['lower', 'lower', 'upper', 'upper', 'mixed-a', 'mixed-b', 'mixed-b'])
PUB_FORMATS = ('hex', 'bytes', 'hex-uncompressed', 'bytes-uncompressed', 'tuple', 'hdkey-hex', 'hdkey-key')
WITNESS_TYPES = ('legacy', 'p2sh-segwit', 'segwit')


# ------------------------------------------------------------------ expected addresses
def _cells_for_pub(net, pubbytes):
    """standard cells for a public key: (script_type, encoding) -> address"""
    h = ec.hash160(pubbytes)
    return {('p2pkh', 'base58'): rchain.address_base58(net, 'p2pkh', h),
            ('p2sh_p2wpkh', 'base58'): rchain.address_base58(net, 'p2sh', ec.hash160(rchain.script_witness(0, h))),
            ('p2wpkh', 'bech32'): rchain.address_segwit(net, 0, h)}


def _cells_for_script(net, script):
    h = ec.hash160(script)
    s = ec.sha256(script)
    return {('p2sh', 'base58'): rchain.address_base58(net, 'p2sh', h),
            ('p2wsh', 'bech32'): rchain.address_segwit(net, 0, s),
            ('p2sh_p2wsh', 'base58'): rchain.address_base58(net, 'p2sh', ec.hash160(rchain.script_witness(0, s)))}


def _acceptable_weak(net, data, s):
    """Weak rule for non-standard (type, encoding) pairs: s is a standard address of `net` committing to a hash of data."""
    if not isinstance(s, str):
        return False
    h, sh = ec.hash160(data), ec.sha256(data)
    ok = {rchain.address_base58(net, 'p2pkh', h), rchain.address_base58(net, 'p2sh', h), rchain.address_segwit(net, 0, h),
          rchain.address_segwit(net, 0, sh), rchain.address_segwit(net, 1, sh),
          rchain.address_base58(net, 'p2sh', ec.hash160(rchain.script_witness(0, h))),
          rchain.address_base58(net, 'p2sh', ec.hash160(rchain.script_witness(0, sh)))}
    return s in ok


def _is_b58_of_32(net, s, hashes):
    """Narrow predicate for K_B58_32: Base58Check(version byte of the network + one of the 32-byte hashes)."""
    pl = codec.b58check_decode(s) if isinstance(s, str) else None
    if pl is None or len(pl) != 33:
        return False
    return pl[:1].hex().upper() in (rchain.NETWORKS[net]['p2pkh'], rchain.NETWORKS[net]['p2sh']) and pl[1:] in hashes


# ------------------------------------------------------------------ classes of scalars / points
def _scalar_class(d):
    if d in (1, 2, 3):
        return {1: 'one', 2: 'two', 3: 'three'}[d]
    if d in (N - 1, N - 2):
        return 'n-1' if d == N - 1 else 'n-2'
    if d & (d - 1) == 0:
        return 'pow2'
    if d & (d + 1) == 0:
        return 'pow2m1'
    if bin(d).count('1') <= 6:
        return 'sparse'
    if d < 2 ** 64:
        return 'small'
    if N - d < 2 ** 64:
        return 'near-n'
    if d < 2 ** 240:
        return 'leading-zero'
    return 'random'


def gen_scalar(rnd, i=None):
    r = rnd.random()
    if r < 0.05:
        return rnd.choice([1, 2, 3, N - 1, N - 2])
    if r < 0.17:
        return 1 << rnd.randrange(2, 256)
    if r < 0.29:
        return (1 << rnd.randrange(3, 256)) - 1
    if r < 0.39:
        d = 0
        for _ in range(rnd.randint(2, 6)):
            d |= 1 << rnd.randrange(0, 256)
        return d if 1 <= d < N else 5
    if r < 0.46:
        return rnd.randrange(4, 2 ** 64)
    if r < 0.54:
        return N - rnd.randrange(3, 2 ** 64)
    if r < 0.62:
        return rnd.randrange(1, 2 ** rnd.choice([200, 224, 232, 240]))
    return rnd.randrange(1, N)


def _mk_private_arg(fmt, d, net, raw=False, tc='lower'):
    """import argument + kwargs for a private scalar in the given format. raw=True: no range assumptions (negative cases)."""
    b = d.to_bytes(32, 'big')
    if fmt == 'int':
        return d, {}
    if fmt in ('hex', 'hdkey-hexstr'):
        return _tc(b.hex(), tc), {}
    if fmt == 'bytes':
        return b, {}
    if fmt == 'wif':
        return rchain.wif_encode(net, b, True), {}
    if fmt == 'wif-uncompressed':
        return rchain.wif_encode(net, b, False), {}
    if fmt == 'hex01':
        return _tc(b.hex(), tc) + '01', {'is_private': True}
    return b, {}


def _construct_private(fmt, d, net, compressed, tc='lower'):
    from bitcoinlib.keys import Key, HDKey
    arg, kw = _mk_private_arg(fmt, d, net, tc=tc)
    if fmt in ('hdkey', 'hdkey-hexstr'):
        return HDKey(arg, network=net, compressed=compressed, witness_type='legacy')
    if fmt == 'hdkey-key':
        return HDKey(key=arg, chain=b'\x05' * 32, network=net, compressed=compressed, witness_type='legacy')
    if fmt in ('wif', 'wif-uncompressed', 'hex01'):
        return Key(arg, network=net, **kw)
    return Key(arg, network=net, compressed=compressed, **kw)


def _fmt_compressed(fmt, compressed):
    if fmt in ('wif', 'hex01'):
        return True
    if fmt == 'wif-uncompressed':
        return False
    return compressed


def _construct_public(fmt, pubc, pubu, pt, net, tc='lower'):
    from bitcoinlib.keys import Key, HDKey
    if fmt == 'hex':
        return Key(_tc(pubc.hex(), tc), network=net), True
    if fmt == 'bytes':
        return Key(pubc, network=net), True
    if fmt == 'hex-uncompressed':
        return Key(_tc(pubu.hex(), tc), network=net), False
    if fmt == 'bytes-uncompressed':
        return Key(pubu, network=net), False
    if fmt == 'tuple':
        return Key(pt, network=net), True
    if fmt == 'hdkey-hex':
        return HDKey(_tc(pubc.hex(), tc), network=net, witness_type='legacy'), True
    return HDKey(key=pubc, chain=b'\x06' * 32, is_private=False, network=net, witness_type='legacy'), True


# ------------------------------------------------------------------ positive checks
def _check_keyobj(col, k, d, pt, compressed, case, what):
    """All observable public-key facts of library key k against point pt (= d*G when d is given). -> ok"""
    pubc, pubu = ec.encode_pub(pt, True), ec.encode_pub(pt, False)
    exp_pub = pubc if compressed else pubu
    obs = {}
    ok = True

    def cmp(name, getter, exp):
        nonlocal ok
        col.probe('keyfacts')
        try:
            got = getter()
        except Exception as e:
            col.violation(None, '%s: %s raised %r' % (what, name, e), case, repr(e)[:300], exp)
            ok = False
            return
        if isinstance(got, str) and isinstance(exp, str) and case.get('textcase', 'lower') != 'lower':
            got = got.lower()       # the letter case of returned hex text is representation, not value
        if got != exp:
            key = None
            if (case.get('fmt') == 'wif-uncompressed' and d is not None and d & 0xff == 1 and getattr(k, 'secret', None) == d >> 8
                    and k.compressed is True):
                key = K_WIF_01
            col.violation(key, '%s: %s differs from the reference' % (what, name), case, got, exp)
            ok = False

    cmp('public_hex', lambda: k.public_hex, exp_pub.hex())
    if not ok:
        return False
    cmp('public_compressed_hex', lambda: k.public_compressed_hex, pubc.hex())
    cmp('public_uncompressed_hex', lambda: k.public_uncompressed_hex, pubu.hex())
    cmp('public_byte', lambda: bytes(k.public_byte), exp_pub)
    cmp('public_uncompressed_byte', lambda: bytes(k.public_uncompressed_byte), pubu)
    cmp('public_point()', lambda: tuple(int(v) for v in k.public_point()), pt)
    cmp('x/y', lambda: (int(k.x), int(k.y)), pt)
    cmp('compressed flag', lambda: bool(k.compressed), compressed)
    cmp('hash160', lambda: bytes(k.hash160), ec.hash160(exp_pub))
    if d is not None:
        cmp('secret', lambda: k.secret, d)
        cmp('private_hex', lambda: k.private_hex, '%064x' % d)
        cmp('private_byte', lambda: bytes(k.private_byte), d.to_bytes(32, 'big'))
        cmp('is_private', lambda: bool(k.is_private), True)
    else:
        cmp('is_private', lambda: bool(k.is_private), False)
    return ok


def _addr_violation(col, net, data_hashes, desc, case, got, exp):
    key = K_B58_32 if _is_b58_of_32(net, got, data_hashes) else None
    col.violation(key, desc, case, got, exp)


def _check_addresses(col, rnd, mk_key, pubbytes, compressed, net, case, hd=False):
    """Address cells for one public key on one network, through Key.address, Address(data) and Address(hashed_data)."""
    from bitcoinlib.keys import Address
    cells = _cells_for_pub(net, pubbytes)
    h = ec.hash160(pubbytes)
    idbase = ('addr', net)
    # --- route A: Key.address on one object, cells in random order (result must not depend on call history)
    order = list(cells.items())
    rnd.shuffle(order)
    # untyped calls follow the object's previous script type by design: judged on fresh objects only
    order += [((None, 'base58'), cells[('p2pkh', 'base58')]), ((None, 'bech32'), cells[('p2wpkh', 'bech32')])]
    try:
        k = mk_key()
    except Exception as e:
        col.violation(None, 'constructing the key again raised %r' % (e,), case, repr(e)[:200], None)
        return
    for (st, enc), exp in order:
        if st is None:
            try:
                k = mk_key()
            except Exception as e:
                col.violation(None, 'constructing the key again raised %r' % (e,), case, repr(e)[:200], None)
                return
        col.probe('address.key')
        col.case('address/%s/%s/%s' % (net, st, enc), nontrivial=idbase + (st, enc, 'Key.address', compressed), sample=dict(case, cell=[st, enc]))
        c = dict(case, cell=[st, enc], route='Key.address')
        try:
            got = k.address(script_type=st, encoding=enc)
        except Exception as e:
            if enc == 'bech32' and not compressed:
                col.probe('address.uncompressed_segwit_refused')
                continue
            col.violation(None, 'Key.address(script_type=%s, encoding=%s) on %s raised %r' % (st, enc, net, e), c, repr(e)[:300], exp)
            continue
        if got != exp:
            _addr_violation(col, net, (), 'Key.address(script_type=%s, encoding=%s) on %s is not the standard address' % (st, enc, net), c, got, exp)
    # --- default address() on a fresh object
    col.probe('address.key')
    try:
        k2 = mk_key()
        got = k2.address()
        exp = cells[('p2pkh', 'base58')]      # HD keys of this workload are created with witness_type legacy
        if got != exp:
            col.violation(None, 'address() of a fresh key on %s is not its P2PKH address' % net, dict(case, route='default'), got, exp)
        if compressed:
            got = mk_key().address_uncompressed()
            pt = ec.decode_pub(pubbytes)
            exp = rchain.address_base58(net, 'p2pkh', ec.hash160(ec.encode_pub(pt, False)))
            if got != exp:
                col.violation(None, 'address_uncompressed() on %s is not the P2PKH address of the uncompressed key' % net,
                              dict(case, route='address_uncompressed'), got, exp)
    except Exception as e:
        col.violation(None, 'default address()/address_uncompressed() on %s raised %r' % (net, e), dict(case, route='default'), repr(e)[:300], None)
    # --- route B/C: Address(data=pub) and Address(hashed_data=h)
    for (st, enc), exp in cells.items():
        if enc == 'bech32' and not compressed:
            continue
        for route, kwargs in (('Address(data)', {'data': rnd.choice([pubbytes, _tc(pubbytes.hex(), case.get('textcase', 'lower'))])}),
                              ('Address(hashed_data)', {'hashed_data': rnd.choice([h, _tc(h.hex(), case.get('textcase', 'lower'))])})):
            for e2 in (enc, None):
                col.probe('address.obj')
                col.case('address/%s/%s/%s' % (net, st, enc), nontrivial=idbase + (st, e2, route), sample=None)
                c = dict(case, cell=[st, e2], route=route)
                try:
                    got = Address(script_type=st, encoding=e2, network=net, **kwargs).address
                except Exception as e:
                    col.violation(None, '%s script_type=%s encoding=%s on %s raised %r' % (route, st, e2, net, e), c, repr(e)[:300], exp)
                    continue
                if got != exp:
                    _addr_violation(col, net, (), '%s script_type=%s encoding=%s on %s is not the standard address' % (route, st, e2, net), c, got, exp)
    # --- HDKey route with witness types
    if compressed:
        from bitcoinlib.keys import HDKey
        for wt, cell in (('legacy', ('p2pkh', 'base58')), ('p2sh-segwit', ('p2sh_p2wpkh', 'base58')), ('segwit', ('p2wpkh', 'bech32'))):
            col.probe('address.hdkey')
            col.case('address/%s/%s/%s' % (net, cell[0], cell[1]), nontrivial=idbase + cell + ('HDKey', wt), sample=None)
            c = dict(case, cell=list(cell), route='HDKey(witness_type=%s)' % wt)
            try:
                got = HDKey(key=pubbytes, chain=b'\x01' * 32, is_private=False, network=net, witness_type=wt).address()
            except Exception as e:
                col.violation(None, 'HDKey(witness_type=%s).address() on %s raised %r' % (wt, net, e), c, repr(e)[:300], cells[cell])
                continue
            if got != cells[cell]:
                col.violation(None, 'HDKey(witness_type=%s).address() on %s is not the standard address' % (wt, net), c, got, cells[cell])


def _check_script_addresses(col, rnd, pubbytes, net, case):
    """p2sh / p2wsh / p2sh-p2wsh from a script that commits to the key, and p2tr from a 32-byte program."""
    from bitcoinlib.keys import Address
    script = rchain.script_p2pk(pubbytes) if rnd.random() < 0.5 else rchain.script_multisig(1, [pubbytes])
    cells = _cells_for_script(net, script)
    hashes = {('p2sh', 'base58'): ec.hash160(script), ('p2wsh', 'bech32'): ec.sha256(script), ('p2sh_p2wsh', 'base58'): ec.sha256(script)}
    for (st, enc), exp in cells.items():
        for route, kwargs in (('Address(data)', {'data': rnd.choice([script, _tc(script.hex(), case.get('textcase', 'lower'))])}),
                              ('Address(hashed_data)', {'hashed_data': hashes[(st, enc)]})):
            for e2 in (enc, None):
                col.probe('address.script')
                col.case('address/%s/%s/%s' % (net, st, enc), nontrivial=('addr', net, st, e2, route), sample=dict(case, cell=[st, e2], route=route))
                c = dict(case, cell=[st, e2], route=route, script=script.hex())
                try:
                    got = Address(script_type=st, encoding=e2, network=net, **kwargs).address
                except Exception as e:
                    col.violation(None, '%s script_type=%s encoding=%s on %s raised %r' % (route, st, e2, net, e), c, repr(e)[:300], exp)
                    continue
                if got != exp:
                    _addr_violation(col, net, (ec.sha256(script),), '%s script_type=%s encoding=%s on %s is not the standard address' % (route, st, e2, net), c, got, exp)
    # p2tr from a 32-byte program (x-only key of this very point: the reference does no tweaking, neither does the library)
    prog = pubbytes[1:33]
    exp = rchain.address_segwit(net, 1, prog)
    for e2 in ('bech32', None):
        col.probe('address.p2tr')
        col.case('address/%s/p2tr/bech32' % net, nontrivial=('addr', net, 'p2tr', e2), sample=dict(case, cell=['p2tr', e2]))
        c = dict(case, cell=['p2tr', e2], route='Address(hashed_data)', program=prog.hex())
        try:
            got = Address(hashed_data=rnd.choice([prog, prog.hex()]), script_type='p2tr', encoding=e2, network=net).address
        except Exception as e:
            col.violation(None, 'Address(hashed_data=32 bytes, p2tr, %s) on %s raised %r' % (e2, net, e), c, repr(e)[:300], exp)
            continue
        if got != exp:
            _addr_violation(col, net, (prog,), 'p2tr address (encoding=%s) on %s is not the Bech32m encoding of the program' % (e2, net), c, got, exp)
    # non-standard pairs: weak rule
    for st, enc, data in (('p2pkh', 'bech32', pubbytes), ('p2wpkh', 'base58', pubbytes), ('p2sh_p2wpkh', 'bech32', pubbytes),
                          ('p2sh', 'bech32', script), ('p2wsh', 'base58', script), ('p2tr', 'base58', script)):
        col.probe('address.nonstandard_pair')
        col.case('address-nonstandard/%s/%s' % (st, enc), nontrivial=('addr-ns', net, st, enc), sample=dict(case, cell=[st, enc]))
        c = dict(case, cell=[st, enc], route='Address(data) non-standard pair', data=data.hex())
        try:
            got = Address(data=data, script_type=st, encoding=enc, network=net).address
        except Exception:
            col.probe('address.nonstandard_pair_refused')
            continue
        if not _acceptable_weak(net, data, got):
            _addr_violation(col, net, (ec.sha256(data),), 'Address(script_type=%s, encoding=%s) on %s returned a string that is no standard address of the data'
                            % (st, enc, net), c, got, 'refusal or a standard address committing to the data')


def run_private(case, col, rnd):
    d = int(case['d'], 16)
    fmt, net, compressed = case['fmt'], case['network'], bool(case['compressed'])
    compressed = _fmt_compressed(fmt, compressed)
    pt = ec.mul_g(d)
    cls = _scalar_class(d)
    tc = case.get('textcase', 'lower') if fmt in TEXT_PRIV else 'lower'
    col.case('private/%s/%s%s' % (cls, fmt, '' if fmt not in TEXT_PRIV else '/' + tc), nontrivial=('private', cls, fmt, compressed, net, tc), sample=case)
    col.probe('key.private')
    if tc != 'lower':
        col.probe('key.text_not_lowercase')
    try:
        k = _construct_private(fmt, d, net, compressed, tc)
    except Exception as e:
        col.violation(None, 'valid private key (%s, %s) refused: %r' % (cls, fmt, e), case, repr(e)[:300], ec.encode_pub(pt, compressed).hex())
        return
    if not _check_keyobj(col, k, d, pt, compressed, case, 'private import %s' % fmt):
        return
    pubbytes = ec.encode_pub(pt, compressed)
    _check_addresses(col, rnd, lambda: _construct_private(fmt, d, net, compressed, tc), pubbytes, compressed, net, case, hd=fmt.startswith('hdkey'))
    if compressed:
        _check_script_addresses(col, rnd, pubbytes, net, case)
    # public() keeps the same point and address
    col.probe('key.public()')
    try:
        kp = k.public()
        _check_keyobj(col, kp, None, pt, compressed, dict(case, via='public()'), 'public() of private import %s' % fmt)
    except Exception as e:
        col.violation(None, 'public() raised %r' % (e,), case, repr(e)[:200], None)


def run_public(case, col, rnd):
    fmt, net = case['fmt'], case['network']
    pt = (int(case['x'], 16), int(case['y'], 16))
    if not ec.on_curve(pt):
        col.note_inconclusive('generator produced an off-curve positive case')
        return
    pubc, pubu = ec.encode_pub(pt, True), ec.encode_pub(pt, False)
    parity = 'odd' if pt[1] & 1 else 'even'
    tc = case.get('textcase', 'lower') if fmt in TEXT_PUB else 'lower'
    last = 'letter' if (pt[1] & 15) > 9 else 'digit'       # letter case only matters where the text has letters
    col.case('public/%s/%s%s' % (fmt, parity, '' if fmt not in TEXT_PUB else '/' + tc),
             nontrivial=('public', case.get('src'), fmt, parity, net, tc, last if fmt in TEXT_PUB else None), sample=case)
    col.probe('key.public')
    if tc != 'lower':
        col.probe('key.text_not_lowercase')
    try:
        k, compressed = _construct_public(fmt, pubc, pubu, pt, net, tc)
    except Exception as e:
        col.violation(None, 'valid public key (%s) refused: %r' % (fmt, e), case, repr(e)[:300], pubc.hex())
        return
    if not _check_keyobj(col, k, None, pt, compressed, case, 'public import %s' % fmt):
        return
    pubbytes = pubc if compressed else pubu
    _check_addresses(col, rnd, lambda: _construct_public(fmt, pubc, pubu, pt, net, tc)[0], pubbytes, compressed, net, case, hd=fmt.startswith('hdkey'))
    if compressed:
        _check_script_addresses(col, rnd, pubbytes, net, case)


# ------------------------------------------------------------------ address cells that take a hash / program
def gen_hash(rnd):
    """-> (bytes, class). 20- and 32-byte hashes incl. ones whose first bytes look like a script / witness-program header."""
    n = rnd.choice([20, 32])
    r = rnd.random()
    if r < 0.5:
        first = rnd.choice([0x00, 0x51, 0x52, 0x53, 0x5f, 0x60, rnd.randint(0x51, 0x60)])
        second = rnd.choice([n - 2, n - 2, 0x12, 0x1e, 0x26, 0x14, 0x20, n])
        return bytes([first, second]) + rnd.randbytes(n - 2), 'header-like-%02x' % (0 if first == 0 else 0x51)
    if r < 0.6:
        z = rnd.randint(1, 6)
        return bytes(z) + rnd.randbytes(n - z), 'leading-zeros'
    if r < 0.65:
        return bytes(n), 'all-zero'
    if r < 0.7:
        return b'\xff' * n, 'all-ff'
    return rnd.randbytes(n), 'random'


def run_hash(case, col, rnd):
    """Every address cell that is fed a ready-made hash: Address(hashed_data=..) and the encoding functions themselves."""
    from bitcoinlib.keys import Address
    from bitcoinlib import encoding as E
    h = bytes.fromhex(case['h'])
    net, cls = case['network'], case.get('cls', 'hash')
    tc = case.get('textcase', 'lower')
    nw = rchain.NETWORKS[net]
    col.case('hash/%d/%s' % (len(h), cls), nontrivial=('hash', len(h), cls, net, tc), sample=case)
    wit0 = rchain.address_segwit(net, 0, h)
    if len(h) == 20:
        cells = [('p2pkh', 'base58', rchain.address_base58(net, 'p2pkh', h)), ('p2sh', 'base58', rchain.address_base58(net, 'p2sh', h)),
                 ('p2wpkh', 'bech32', wit0),
                 ('p2sh_p2wpkh', 'base58', rchain.address_base58(net, 'p2sh', ec.hash160(rchain.script_witness(0, h))))]
    else:
        cells = [('p2wsh', 'bech32', wit0), ('p2tr', 'bech32', rchain.address_segwit(net, 1, h)),
                 ('p2sh_p2wsh', 'base58', rchain.address_base58(net, 'p2sh', ec.hash160(rchain.script_witness(0, h))))]
    for st, enc, exp in cells:
        for e2 in (enc, None):
            for arg in (h, _tc(h.hex(), tc)):
                col.probe('address.hash')
                c = dict(case, cell=[st, e2], route='Address(hashed_data=%s)' % type(arg).__name__)
                try:
                    got = Address(hashed_data=arg, script_type=st, encoding=e2, network=net).address
                except Exception as e:
                    col.violation(None, 'Address(hashed_data, %s, %s) on %s raised %r' % (st, e2, net, e), c, repr(e)[:300], exp)
                    continue
                if got != exp:
                    _addr_violation(col, net, (), 'Address(hashed_data, script_type=%s, encoding=%s) on %s is not the standard address of this hash'
                                    % (st, e2, net), c, got, exp)
    direct = [('pubkeyhash_to_addr_bech32(witver=0)', lambda a: E.pubkeyhash_to_addr_bech32(a, prefix=nw['hrp'], witver=0), wit0),
              ('pubkeyhash_to_addr(bech32, witver=0)', lambda a: E.pubkeyhash_to_addr(a, prefix=nw['hrp'], encoding='bech32', witver=0), wit0)]
    if len(h) == 32:
        direct.append(('pubkeyhash_to_addr_bech32(witver=1)', lambda a: E.pubkeyhash_to_addr_bech32(a, prefix=nw['hrp'], witver=1),
                       rchain.address_segwit(net, 1, h)))
    else:
        for kind in ('p2pkh', 'p2sh'):
            ver = bytes.fromhex(nw[kind])
            direct.append(('pubkeyhash_to_addr_base58(%s)' % kind, lambda a, ver=ver: E.pubkeyhash_to_addr_base58(a, prefix=ver),
                           rchain.address_base58(net, kind, h)))
            direct.append(('pubkeyhash_to_addr(base58, %s)' % kind, lambda a, ver=ver: E.pubkeyhash_to_addr(a, prefix=ver, encoding='base58'),
                           rchain.address_base58(net, kind, h)))
    for name, fn, exp in direct:
        for arg in (h, _tc(h.hex(), tc)):
            col.probe('address.hash_direct')
            c = dict(case, route=name)
            try:
                got = fn(arg)
            except Exception as e:
                col.violation(None, '%s on %s raised %r' % (name, net, e), c, repr(e)[:300], exp)
                continue
            if got != exp:
                col.violation(None, '%s on %s is not the standard encoding of this hash' % (name, net), c, got, exp)


# ------------------------------------------------------------------ optional-argument combinations (inferred script type)
# What each optional argument says about the kind of address, per the docstrings of Address / Key.address / HDKey:
# None = says nothing. The denoted kind is the intersection of what the given arguments say.
_KEY_KINDS = ('PKH', 'WPKH', 'SH-WPKH')
_KEY_ST = {None: None, 'sig_pubkey': None, 'p2pkh': {'PKH'}, 'p2wpkh': {'WPKH'}, 'p2sh_p2wpkh': {'SH-WPKH'}}
_KEY_WT = {None: None, 'legacy': {'PKH'}, 'segwit': {'WPKH'}, 'p2sh-segwit': {'SH-WPKH'}}
_KEY_ENC = {None: None, 'base58': {'PKH', 'SH-WPKH'}, 'bech32': {'WPKH'}}
_SCR_KINDS = ('SH', 'WSH', 'SH-WSH')
_SCR_ST = {'p2sh': {'SH'}, 'p2wsh': {'WSH'}, 'p2sh_p2wsh': {'SH-WSH'}, 'p2sh_multisig': {'SH', 'WSH'}}
_SCR_WT = {None: None, 'legacy': {'SH'}, 'segwit': {'WSH'}, 'p2sh-segwit': {'SH-WSH'}}
_SCR_ENC = {None: None, 'base58': {'SH', 'SH-WSH'}, 'bech32': {'WSH'}}


def _denote(kinds, votes, enc, plain):
    """-> set of kinds the arguments denote (empty = contradictory). base58 without any wrap indication means the plain kind."""
    out = set(kinds)
    for v in votes:
        if v is not None:
            out &= v
    if len(out) > 1 and enc == 'base58' and plain in out:
        out = {plain}
    return out


def _kind_address(net, kind, h20=None, h32=None):
    if kind in ('PKH', 'SH'):
        return rchain.address_base58(net, 'p2pkh' if kind == 'PKH' else 'p2sh', h20)
    if kind == 'WPKH':
        return rchain.address_segwit(net, 0, h20)
    if kind == 'SH-WPKH':
        return rchain.address_base58(net, 'p2sh', ec.hash160(rchain.script_witness(0, h20)))
    if kind == 'WSH':
        return rchain.address_segwit(net, 0, h32)
    if kind == 'SH-WSH':
        return rchain.address_base58(net, 'p2sh', ec.hash160(rchain.script_witness(0, h32)))
    return rchain.address_segwit(net, 1, h32)        # TR


def _kind_prefix(net, kind, j):
    nw = rchain.NETWORKS[net]
    if kind in ('WPKH', 'WSH', 'TR'):
        return nw['hrp']
    v = nw['p2pkh'] if kind == 'PKH' else nw['p2sh']
    return bytes.fromhex(v) if j % 2 else v.lower()


def _weak_set(net, h20, h32):
    out = set()
    if h20 is not None:
        out |= {rchain.address_base58(net, 'p2pkh', h20), rchain.address_base58(net, 'p2sh', h20), rchain.address_segwit(net, 0, h20),
                rchain.address_base58(net, 'p2sh', ec.hash160(rchain.script_witness(0, h20)))}
    if h32 is not None:
        out |= {rchain.address_segwit(net, 0, h32), rchain.address_segwit(net, 1, h32),
                rchain.address_base58(net, 'p2sh', ec.hash160(rchain.script_witness(0, h32)))}
    return out


def run_args(case, col, rnd=None):
    """Address(), Address.parse, Key.address() and HDKey(...).address() over the combinations of their optional arguments
    (witness_type / script_type / encoding / prefix / compressed given or left to be inferred; data vs hashed_data; bytes vs hex).
    Combinations whose arguments agree are judged exactly; contradictory ones by the weak rule."""
    from bitcoinlib.keys import Address, Key, HDKey
    net = case['network']
    pt = (int(case['x'], 16), int(case['y'], 16))
    tc = case.get('textcase', 'lower')
    pub = ec.encode_pub(pt, True)
    h = ec.hash160(pub)
    script = rchain.script_multisig(1, [pub]) if pt[1] & 2 else rchain.script_p2pk(pub)
    hs, ss = ec.hash160(script), ec.sha256(script)
    only = case.get('only')
    col.case('args/%s' % net, nontrivial=None, sample=case)
    n = [0]

    def judge(route, sig, call, denoted, h20, h32, extra_hashes=()):
        """sig = jsonable description of the argument combination"""
        if only is not None and only != [route] + list(sig):
            return
        n[0] += 1
        strict = len(denoted) >= 1
        col.probe('args.strict' if strict else 'args.weak')
        col.case('args/%s/%s' % (route, 'strict' if strict else 'contradictory'),
                 nontrivial=('args', route) + tuple(sig) + (tuple(sorted(denoted)),), sample=None)
        c = dict(case, only=[route] + list(sig))
        try:
            got = call()
        except Exception as e:
            if strict:
                col.violation(None, '%s%r on %s raised %r' % (route, tuple(sig), net, e), c, repr(e)[:300], sorted(denoted))
            return
        if strict:
            exp = {_kind_address(net, k, h20, h32) for k in denoted}
            if got not in exp:
                _addr_violation(col, net, (h32,) + tuple(extra_hashes) if h32 else tuple(extra_hashes),
                                '%s%r on %s is not the %s address the arguments denote' % (route, tuple(sig), net, '/'.join(sorted(denoted))),
                                c, got, sorted(exp))
        elif got not in _weak_set(net, h20, h32):
            _addr_violation(col, net, (h32,) + tuple(extra_hashes) if h32 else tuple(extra_hashes),
                            '%s%r on %s (contradictory arguments) returned a string that is no standard address of the data' % (route, tuple(sig), net),
                            c, got, 'refusal or a standard address committing to the data')

    # ---- Address() on a public key / its hash
    j = 0
    for wt in (None, 'legacy', 'segwit', 'p2sh-segwit'):
        for st in (None, 'p2pkh', 'sig_pubkey', 'p2wpkh', 'p2sh_p2wpkh'):
            for enc in (None, 'base58', 'bech32'):
                den = _denote(_KEY_KINDS, (_KEY_WT[wt], _KEY_ST[st], _KEY_ENC[enc]), enc, 'PKH')
                for src, kw in (('data-bytes', {'data': pub}), ('data-hex', {'data': _tc(pub.hex(), tc)}),
                                ('hash-bytes', {'hashed_data': h}), ('hash-hex', {'hashed_data': _tc(h.hex(), tc)})):
                    j += 1
                    kw = dict(kw, network=net)
                    if wt is not None or j % 2:
                        kw['witness_type'] = wt
                    if st is not None or j % 3:
                        kw['script_type'] = st
                    if enc is not None or j % 5:
                        kw['encoding'] = enc
                    pfx = None
                    if len(den) == 1 and j % 4 == 0:
                        pfx = _kind_prefix(net, next(iter(den)), j // 4)
                        kw['prefix'] = pfx
                    judge('Address', [wt, st, enc, src, pfx.hex() if isinstance(pfx, bytes) else pfx],
                          lambda kw=kw: Address(**kw).address, den, h, None, (ec.sha256(pub),))
    # ---- Address() on a script / its hash
    for wt in (None, 'legacy', 'segwit', 'p2sh-segwit'):
        for st in ('p2sh', 'p2wsh', 'p2sh_p2wsh', 'p2sh_multisig'):
            for enc in (None, 'base58', 'bech32'):
                den = _denote(_SCR_KINDS, (_SCR_WT[wt], _SCR_ST[st], _SCR_ENC[enc]), enc, 'SH')
                srcs = [('data-bytes', {'data': script}), ('data-hex', {'data': _tc(script.hex(), tc)})]
                if len(den) == 1:
                    hh = hs if next(iter(den)) == 'SH' else ss
                    srcs += [('hash-bytes', {'hashed_data': hh}), ('hash-hex', {'hashed_data': _tc(hh.hex(), tc)})]
                for src, kw in srcs:
                    j += 1
                    kw = dict(kw, network=net, script_type=st)
                    if wt is not None or j % 2:
                        kw['witness_type'] = wt
                    if enc is not None or j % 3:
                        kw['encoding'] = enc
                    pfx = None
                    if len(den) == 1 and j % 4 == 0:
                        pfx = _kind_prefix(net, next(iter(den)), j // 4)
                        kw['prefix'] = pfx
                    judge('Address(script)', [wt, st, enc, src, pfx.hex() if isinstance(pfx, bytes) else pfx],
                          lambda kw=kw: Address(**kw).address, den, hs, ss)
    # ---- p2tr from a program (witver left at its default only when witness_type is left to be inferred)
    prog = pub[1:]
    for wt, wv in ((None, None), (None, 1), ('taproot', 1)):
        for enc in (None, 'bech32'):
            for src, arg in (('hash-bytes', prog), ('hash-hex', _tc(prog.hex(), tc))):
                kw = {'hashed_data': arg, 'script_type': 'p2tr', 'network': net}
                if wt:
                    kw['witness_type'] = wt
                if wv:
                    kw['witver'] = wv
                if enc:
                    kw['encoding'] = enc
                judge('Address(p2tr)', [wt, wv, enc, src], lambda kw=kw: Address(**kw).address, {'TR'}, None, prog)
    # ---- Address.parse of every standard address of these data, with and without its optional arguments
    for kind in _KEY_KINDS + _SCR_KINDS + ('TR',):
        h20 = h if kind in _KEY_KINDS else hs
        h32 = prog if kind == 'TR' else ss
        a = _kind_address(net, kind, h20, h32)
        payload = {'PKH': h, 'WPKH': h, 'SH-WPKH': ec.hash160(rchain.script_witness(0, h)), 'SH': hs, 'WSH': ss,
                   'SH-WSH': ec.hash160(rchain.script_witness(0, ss)), 'TR': prog}[kind]
        enc = 'bech32' if kind in ('WPKH', 'WSH', 'TR') else 'base58'
        for label, kw in (('()', {}), ('(network)', {'network': net}), ('(encoding)', {'encoding': enc}),
                          ('(all)', {'network': net, 'encoding': enc, 'compressed': True, 'depth': 0, 'change': 0, 'address_index': 0})):
            if only is not None and only != ['Address.parse', kind, label]:
                continue
            col.probe('args.parse')
            col.case('args/Address.parse', nontrivial=('args', 'parse', kind, label), sample=None)
            c = dict(case, only=['Address.parse', kind, label])
            try:
                o = Address.parse(a, **kw)
                got = [o.address, bytes(o.hash_bytes).hex(), o.encoding]
            except Exception as e:
                col.violation(None, 'Address.parse%s of the %s address on %s raised %r' % (label, kind, net, e), c, repr(e)[:300], a)
                continue
            if got != [a, payload.hex(), enc]:
                col.violation(None, 'Address.parse%s of the %s address on %s does not give back address / hash / encoding' % (label, kind, net),
                              c, got, [a, payload.hex(), enc])
    # ---- Key.address() / HDKey.address() on fresh objects; encoding omitted means base58 for Key (docstring)
    pubu = ec.encode_pub(pt, False)
    hu = ec.hash160(pubu)
    for mk_name, mk in (('Key', lambda: Key(pub, network=net)),
                        ('HDKey', lambda: HDKey(key=pub, chain=b'\x02' * 32, is_private=False, network=net, witness_type='legacy'))):
        for st in (None, 'p2pkh', 'p2wpkh', 'p2sh_p2wpkh'):
            for enc in (None, 'base58', 'bech32'):
                den = _denote(_KEY_KINDS, (_KEY_ST[st], _KEY_ENC[enc or 'base58']), enc or 'base58', 'PKH')
                for comp in (None, True):
                    j += 1
                    kw = {}
                    if st is not None or j % 2:
                        kw['script_type'] = st
                    if enc is not None or j % 3:
                        kw['encoding'] = enc
                    if comp is not None:
                        kw['compressed'] = comp
                    pfx = None
                    if len(den) == 1 and j % 3 == 0:
                        pfx = _kind_prefix(net, next(iter(den)), j // 3)
                        kw['prefix'] = pfx
                    judge('%s.address' % mk_name, [st, enc, comp, pfx.hex() if isinstance(pfx, bytes) else pfx],
                          lambda kw=kw, mk=mk: mk().address(**kw), den, h, None, (ec.sha256(pub),))
        for st in (None, 'p2pkh'):
            judge('%s.address' % mk_name, [st, 'base58', False, None], lambda st=st, mk=mk: mk().address(compressed=False, script_type=st, encoding='base58'),
                  {'PKH'}, hu, None)
    # ---- HDKey constructor arguments decide the default address
    for wt in (None, 'legacy', 'segwit', 'p2sh-segwit'):
        for enc in (None, 'base58', 'bech32'):
            for ms in (False, True):
                den = _denote(_KEY_KINDS, (_KEY_WT[wt], _KEY_ENC[enc]), enc, 'PKH') if not ms else set()
                for src, kkw in (('public', {'key': pub, 'is_private': False, 'chain': b'\x03' * 32}),):
                    kw = dict(kkw, network=net, multisig=ms)
                    if wt is not None:
                        kw['witness_type'] = wt
                    if enc is not None:
                        kw['encoding'] = enc
                    judge('HDKey().address', [wt, enc, ms, src], lambda kw=kw: HDKey(**kw).address(), den, h, ec.sha256(pub) if ms else None)
    if n[0] == 0 and only is not None:
        col.note_inconclusive('replay cell %r not found' % (only,))


# ------------------------------------------------------------------ sequences: state kept between key objects
SCHEDULES = ('eager', 'lazy-reverse', 'lazy-forward', 'interleaved')


def _views_pool(d_known):
    """All ways this workload can present a point: (sign, kind, fmt, compressed). sign -1 = the negated point
    (same x, opposite parity; secret n-d)."""
    pool = []
    for sign in (1, -1):
        for fmt in PUB_FORMATS:
            pool.append([sign, 'public', fmt, fmt not in ('hex-uncompressed', 'bytes-uncompressed')])
        if d_known:
            for fmt in PRIV_FORMATS:
                for c in (True, False):
                    if _fmt_compressed(fmt, c) == c:
                        pool.append([sign, 'private', fmt, c])
    return pool


def gen_sequence(rnd, net):
    """Related keys imported back to back in one process: the same point / its negation (same x, other parity) / the
    same secret through different formats and compression flags, observed under different schedules."""
    if rnd.random() < 0.5:
        d = gen_scalar(rnd)
        pt = ec.mul_g(d)
    else:
        d = None
        while True:
            pt = ec.lift_x(rnd.randrange(1, P), rnd.random() < 0.5)
            if pt is not None:
                break
    pool = _views_pool(d is not None)
    r = rnd.random()
    if r < 0.45:
        # both parities of one x as compressed public keys, either order, then anything
        comp = [v for v in pool if v[1] == 'public' and v[3] and v[2] != 'tuple']
        first = rnd.choice(comp)
        second = rnd.choice([v for v in comp if v[0] == -first[0]])
        views = [first, second] + [rnd.choice(pool) for _ in range(rnd.randint(0, 2))]
        rel = 'parity-pair'
    elif r < 0.7 and d is not None:
        pr = [v for v in pool if v[1] == 'private']
        views = [rnd.choice(pr) for _ in range(rnd.randint(2, 4))]
        views[1][0] = views[0][0] if rnd.random() < 0.5 else -views[0][0]
        rel = 'same-or-negated-secret-formats'
    else:
        views = [rnd.choice(pool) for _ in range(rnd.randint(2, 5))]
        if len({v[0] for v in views}) == 1:
            views[-1] = [-views[0][0]] + list(rnd.choice(pool))[1:]
        rel = 'mixed-views'
    views = [list(v) for v in views]
    for v in views:
        v.append(gen_textcase(rnd) if v[2] in (TEXT_PRIV if v[1] == 'private' else TEXT_PUB) else 'lower')
        dd = None if d is None else (d if v[0] == 1 else N - d)
        if v[2] == 'hex01' and dd is not None and ('%064x' % dd)[:2] in ('02', '03'):
            v[2] = 'hex'
    return {'kind': 'sequence', 'relation': rel, 'd': ('%x' % d) if d is not None else None, 'x': '%x' % pt[0], 'y': '%x' % pt[1],
            'views': views, 'schedule': rnd.choice(SCHEDULES), 'network': net}


def run_sequence(case, col, rnd):
    net = case['network']
    d0 = int(case['d'], 16) if case.get('d') else None
    pt0 = (int(case['x'], 16), int(case['y'], 16))
    if not ec.on_curve(pt0) or (d0 is not None and ec.mul_g(d0) != pt0):
        col.note_inconclusive('sequence generator produced an inconsistent base point')
        return
    items = []
    for view in case['views']:
        sign, kind, fmt, compressed = view[:4]
        tc = view[4] if len(view) > 4 else 'lower'
        pt = pt0 if sign == 1 else (pt0[0], P - pt0[1])
        d = None if (d0 is None or kind != 'private') else (d0 if sign == 1 else N - d0)
        if kind == 'private' and d is None:
            col.note_inconclusive('private view of a point without known secret')
            return
        pubc, pubu = ec.encode_pub(pt, True), ec.encode_pub(pt, False)
        if kind == 'private':
            compressed = _fmt_compressed(fmt, bool(compressed))
            mk = (lambda fmt=fmt, d=d, c=compressed, tc=tc: _construct_private(fmt, d, net, c, tc))
        else:
            compressed = fmt not in ('hex-uncompressed', 'bytes-uncompressed')
            mk = (lambda fmt=fmt, pubc=pubc, pubu=pubu, pt=pt, tc=tc: _construct_public(fmt, pubc, pubu, pt, net, tc)[0])
        items.append({'mk': mk, 'd': d, 'pt': pt, 'compressed': compressed, 'label': '%s%s/%s' % ('+' if sign == 1 else '-', kind, fmt),
                      'case': dict(case, item=[sign, kind, fmt, compressed, tc], fmt=fmt, textcase=tc)})
    sched = case.get('schedule', 'eager')
    sig = tuple(sorted({(it['label'], it['compressed']) for it in items[:2]}))
    col.case('sequence/%s/%s' % (case.get('relation'), sched), nontrivial=('sequence', case.get('relation'), sched, sig, len(items)), sample=case)

    def construct(it):
        col.probe('seq.construct')
        try:
            it['k'] = it['mk']()
            return True
        except Exception as e:
            col.violation(None, 'sequence %s: valid key %s refused: %r' % (case.get('relation'), it['label'], e), it['case'], repr(e)[:300],
                          ec.encode_pub(it['pt'], it['compressed']).hex())
            it['k'] = None
            return False

    def observe(it, when):
        if it.get('k') is None:
            return
        col.probe('seq.observe')
        what = 'sequence %s, item %s (%s)' % (case.get('relation'), it['label'], when)
        _check_keyobj(col, it['k'], it['d'], it['pt'], it['compressed'], dict(it['case'], when=when), what)
        # uncompressed / compressed P2PKH address from a fresh object of the same view (address_uncompressed flips the flag)
        try:
            k2 = it['mk']()
            got = (k2.address_uncompressed(), it['mk']().address(script_type='p2pkh', encoding='base58'))
        except Exception as e:
            col.violation(None, '%s: address_uncompressed()/address() raised %r' % (what, e), dict(it['case'], when=when), repr(e)[:300], None)
            return
        exp = (rchain.address_base58(net, 'p2pkh', ec.hash160(ec.encode_pub(it['pt'], False))),
               rchain.address_base58(net, 'p2pkh', ec.hash160(ec.encode_pub(it['pt'], it['compressed']))))
        if got != exp:
            col.violation(None, '%s: address_uncompressed() / own-form P2PKH address are not those of this point' % what, dict(it['case'], when=when),
                          list(got), list(exp))

    if sched == 'eager':
        for it in items:
            if construct(it):
                observe(it, 'right after construction')
    elif sched == 'interleaved':
        prev = None
        for it in items:
            construct(it)
            if prev is not None:
                observe(prev, 'after the next key was constructed')
            prev = it
        observe(prev, 'last')
    else:
        for it in items:
            construct(it)
        for it in (reversed(items) if sched == 'lazy-reverse' else items):
            observe(it, 'after all keys were constructed')
    # every object again, in the other direction: nothing observed later may change what an earlier key reports
    for it in (items if sched == 'lazy-reverse' else reversed(items)):
        observe(it, 're-observed at the end')


# ------------------------------------------------------------------ negative checks
def _try_accept(make):
    """-> (accepted, key object or None, address or None, exception)"""
    try:
        k = make()
    except Exception as e:
        return False, None, None, e
    try:
        a = k.address()
    except Exception as e:
        return False, k, None, e
    if a is None or a is False:
        return False, k, None, None
    return True, k, a, None


def run_bad_scalar(case, col):
    d = int(case['d'], 16)
    fmt, net, compressed = case['fmt'], case['network'], bool(case['compressed'])
    cls = case.get('cls', 'bad')
    col.case('bad-scalar/%s/%s' % (cls, fmt), nontrivial=('bad-scalar', cls, fmt, net), sample=case)
    col.probe('neg.scalar')
    if fmt == 'int' and d == 0:
        # documented: a falsy import_key generates a new key. Judge only that the generated key is a key.
        from bitcoinlib.keys import Key
        col.probe('neg.key0_generates')
        try:
            k = Key(0, network=net)
            if not (1 <= k.secret < N) or k.public_hex != ec.pub_from_secret(k.secret).hex():
                col.violation(None, 'Key(0) generated an inconsistent key', case, [k.secret, k.public_hex], 'consistent fresh key')
        except Exception:
            pass
        return
    acc, k, a, exc = _try_accept(lambda: _construct_private(fmt, d, net, _fmt_compressed(fmt, compressed)))
    if not acc:
        col.probe('neg.scalar_refused')
        return
    key = None
    try:
        red = d % N
        shape_pub = ('02' + '00' * 32) if red == 0 else ec.encode_pub(ec.mul_g(red), True).hex()
        if k.secret == d and k.public_compressed_hex == shape_pub:
            key = K_RANGE
        elif fmt == 'wif-uncompressed' and d & 0xff == 1 and k.secret == d >> 8 and k.compressed is True:
            key = K_WIF_01      # the WIF was read as a different (31-byte, compressed) secret; the range question never arose
    except Exception:
        pass
    col.violation(key, 'scalar outside [1, n-1] (%s) imported as %s yields key %s and address %s' % (cls, fmt, getattr(k, 'public_hex', None), a), case,
                  {'public_hex': getattr(k, 'public_hex', None), 'address': a}, 'refusal')


def run_bad_public(case, col):
    from bitcoinlib.keys import Key, HDKey
    fmt, net, cls = case['fmt'], case['network'], case['cls']
    col.case('bad-public/%s/%s' % (cls, fmt), nontrivial=('bad-public', cls, fmt, net), sample=case)
    col.probe('neg.public')
    if fmt == 'tuple':
        arg = (int(case['x'], 16), int(case['y'], 16))
        encs = [b'\x04' + arg[0].to_bytes(32, 'big') + arg[1].to_bytes(32, 'big'), bytes([2 + (arg[1] & 1)]) + arg[0].to_bytes(32, 'big')]
        if ec.on_curve(arg):
            col.note_inconclusive('negative generator produced an on-curve tuple')
            return
        make = lambda: Key(arg, network=net)
    else:
        enc = bytes.fromhex(case['enc'])
        if ec.decode_pub(enc) is not None:
            col.note_inconclusive('negative generator produced a valid public key')
            return
        encs = [enc]
        if len(enc) == 65:
            encs.append(bytes([2 + (enc[64] & 1)]) + enc[1:33])
        if fmt == 'hex':
            make = lambda: Key(enc.hex(), network=net)
        elif fmt == 'bytes':
            make = lambda: Key(enc, network=net)
        elif fmt == 'hdkey-hex':
            make = lambda: HDKey(enc.hex(), network=net, witness_type='legacy')
        else:
            make = lambda: HDKey(key=enc, chain=b'\x09' * 32, is_private=False, network=net, witness_type='legacy')
    acc, k, a, exc = _try_accept(make)
    if not acc:
        col.probe('neg.public_refused')
        return
    key = None
    if a in {rchain.address_base58(net, 'p2pkh', ec.hash160(e)) for e in encs}:
        key = K_OFFCURVE        # the library hashed the bytes it was given without checking that they describe a curve point
    col.violation(key, 'non-point public key (%s, %s) accepted; address %s' % (cls, fmt, a), case,
                  {'public_hex': getattr(k, 'public_hex', None), 'address': a}, 'refusal')


# ------------------------------------------------------------------ generators
_SMALL_ON = []


def _small_oncurve_x():
    if not _SMALL_ON:
        x = 1
        while len(_SMALL_ON) < 40:
            if ec.lift_x(x, 0) is not None:
                _SMALL_ON.append(x)
            x += 1
    return _SMALL_ON


def gen_bad_scalar(rnd):
    r = rnd.random()
    if r < 0.12:
        return 0, 'zero'
    if r < 0.3:
        return N, 'n'
    if r < 0.45:
        return N + 1, 'n+1'
    if r < 0.58:
        return 2 ** 256 - 1, '2^256-1'
    if r < 0.75:
        return N + rnd.randrange(2, 2 ** 64), 'n+small'
    return rnd.randrange(N, 2 ** 256), 'random>=n'


def gen_bad_public(rnd):
    """-> dict(cls, enc hex | x,y)"""
    r = rnd.random()
    if r < 0.3:
        while True:
            x = rnd.randrange(1, P) if rnd.random() < 0.7 else rnd.randrange(1, 2 ** 20)
            if ec.lift_x(x, 0) is None:
                break
        pre = rnd.choice([2, 3])
        return {'cls': 'offcurve-x-%02d' % pre, 'enc': (bytes([pre]) + x.to_bytes(32, 'big')).hex()}
    if r < 0.4:
        x = rnd.choice(_small_oncurve_x()) + P
        return {'cls': 'x-ge-p', 'enc': (bytes([rnd.choice([2, 3])]) + x.to_bytes(32, 'big')).hex()}
    if r < 0.45:
        return {'cls': 'x-zero', 'enc': (bytes([rnd.choice([2, 3])]) + bytes(32)).hex()}
    pt = ec.mul_g(rnd.randrange(1, N))
    if r < 0.6:
        y = rnd.randrange(1, P)
        cls = 'uncompressed-random-y'
    elif r < 0.75:
        y = pt[1] ^ 1
        cls = 'uncompressed-y-lowbit-flipped'
    elif r < 0.82:
        return {'cls': 'uncompressed-xy-swapped', 'enc': (b'\x04' + pt[1].to_bytes(32, 'big') + pt[0].to_bytes(32, 'big')).hex(), 'x': '%x' % pt[1], 'y': '%x' % pt[0]}
    elif r < 0.87:
        return {'cls': 'uncompressed-zero', 'enc': (b'\x04' + bytes(64)).hex(), 'x': '0', 'y': '0'}
    elif r < 0.94:
        pre = 6 + (pt[1] & 1) if rnd.random() < 0.5 else 7 - (pt[1] & 1)
        return {'cls': 'hybrid-%02d' % pre, 'enc': (bytes([pre]) + pt[0].to_bytes(32, 'big') + pt[1].to_bytes(32, 'big')).hex()}
    else:
        y = (pt[1] + 1) % P
        cls = 'uncompressed-y-plus-1'
    if ec.on_curve((pt[0], y)):
        y = (y + 2) % P
    return {'cls': cls, 'enc': (b'\x04' + pt[0].to_bytes(32, 'big') + y.to_bytes(32, 'big')).hex(), 'x': '%x' % pt[0], 'y': '%x' % y}


# ------------------------------------------------------------------ plan / shards / replay
def run_case(case, col, rnd=None):
    rnd = rnd or random.Random('replay-%s' % (case.get('d') or case.get('enc') or case.get('x') or ''))
    k = case['kind']
    if k == 'private':
        run_private(case, col, rnd)
    elif k == 'public':
        run_public(case, col, rnd)
    elif k == 'bad-scalar':
        run_bad_scalar(case, col)
    elif k == 'bad-public':
        run_bad_public(case, col)
    elif k == 'sequence':
        run_sequence(case, col, rnd)
    elif k == 'hash':
        run_hash(case, col, rnd)
    elif k == 'args':
        run_args(case, col, rnd)


def _selfcheck(col):
    try:
        ec.selfcheck()
        rchain.selfcheck()
        if hasattr(codec, 'selfcheck'):
            codec.selfcheck()
        assert sorted(rchain.NETWORK_NAMES) == rchain.NETWORK_NAMES and len(rchain.NETWORK_NAMES) >= 11
    except Exception as e:
        col.note_inconclusive('reference self-check failed: %r' % (e,))
        return False
    return True


def replay(case, col):
    if not _selfcheck(col):
        return
    run_case(case, col)


def plan(tier, seed, scale=1.0):
    thorough = tier == 'thorough'
    nshard = 16
    total = int((150000 if thorough else 3000) * scale)
    return [{'part': 'keys', 'shard': i, 'nshard': nshard, 'n_keys': max(24, total // nshard), 'all_pow2': thorough,
             'timeout': 4 * 3600 if thorough else 900} for i in range(nshard)]


def run_shard(spec, col):
    if not _selfcheck(col):
        return
    for p in ('key.private', 'key.public', 'keyfacts', 'address.key', 'address.obj', 'address.script', 'address.p2tr', 'address.hdkey',
              'address.nonstandard_pair', 'neg.scalar', 'neg.public', 'key.public()', 'seq.construct', 'seq.observe', 'address.hash',
              'address.hash_direct', 'key.text_not_lowercase', 'args.strict', 'args.weak', 'args.parse'):
        col.require(p)
    # the library must know exactly the golden networks (a missing/extra network is a change the table must follow)
    from bitcoinlib.networks import NETWORK_DEFINITIONS
    if sorted(NETWORK_DEFINITIONS) != rchain.NETWORK_NAMES:
        col.note_inconclusive('library networks %s differ from the golden table %s' % (sorted(NETWORK_DEFINITIONS), rchain.NETWORK_NAMES))
        return
    rnd = random.Random('%s-%d-%d' % (ID, spec['seed'], spec['shard']))
    sh, ns = spec['shard'], spec['nshard']
    nets = rchain.NETWORK_NAMES
    n = spec['n_keys']
    ctr = 0

    def next_net():
        nonlocal ctr
        ctr += 1
        return nets[(ctr + sh) % len(nets)]

    # boundary scalars in every private format (shard-striped), both compressed flags
    fixed = [1, 2, 3, N - 1, N - 2]
    if spec.get('all_pow2'):
        fixed += [1 << k for k in range(2, 256)] + [(1 << k) - 1 for k in range(3, 256)]
    jobs = [(d, f, c) for d in fixed for f in PRIV_FORMATS for c in (True, False)]
    for j, (d, f, c) in enumerate(jobs):
        if j % ns == sh:
            if f == 'hex01' and ('%064x' % d)[:2] in ('02', '03'):
                continue
            run_private({'kind': 'private', 'd': '%x' % d, 'fmt': f, 'network': next_net(), 'compressed': c}, col, rnd)
    bad_fixed = [(0, 'zero'), (N, 'n'), (N + 1, 'n+1'), (2 ** 256 - 1, '2^256-1')]
    jobs = [(d, cl, f) for d, cl in bad_fixed for f in PRIV_FORMATS]
    for j, (d, cl, f) in enumerate(jobs):
        if j % ns == sh:
            run_bad_scalar({'kind': 'bad-scalar', 'd': '%x' % d, 'cls': cl, 'fmt': f, 'network': next_net(), 'compressed': True}, col)

    # a key and its negation (same x, both parities) as compressed public keys, both orders, on shard-specific small scalars
    for j, (a, b) in enumerate(((1, -1), (-1, 1))):
        d = 1 + sh * 2 + j
        pt = ec.mul_g(d)
        run_sequence({'kind': 'sequence', 'relation': 'parity-pair', 'd': '%x' % d, 'x': '%x' % pt[0], 'y': '%x' % pt[1],
                      'views': [[a, 'public', 'hex', True], [b, 'public', 'bytes', True]], 'schedule': SCHEDULES[(sh + j) % len(SCHEDULES)],
                      'network': next_net()}, col, rnd)

    # every textual public format in every letter case on shard-specific consecutive scalars (both kinds of last hex digit occur)
    for j in range(6):
        pt = ec.mul_g(1000 + sh * 6 + j)
        for fmt in TEXT_PUB:
            run_public({'kind': 'public', 'x': '%x' % pt[0], 'y': '%x' % pt[1], 'src': 'dG', 'fmt': fmt, 'network': next_net(),
                        'textcase': TEXTCASES[1 + (j + sh) % 3]}, col, rnd)
    # the optional-argument matrix once per shard on a shard-specific key and network
    ptA = ec.mul_g(77 + sh)
    run_args({'kind': 'args', 'x': '%x' % ptA[0], 'y': '%x' % ptA[1], 'network': nets[sh % len(nets)], 'textcase': TEXTCASES[sh % 4]}, col, rnd)
    # header-like hashes, one of every (first byte class, length) per shard
    for n_h in (20, 32):
        for first in (0x00, 0x51 + sh):
            hh = bytes([first, n_h - 2]) + rnd.randbytes(n_h - 2)
            run_hash({'kind': 'hash', 'h': hh.hex(), 'cls': 'header-like-%02x' % (0 if first == 0 else 0x51), 'network': next_net(),
                      'textcase': TEXTCASES[sh % 4]}, col, rnd)

    for i in range(n):
        r = rnd.random()
        net = next_net()
        r2 = rnd.random()
        if r2 < 0.12:
            run_sequence(gen_sequence(rnd, net), col, rnd)
            continue
        if r2 < 0.16:
            ptA = ec.mul_g(gen_scalar(rnd))
            run_args({'kind': 'args', 'x': '%x' % ptA[0], 'y': '%x' % ptA[1], 'network': net, 'textcase': gen_textcase(rnd)}, col, rnd)
            continue
        if r2 < 0.26:
            hh, hcls = gen_hash(rnd)
            run_hash({'kind': 'hash', 'h': hh.hex(), 'cls': hcls, 'network': net, 'textcase': gen_textcase(rnd)}, col, rnd)
            continue
        if r < 0.45:
            d = gen_scalar(rnd)
            fmt = rnd.choice(PRIV_FORMATS)
            if fmt == 'hex01' and ('%064x' % d)[:2] in ('02', '03'):
                fmt = 'hex'
            run_private({'kind': 'private', 'd': '%x' % d, 'fmt': fmt, 'network': net, 'compressed': rnd.random() < 0.7,
                         'textcase': gen_textcase(rnd)}, col, rnd)
        elif r < 0.7:
            # public import; half of them from arbitrary x (decompression), half from d*G
            if rnd.random() < 0.5:
                while True:
                    x = rnd.randrange(1, P)
                    pt = ec.lift_x(x, rnd.random() < 0.5)
                    if pt is not None:
                        break
                src = 'lift_x'
            else:
                pt = ec.mul_g(gen_scalar(rnd))
                src = 'dG'
            run_public({'kind': 'public', 'x': '%x' % pt[0], 'y': '%x' % pt[1], 'src': src, 'fmt': rnd.choice(PUB_FORMATS), 'network': net,
                        'textcase': gen_textcase(rnd)}, col, rnd)
        elif r < 0.82:
            d, cl = gen_bad_scalar(rnd)
            run_bad_scalar({'kind': 'bad-scalar', 'd': '%x' % d, 'cls': cl, 'fmt': rnd.choice(PRIV_FORMATS), 'network': net,
                            'compressed': rnd.random() < 0.7}, col)
        else:
            b = gen_bad_public(rnd)
            if 'x' in b and rnd.random() < 0.3 and not b['cls'].startswith('hybrid'):
                fmt = 'tuple'
            else:
                fmt = rnd.choice(['hex', 'bytes', 'hdkey-hex', 'hdkey-key'])
            run_bad_public(dict(b, kind='bad-public', fmt=fmt, network=net), col)
