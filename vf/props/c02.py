"""C02 - Transaction.verify() is sound and complete for standard inputs.

Oracle: vf.refs.tx.verify_input (consensus-style spend verifier) on the bytes the object serialises to, with the
harness's prevout registry (scriptPubKey by position; amount = the amount the object claims for that input).
  soundness    library True  => every input is a valid spend according to the reference;
  completeness reference valid (and the spend uses keys the library can see) => library True.
Workload: signer subsets / orders / repeated signers / re-signing, every single-field tampering of the signed
object, and every single-field tampering of the serialised bytes followed by Transaction.parse.
"""
import copy
import random
import itertools

from vf.refs import secp256k1 as ec
from vf.refs import tx as rtx
from vf.refs import chain, codec
from vf.gen import txgen

ID = 'C02'
LEVEL = 'exploration'
ANCHORS = ['bitcoinlib/transactions.py', 'bitcoinlib/keys.py']
RULE = ('per generated transaction (1-3 inputs of the eight buildable kinds, m-of-n with n<=4, thorough n<=7): signer '
        'subsets below/at/above threshold in random orders with repeated signers and re-signing; then each single-field '
        'tampering of the signed object (every output value +-1, one byte of every output script, every outpoint txid '
        'byte-flip/index, every sequence, locktime, version, every input amount, foreign-key signature substitution, '
        'input declared for address A signed by key B) and of the serialised bytes before Transaction.parse (r/s/DER/hash-type '
        'byte flips per signature, dropped signature, swapped signatures, foreign signature, pubkey substitution, plus the '
        'field tamperings). Non-trivial = distinct (input kind, m, n, tampering kind, mode) where the untampered transaction verified')
TRUSTED_BASE = ['vf/refs/tx.py spend verifier (self-checked on BIP143 vectors and a mainnet spend)', 'vf/refs/secp256k1.py']
ASSUMPTIONS = ['tampering a legacy input amount is not required to be detected (legacy digests do not commit to it)',
               're-parsed P2PK spends carry no key; completeness after re-parse is not demanded for P2PK',
               'a refusal (exception) from verify() counts as False']

K_FOREIGN_KEY = 'C02/verify/declared-hash-not-compared-with-signing-key'
K_HASHTYPE_IGNORED = 'C02/verify/signature-hashtype-byte-ignored'
K_RESIGN_DUP = 'C02/sign/resign-duplicates-signature'
K_P2PK_RESIGN = 'C02/resign/p2pk-scriptsig-not-refreshed'


def registry(spec):
    return [txgen.prevout_of(i) for i in spec['ins']]


def ref_valid(raw, pos, amounts):
    """-> (all_valid, per-input results)"""
    try:
        p = rtx.parse(raw)
    except Exception as e:
        return False, ['unparsable: %r' % (e,)]
    if len(p['ins']) != len(pos):
        return False, ['input count changed']
    res = [rtx.verify_input(p, k, pos[k]['spk'], amounts[k]) for k in range(len(pos))]
    return all(r.ok for r in res), res


def lib_verify(t):
    try:
        return bool(t.verify()), None
    except Exception as e:
        return False, repr(e)[:200]


def judge(col, case, label, t, pos, nontriv, demand_false=False, skip_completeness=False):
    """Compare the library verdict on object t with the reference verdict on t.raw()."""
    col.probe('verdicts')
    try:
        raw = t.raw()
    except Exception as e:
        # cannot even serialise: only a problem if the library nevertheless says valid
        v, _ = lib_verify(t)
        if v:
            col.violation(None, '[%s] verify() is True but raw() raises %r' % (label, e), case, True, False)
        return None
    amounts = [int(i.value or 0) for i in t.inputs]
    rv, res = ref_valid(raw, pos, amounts)
    lv, exc = lib_verify(t)
    col.case('verdict/%s/%s' % (label.split(':')[0], 'valid' if rv else 'invalid'), nontrivial=nontriv + (label.split(':')[0],))
    if lv and not rv:
        col.violation(_classify_unsound(label), '[%s] UNSOUND: library verify() is True, reference says invalid: %s'
                      % (label, [getattr(r, 'reason', r) for r in res if not getattr(r, 'ok', False)][:2]),
                      dict(case, label=label), {'lib': lv, 'raw': raw.hex()[:1500]}, {'ref': False})
    elif rv and not lv and not skip_completeness:
        col.violation(None, '[%s] INCOMPLETE: reference says every input is a valid spend, library verify() is False (%s)'
                      % (label, exc), dict(case, label=label), {'lib': lv, 'raw': raw.hex()[:1500]}, {'ref': True})
    if demand_false and rv:
        # the tampering is one the signatures commit to; the reference itself must see it
        col.note_inconclusive('oracle self-consistency: tampering %s left the reference verdict valid' % label)
    return rv


def _classify_unsound(label):
    if label.startswith('declared-A-signed-B'):
        return K_FOREIGN_KEY
    return None


# ------------------------------------------------------------------ phases
def phase_signers(col, case, spec, pos, rnd):
    """signer subsets, orders, duplicates, re-signing"""
    network = spec['network']
    ms = [k for k, i in enumerate(spec['ins']) if i['kind'] in txgen.MS_KINDS]
    if not ms:
        return
    idx = rnd.choice(ms)
    inp = spec['ins'][idx]
    n, m = len(inp['secrets']), inp['m']
    subsets = []
    for size in range(0, n + 1):
        combos = list(itertools.combinations(range(n), size))
        rnd.shuffle(combos)
        subsets += combos[:3]
    for sub in subsets:
        t = txgen.build(spec, private_in_inputs=False)
        order = list(sub)
        rnd.shuffle(order)
        # all other inputs fully signed
        for k, other in enumerate(spec['ins']):
            if k != idx:
                t.sign(txgen.lib_keys(other, network), index_n=k)
        keys = txgen.lib_keys(inp, network)
        dup = rnd.random() < 0.3 and order
        try:
            for j in order:
                t.sign([keys[j]], index_n=idx)
            if dup:
                t.sign([keys[order[0]]], index_n=idx)
            resigned = rnd.random() < 0.3 and bool(order)
            if resigned:
                t.sign([keys[order[-1]]], index_n=idx, replace_signatures=True)
        except Exception as e:
            col.violation(None, 'sign() with a listed key raised %r' % (e,), case, repr(e), None)
            continue
        label = 'signers:%d-of-%d-have-%d%s%s' % (m, n, len(sub), '-dup' if dup else '', '-resign' if resigned else '')
        rv = judge(col, case, label, t, pos, (inp['kind'], m, n, len(sub) >= m))
        if rv is not None and rv != (len(sub) >= m):
            key = None
            ders = [sg.as_der_encoded() for sg in t.inputs[idx].signatures]
            if resigned and len(set(ders)) < len(ders):
                key = K_RESIGN_DUP   # narrow: the re-sign call left the same signature in two slots
            col.violation(key, '[%s] after signing with %d distinct listed keys the serialised spend is %s'
                          % (label, len(sub), 'valid' if rv else 'invalid'), dict(case, label=label), rv, len(sub) >= m)


def object_tamperings(t, spec, rnd):
    """yield (label, mutator, demand_false) - each mutator changes exactly one committed field of the object"""
    for k, o in enumerate(t.outputs):
        yield 'out-value+1:%d' % k, (lambda tt, k=k: setattr(tt.outputs[k], 'value', tt.outputs[k].value + 1)), True
        if o.value > 0:
            yield 'out-value-1:%d' % k, (lambda tt, k=k: setattr(tt.outputs[k], 'value', tt.outputs[k].value - 1)), True
        if len(o.lock_script) > 2:
            pos = rnd.randrange(len(o.lock_script))

            def mut(tt, k=k, pos=pos):
                ls = bytearray(tt.outputs[k].lock_script)
                ls[pos] ^= 0x01
                tt.outputs[k].lock_script = bytes(ls)
            yield 'out-script-byte:%d' % k, mut, True
    for k, i in enumerate(t.inputs):
        bpos = rnd.randrange(32)

        def mut_txid(tt, k=k, bpos=bpos):
            b = bytearray(tt.inputs[k].prev_txid)
            b[bpos] ^= 0x80
            tt.inputs[k].prev_txid = bytes(b)
        yield 'in-txid-byte:%d' % k, mut_txid, True

        def mut_n(tt, k=k):
            v = (tt.inputs[k].output_n_int + 1) & 0xffffffff
            tt.inputs[k].output_n_int = v
            tt.inputs[k].output_n = v.to_bytes(4, 'big')
        yield 'in-index:%d' % k, mut_n, True
        yield 'in-sequence:%d' % k, (lambda tt, k=k: setattr(tt.inputs[k], 'sequence', tt.inputs[k].sequence ^ 1)), True
        segwit = spec['ins'][k]['kind'] in txgen.SEGWIT_KINDS
        yield ('in-amount-segwit:%d' if segwit else 'in-amount-legacy:%d') % k, \
            (lambda tt, k=k: setattr(tt.inputs[k], 'value', tt.inputs[k].value + 1)), segwit
        if segwit:
            # the amount becomes unknown (0): the digest cannot be built, the transaction must not verify
            yield 'in-amount-zero:%d' % k, (lambda tt, k=k: setattr(tt.inputs[k], 'value', 0)), True
    yield 'locktime', (lambda tt: setattr(tt, 'locktime', tt.locktime ^ 1)), True

    def mut_ver(tt):
        v = int.from_bytes(tt.version, 'big') ^ 2
        tt.version = v.to_bytes(4, 'big')
        tt.version_int = v
    yield 'version', mut_ver, True


def phase_object_tamper(col, case, spec, pos, rnd, t_signed):
    for label, mut, demand in object_tamperings(t_signed, spec, rnd):
        tt = copy.deepcopy(t_signed)
        try:
            mut(tt)
        except Exception as e:
            col.note_inconclusive('tamper %s could not be applied: %r' % (label, e))
            continue
        kind = spec['ins'][int(label.split(':')[1])]['kind'] if ':' in label and label.startswith('in-') else 'tx'
        judge(col, case, 'obj-' + label.split(':')[0] + ':' + label, tt, pos, (kind, 'obj'), demand_false=demand)


def phase_object_signature_tamper(col, case, spec, pos, rnd, t_signed):
    """replace / corrupt a signature *in the object* (inp.signatures) after a successful verify(), let the input rebuild its
    scripts, and verify again: state remembered from the first verification must not decide"""
    from bitcoinlib.keys import Signature
    for k, inp in enumerate(spec['ins']):
        tt = copy.deepcopy(t_signed)
        li = tt.inputs[k]
        if not li.signatures:
            continue
        j = rnd.randrange(min(len(li.signatures), max(1, li.sigs_required or 1)))   # only the first m signatures are serialised
        old = li.signatures[j]
        variant = rnd.choice(['foreign', 's+1'])
        try:
            if variant == 'foreign':
                fr, fs = ec.ecdsa_sign_with_k(rnd.getrandbits(256), txgen.rand_secret(rnd), txgen.rand_secret(rnd))
                if fs > ec.N // 2:
                    fs = ec.N - fs
                new = Signature(fr, fs, hash_type=old.hash_type)
            else:
                new = Signature(old.r, (old.s % (ec.N // 2 - 1)) + 1, hash_type=old.hash_type)
            li.signatures[j] = new
            li.update_scripts(hash_type=li.hash_type)
        except Exception as e:
            col.probe('object_sig_tamper_not_applicable')
            continue
        if inp['kind'] == 'p2pk':
            # P2PK inputs keep the scriptSig of the first signing pass (K_P2PK_RESIGN): the object then describes two different
            # spends (signature list vs serialised script), nothing to judge here
            col.probe('object_sig_tamper_p2pk_skipped')
            continue
        judge(col, case, 'obj-signature-%s:%d' % (variant, k), tt, pos, (inp['kind'], 'obj-sig', variant), demand_false=True)


def phase_modify_and_resign(col, case, spec, pos, rnd, t_signed):
    """change a committed field on the same object, sign again with the right keys: the result must verify and be valid"""
    network = spec['network']
    tt = copy.deepcopy(t_signed)
    mod = rnd.choice(['out_value', 'locktime', 'sequence'])
    try:
        if mod == 'out_value':
            tt.outputs[0].value = tt.outputs[0].value - 1 if tt.outputs[0].value > 0 else tt.outputs[0].value + 1
        elif mod == 'locktime':
            tt.locktime = (tt.locktime + 1) & 0xffffffff
        else:
            tt.inputs[0].sequence = (tt.inputs[0].sequence ^ 2) & 0xffffffff
        # stale signatures must not verify ...
        judge(col, case, 'modified-before-resign:%s' % mod, tt, pos, ('tx', 'modify', mod), demand_false=True)
        for idx, inp in enumerate(spec['ins']):
            tt.sign(txgen.lib_keys(inp, network), index_n=idx, replace_signatures=True)
    except Exception as e:
        col.violation(None, 're-signing after changing %s raised %r' % (mod, e), dict(case, label='resign:' + mod), repr(e), None)
        return
    # ... and after signing again with the right keys everything must be valid again
    col.probe('resign_verdicts')
    raw = tt.raw()
    rv, res = ref_valid(raw, pos, [int(i.value or 0) for i in tt.inputs])
    lv, exc = lib_verify(tt)
    kinds = [i['kind'] for i in spec['ins']]
    bad = [k for k, r in enumerate(res) if hasattr(r, 'ok') and not r.ok]
    col.case('verdict/resign/%s' % ('valid' if rv else 'invalid'), nontrivial=(tuple(sorted(kinds)), 'resign', mod))
    if not rv or not lv:
        key = None
        if lv and bad and all(kinds[k] == 'p2pk' for k in bad):
            key = K_P2PK_RESIGN   # narrow: only P2PK inputs keep the scriptSig of the first signing pass
        col.violation(key, '[resign:%s] after changing a field and signing again with the right keys: reference valid=%s, library verify()=%s (bad inputs %s)'
                      % (mod, rv, lv, [(k, kinds[k]) for k in bad]), dict(case, label='resign:' + mod), {'lib': lv, 'raw': raw.hex()[:1500]}, {'ref': True, 'lib': True})


def phase_foreign(col, case, spec, pos, rnd):
    """input declared for address/hash A (no key given), signed with key B"""
    from bitcoinlib.transactions import Transaction
    from bitcoinlib.keys import Key
    network = spec['network']
    for variant in ('public_hash', 'address'):
        kindsel = rnd.choice(['p2pkh', 'p2wpkh'])
        a = txgen.rand_secret(rnd)
        b = txgen.rand_secret(rnd)
        hA = ec.hash160(ec.pub_from_secret(a))
        value = 100000 + rnd.randrange(1000)
        txid = '%064x' % rnd.getrandbits(256)
        t = Transaction(network=network, witness_type='segwit')
        wt = 'legacy' if kindsel == 'p2pkh' else 'segwit'
        try:
            if variant == 'public_hash':
                t.add_input(txid, 0, public_hash=hA, value=value, witness_type=wt, script_type='sig_pubkey')
            else:
                addr = chain.address_base58(network, 'p2pkh', hA) if kindsel == 'p2pkh' else chain.address_segwit(network, 0, hA)
                t.add_input(txid, 0, address=addr, value=value, witness_type=wt)
            t.add_output(value - 1000, address=chain.address_base58(network, 'p2pkh', b'\x11' * 20))
            t.sign([Key('%064x' % b, network=network)])
        except Exception:
            col.case('foreign/refused-at-sign', nontrivial=('foreign', variant, kindsel, 'refused'))
            continue
        spk = chain.script_p2pkh(hA) if kindsel == 'p2pkh' else chain.script_witness(0, hA)
        p1 = [{'spk': spk, 'amount': value}]
        judge(col, dict(case, foreign={'variant': variant, 'kind': kindsel, 'a': '%064x' % a, 'b': '%064x' % b, 'txid': txid, 'value': value}),
              'declared-A-signed-B:%s:%s' % (variant, kindsel), t, p1, (kindsel, 'foreign', variant))


# ---- raw-level tampering followed by Transaction.parse
def sig_locations(p, k, kind):
    """where signatures / pubkeys live in parsed input k: list of ('script'|'wit', item index)"""
    i = p['ins'][k]
    locs = []
    if kind in ('p2wpkh', 'p2sh_p2wpkh'):
        locs = [('wit', 0)]
    elif kind in ('p2wsh_ms', 'p2sh_p2wsh_ms'):
        locs = [('wit', j) for j in range(1, len(i['wit']) - 1)]
    else:
        items = rtx.push_only_items(i['script'])
        if kind in ('p2pkh', 'p2pkh_u'):
            locs = [('script', 0)]
        elif kind == 'p2pk':
            locs = [('script', 0)]
        else:
            locs = [('script', j) for j in range(1, len(items) - 1)]
    return locs


def set_item(p, k, loc, newval):
    i = p['ins'][k]
    if loc[0] == 'wit':
        i['wit'][loc[1]] = newval
    else:
        items = rtx.push_only_items(i['script'])
        items[loc[1]] = newval
        i['script'] = b''.join(b'\x00' if it == b'' else codec.push_data(it) for it in items)


def get_item(p, k, loc):
    i = p['ins'][k]
    if loc[0] == 'wit':
        return i['wit'][loc[1]]
    return rtx.push_only_items(i['script'])[loc[1]]


def raw_tamperings(p0, spec, rnd):
    """yield (label, tampered parsed tx)"""
    for k, inp in enumerate(spec['ins']):
        kind = inp['kind']
        locs = sig_locations(p0, k, kind)
        for li, loc in enumerate(locs[:3]):
            sig = get_item(p0, k, loc)
            if len(sig) < 9:
                continue
            lr = sig[3]
            muts = {
                'sig-r-byte': bytes(sig[:4 + lr - 1]) + bytes([sig[4 + lr - 1] ^ 1]) + bytes(sig[4 + lr:]),
                'sig-s-byte': bytes(sig[:-2]) + bytes([sig[-2] ^ 1]) + bytes(sig[-1:]),
                'sig-hashtype': bytes(sig[:-1]) + bytes([sig[-1] ^ 2]),
                'sig-hashtype-00': bytes(sig[:-1]) + b'\x00',
                'sig-der-len': bytes(sig[:1]) + bytes([sig[1] ^ 1]) + bytes(sig[2:]),
                'sig-truncated': bytes(sig[:-3]) + bytes(sig[-1:]),
            }
            # foreign signature: valid DER by another key over some other digest
            fr, fs = ec.ecdsa_sign_with_k(rnd.getrandbits(256), txgen.rand_secret(rnd), txgen.rand_secret(rnd))
            if fs > ec.N // 2:
                fs = ec.N - fs
            muts['sig-foreign'] = ec.der_encode(fr, fs) + b'\x01'
            hb = rnd.choice([0x02, 0x04, 0x41, 0x80, 0x81, 0x82, 0x83, 0xff])
            muts['sig-hashtype-%02x' % hb] = bytes(sig[:-1]) + bytes([hb])
            for name, newsig in muts.items():
                p = copy.deepcopy(p0)
                set_item(p, k, loc, newsig)
                yield 'raw-%s:%d' % (name, k), p
        if len(locs) >= 2:
            p = copy.deepcopy(p0)
            a, b = get_item(p0, k, locs[0]), get_item(p0, k, locs[1])
            if a != b:
                set_item(p, k, locs[0], b)
                set_item(p, k, locs[1], a)
                yield 'raw-sig-swap:%d' % k, p
        if kind in txgen.MS_KINDS and len(locs) >= 1:
            # drop one signature (m-1 signatures)
            p = copy.deepcopy(p0)
            i = p['ins'][k]
            if locs[0][0] == 'wit':
                del i['wit'][locs[0][1]]
            else:
                items = rtx.push_only_items(i['script'])
                del items[locs[0][1]]
                i['script'] = b''.join(b'\x00' if it == b'' else codec.push_data(it) for it in items)
            yield 'raw-sig-dropped:%d' % k, p
        if kind in ('p2pkh', 'p2pkh_u', 'p2wpkh', 'p2sh_p2wpkh'):
            # substitute the public key by another valid key
            p = copy.deepcopy(p0)
            other = ec.pub_from_secret(txgen.rand_secret(rnd), inp['compressed'])
            set_item(p, k, ('wit', 1) if kind in ('p2wpkh', 'p2sh_p2wpkh') else ('script', 1), other)
            yield 'raw-pubkey-subst:%d' % k, p
    # field tamperings on the bytes
    for k in range(len(p0['outs'])):
        p = copy.deepcopy(p0)
        p['outs'][k]['value'] += 1
        yield 'raw-out-value:%d' % k, p
        if len(p0['outs'][k]['script']) > 2:
            p = copy.deepcopy(p0)
            s = bytearray(p['outs'][k]['script'])
            s[-2] ^= 0x01
            p['outs'][k]['script'] = bytes(s)
            yield 'raw-out-script:%d' % k, p
    for k in range(len(p0['ins'])):
        p = copy.deepcopy(p0)
        p['ins'][k]['seq'] ^= 1
        yield 'raw-sequence:%d' % k, p
        p = copy.deepcopy(p0)
        b = bytearray(p['ins'][k]['txid'])
        b[rnd.randrange(32)] ^= 0x10
        p['ins'][k]['txid'] = bytes(b)
        yield 'raw-outpoint-txid:%d' % k, p
        p = copy.deepcopy(p0)
        p['ins'][k]['n'] ^= 1
        yield 'raw-outpoint-n:%d' % k, p
    p = copy.deepcopy(p0)
    p['locktime'] ^= 1
    yield 'raw-locktime', p
    p = copy.deepcopy(p0)
    p['version'] ^= 2
    yield 'raw-version', p


def parse_and_verify(raw, spec, amounts):
    """library side of the parse mode: Transaction.parse, re-supply amounts, verify"""
    from bitcoinlib.transactions import Transaction
    t = Transaction.parse(raw, network=spec['network'])
    for k, inp in enumerate(t.inputs):
        inp.value = amounts[k]
    return t


def phase_raw_tamper(col, case, spec, pos, rnd, raw_signed):
    amounts = [i['value'] for i in spec['ins']]
    has_p2pk = any(i['kind'] == 'p2pk' for i in spec['ins'])
    p0 = rtx.parse(raw_signed)
    cases = [('raw-untampered', p0)] + list(raw_tamperings(p0, spec, rnd))
    for label, p in cases:
        raw = rtx.serialize(p)
        col.probe('parse_mode_verdicts')
        rv, res = ref_valid(raw, pos, amounts)
        try:
            t = parse_and_verify(raw, spec, amounts)
            lv, exc = lib_verify(t)
        except Exception as e:
            lv, exc = False, 'parse raised %r' % (e,)
        if not rv and any(i['kind'] in txgen.SEGWIT_KINDS for i in spec['ins']):
            # the same damaged bytes verified WITHOUT re-supplying the input amounts must not verify either
            try:
                from bitcoinlib.transactions import Transaction
                lv0, _ = lib_verify(Transaction.parse(raw, network=spec['network']))
            except Exception:
                lv0 = False
            col.probe('parse_mode_no_amounts')
            if lv0:
                col.violation(None, '[%s] UNSOUND after parse without input amounts: library verify() True, reference invalid' % label,
                              dict(case, label=label), {'lib': True, 'raw': raw.hex()[:1500]}, {'ref': False})
        on_input = ':' in label and not label.startswith('raw-out-')
        kind = spec['ins'][int(label.split(':')[1])]['kind'] if on_input else 'tx'
        col.case('verdict/%s/%s' % (label.split(':')[0], 'valid' if rv else 'invalid'), nontrivial=(kind, 'parse', label.split(':')[0]))
        if lv and not rv:
            col.violation(K_HASHTYPE_IGNORED if label.startswith('raw-sig-hashtype') else None,
                          '[%s] UNSOUND after parse: library verify() True, reference invalid: %s'
                          % (label, [r.reason for r in res if hasattr(r, 'ok') and not r.ok][:2]), dict(case, label=label),
                          {'lib': True, 'raw': raw.hex()[:1500]}, {'ref': False})
        elif rv and not lv and not has_p2pk:
            col.violation(None, '[%s] INCOMPLETE after parse: reference valid, library verify() False (%s)' % (label, exc),
                          dict(case, label=label), {'lib': False, 'raw': raw.hex()[:1500]}, {'ref': True})
        if label != 'raw-untampered' and rv and not label.startswith('raw-sig-swap'):
            # every listed raw tampering changes something the signatures commit to (or the signature itself)
            col.note_inconclusive('oracle self-consistency: %s left the reference verdict valid' % label)


def run_case(case, col):
    spec = case['spec']
    rnd = random.Random(case.get('rseed', 0))
    pos = registry(spec)
    network = spec['network']
    try:
        t = txgen.build(spec, private_in_inputs=True, route=case.get('route', 'add_input'))
        t.sign()
        raw = t.raw()
    except Exception as e:
        col.violation(None, 'building/signing a standard transaction raised %r' % (e,), case, repr(e), None)
        return
    kinds = tuple(sorted(i['kind'] for i in spec['ins']))
    base = judge(col, case, 'signed', t, pos, (kinds, 'base'))
    if not base:
        col.violation(None, 'fully signed transaction is not valid for the reference (see C01)', case, base, True)
        return
    phase_signers(col, case, spec, pos, rnd)
    phase_object_tamper(col, case, spec, pos, rnd, t)
    phase_object_signature_tamper(col, case, spec, pos, rnd, t)
    phase_modify_and_resign(col, case, spec, pos, rnd, t)
    phase_raw_tamper(col, case, spec, pos, rnd, raw)
    if case.get('foreign', True):
        phase_foreign(col, case, spec, pos, rnd)


def replay(case, col):
    selfcheck(col)
    case = dict(case)
    case.pop('label', None)
    run_case(case, col)


def selfcheck(col):
    try:
        ec.selfcheck(); codec.selfcheck(); chain.selfcheck(); rtx.selfcheck()
        return True
    except Exception as e:
        col.note_inconclusive('reference self-check failed: %r' % (e,))
        return False


def plan(tier, seed, scale=1.0):
    thorough = tier == 'thorough'
    nshard = 16
    n = int((15000 if thorough else 320) * scale)
    return [{'shard': i, 'nshard': nshard, 'n_tx': max(1, n // nshard), 'max_n': 7 if thorough else 4} for i in range(nshard)]


def run_shard(spec, col):
    if not selfcheck(col):
        return
    col.require('verdicts', 20)
    col.require('parse_mode_verdicts', 20)
    col.require('resign_verdicts', 5)
    rnd = random.Random('%s-%d-%d' % (ID, spec['seed'], spec['shard']))
    for k in range(spec['n_tx']):
        s = txgen.gen_spec(rnd, n_in=rnd.choice([1, 1, 2, 3]), n_out=rnd.choice([1, 2, 3]), max_n=spec['max_n'])
        for o in s['outs']:
            if o['kind'] == 'nulldata':
                o['value'] = 0
        case = {'spec': s, 'rseed': rnd.getrandbits(32)}
        if rnd.random() < 0.3 and sum(i['value'] for i in s['ins']) > sum(o['value'] for o in s['outs']):
            case['route'] = 'objects'     # Input / Output objects handed to the Transaction constructor
        run_case(case, col)
