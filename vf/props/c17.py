"""C17 - amount conversion is exact to the smallest unit.

Monitor shape: reference-model comparator. The harness drives the real conversion functions
(`value_to_satoshi`, `Value(...)`, `Value.from_satoshi(n).str(...)`, `Output`, `Input`, `Transaction.add_output`,
`update_totals`, `calculate_fee`) and an exact model (integer / `fractions.Fraction` arithmetic on the decimal
string and an own table of metric prefixes) judges every result. Violations are recorded, never raised.
"""
import re
import random
from fractions import Fraction as F

ID = 'C17'
LEVEL = 'exploration'
ANCHORS = ['bitcoinlib/values.py', 'bitcoinlib/transactions.py', 'bitcoinlib/config/config.py']
DEPS = ()
RULE = ('amounts n (smallest units): every integer of [0, 10^6] and [21e14-10^6, 21e14] (thorough; striped sample '
        'windows in quick), random integers of every decimal magnitude, neighbours (+-3) of multiples of 10^k and of '
        'a*10^k; each rendered exactly as a decimal string in every denominator symbol (20) x currency code (9) with '
        '0..8 decimals (minimal / padded / zero-extended renderings), plus sub-unit strings with up to 14 decimals; '
        'directions: parse (value_to_satoshi / Value(str), with and without network argument), from_satoshi(n[, den]), '
        'format with DEFAULT decimals (denominator named by symbol / number / the Value\'s own denominator, amounts with all digits '
        'non-zero; exact format->parse demanded wherever one unit needs <= 8 decimals), '
        'format (str(den, decimals) judged numerically), format->parse round trip, numeric constructor Value(k, den) '
        'and float literals, Output/Input/add_output value forms and transaction totals; unit-carrying strings x every '
        '`denominator=` display argument (symbol and numeric form, incl. sat / 1e-8 / 1 / m / µ) judged on value_sat and all integer '
        'views; sequences of 2-4 conversions in one process whose texts differ only in prefix case (m/M, p/P ...), currency-code '
        'case or whitespace, in shuffled order through value_to_satoshi / Value / Input; non-trivial = distinct '
        '(direction, magnitude class, denominator, currency code, rendering)')
TRUSTED_BASE = ['exact integer and fractions.Fraction arithmetic on decimal strings (python stdlib)',
                'own table of metric prefixes (SI; bitcoin wiki Units: sat = 1e-8, fin = 1e-7, msat = 1e-11, usat = 1e-14)',
                'currency codes per network pinned from tree 074a788 (library-defined: TST, tBTC, sBTC, rBTC, XLT, tDOGE); '
                'BTC/LTC/DOGE with 8 decimals are the coins\' own definitions']
ASSUMPTIONS = ['total supply bound 21e14 smallest units is used for every network (amounts above it are not judged)',
               'an amount that is not a whole number of smallest units may be rounded either way (floor or ceil of the exact value); '
               'being a full unit off is a violation',
               'a formatted string is judged numerically: it must denote the amount with an error below one smallest unit when the '
               'requested decimals can express one unit; with default/auto decimals it must be a correct rounding to the printed digits',
               'a negative or oversized amount may be refused as late as Transaction.raw(); any raised exception is a refusal',
               'an integral float (e.g. 1000.0) stored in Output.value is tolerated as integer-valued; numpy integers are integers']
EXHAUSTIVE = ['thorough tier: every integer of [0, 10^6] and of [21e14-10^6, 21e14] through parse(sat), parse(8-decimal coin string), '
              'from_satoshi and format->parse', 'every denominator symbol x every currency code']

TOP = 21 * 10 ** 14
UNIT_EXP = -8        # smallest unit = 10^-8 coin on every supported network
DEN_EXP = {'µsat': -14, 'msat': -11, 'n': -9, 'sat': -8, 'fin': -7, 'µ': -6, 'm': -3, 'c': -2, 'd': -1, '': 0, 'da': 1, 'h': 2,
           'k': 3, 'M': 6, 'G': 9, 'T': 12, 'P': 15, 'E': 18, 'Z': 21, 'Y': 24}
SYMS = list(DEN_EXP)
NETCODES = {'bitcoin': 'BTC', 'testnet': 'tBTC', 'testnet4': 'tBTC', 'signet': 'sBTC', 'regtest': 'rBTC', 'litecoin': 'LTC',
            'litecoin_legacy': 'LTC', 'litecoin_testnet': 'XLT', 'dogecoin': 'DOGE', 'dogecoin_testnet': 'tDOGE',
            'bitcoinlib_test': 'TST'}
CODES = sorted(set(NETCODES.values()))

K_FLOAT_PARSE = 'C17/parse/prefixed-denominator-float-product-off-by-one'
K_DECA = 'C17/parse/deca-prefix-shadowed-by-deci'
K_TERA = 'C17/parse/tera-prefix-read-as-testnet-currency-code'
K_FROMSAT = 'C17/from_satoshi/denominator-float-quotient-off-by-one'
K_FMT_SUBSAT = 'C17/format/sub-satoshi-denominator-float-digits'
K_SHARED_CODE = 'C17/parse/currency-code-shared-by-two-networks-refused'
K_AUTO_ZERO = 'C17/format/auto-denominator-zero-amount-raises'
K_FMT_FLOAT = 'C17/format/prefixed-denominator-float-digits-off-by-one'
K_RT_SUBUNIT = 'C17/roundtrip/float-digits-below-the-unit-round-to-neighbour'
K_ADD_VALUE = 'C17/add_output/value-object-truncated-to-whole-coins'
K_OUT_FLOAT = 'C17/output/fractional-float-kept-and-truncated-in-raw'


def networks_for(code):
    return [n for n, c in NETCODES.items() if c == code]


# ------------------------------------------------------------------ exact model
def render(n, e, style='min', extra=0):
    """Exact decimal string of n smallest units expressed in the denominator 10^e coin."""
    sh = UNIT_EXP - e          # amount = n * 10^sh  denominator units
    if sh >= 0:
        s = str(n * 10 ** sh)
        if style == 'pad' and extra:
            s += '.' + '0' * extra
        return s
    q = 10 ** (-sh)
    whole, frac = divmod(n, q)
    fs = '%0*d' % (-sh, frac)
    if style == 'min':
        fs = fs.rstrip('0')
    elif style == 'pad':
        fs += '0' * extra
    s = '%d' % whole
    if fs:
        s += '.' + fs
    if style == 'lead0':
        s = '00' + s
    return s


def dec_fraction(text):
    """Exact value of a plain decimal string ([-]digits[.digits])."""
    t = text.strip()
    neg = t.startswith('-')
    if neg or t.startswith('+'):
        t = t[1:]
    whole, _, frac = t.partition('.')
    if not (whole or frac) or not (whole + frac).isdigit():
        raise ValueError('not a plain decimal: %r' % text)
    v = F(int(whole or '0') * 10 ** len(frac) + int(frac or '0'), 10 ** len(frac))
    return -v if neg else v


def sci_fraction(text):
    """Exact value of '<plain decimal>e[+-]<digits>' (independent of the library and of fractions' own parser)."""
    mant, _, ex = text.replace('E', 'e').partition('e')
    neg = ex.startswith('-')
    if ex[:1] in '+-':
        ex = ex[1:]
    if not ex.isdigit():
        raise ValueError('not a scientific spelling: %r' % text)
    k = int(ex)
    return dec_fraction(mant) / F(10) ** k if neg else dec_fraction(mant) * F(10) ** k


def sci_spelling(num, rnd):
    """A scientific-notation spelling of the non-negative plain decimal string `num` (same exact value)."""
    k = rnd.choice([rnd.randrange(-12, 21), rnd.choice([-20, -10, 10, 20, 0, 1, -1, 7, 8, 9, 11])])
    mant = shift_decimal(num, -k)
    if rnd.random() < 0.3 and '.' not in mant:
        mant += '.' + '0' * rnd.randrange(1, 3)
    elif rnd.random() < 0.2 and '.' in mant:
        mant += '0' * rnd.randrange(1, 3)
    sign = '-' if k < 0 else rnd.choice(['', '', '+'])
    return '%se%s%d' % (mant, sign, abs(k))


def exact_units(number_text, sym):
    """Exact number of smallest units (a Fraction) denoted by '<number> <sym><code>'."""
    return dec_fraction(number_text) * F(10) ** (DEN_EXP[sym] - UNIT_EXP)


def mag_class(n):
    if n == 0:
        return 'zero'
    if n >= TOP - 10 ** 6:
        return 'top-window'
    if n <= 10 ** 6:
        return 'low-window-%d' % len(str(n))
    return '1e%d' % (len(str(n)) - 1)


def is_intlike(v):
    import numbers
    if isinstance(v, bool):
        return False
    if isinstance(v, numbers.Integral):
        return True
    try:
        import numpy
        return isinstance(v, numpy.integer)
    except Exception:
        return False


class Tally:
    """Local case counter flushed into the collector once (keeps per-case overhead low in the exhaustive windows)."""

    def __init__(self, col):
        self.col = col
        self.c = {}

    def add(self, cls, ident, sample):
        k = (cls, ident)
        ent = self.c.get(k)
        if ent is None:
            self.c[k] = [1, sample]
        else:
            ent[0] += 1

    def flush(self):
        for (cls, ident), (n, sample) in self.c.items():
            self.col.case(cls, nontrivial=ident, sample=sample, n=n)
        self.c = {}


# ------------------------------------------------------------------ library access
def lib_parse(text, network=None):
    """-> ('ok', int, network_name) | ('exc', repr, None)"""
    from bitcoinlib.values import Value, value_to_satoshi
    try:
        got = value_to_satoshi(text, network=network) if network else value_to_satoshi(text)
        v = Value(text, network=network) if network else Value(text)
        return 'ok', got, v.network.name
    except Exception as e:
        return 'exc', '%s: %s' % (type(e).__name__, str(e)[:120]), None


# ------------------------------------------------------------------ checks
def chk_parse(case, col, tally=None):
    """case: {'kind':'parse', 'num': decimal string, 'sym': symbol, 'code': currency code or '', 'network': name or None}"""
    num, sym, code, net = case['num'], case['sym'], case['code'], case.get('network')
    spelled = case.get('spelled') or num       # the number as written (scientific notation of the same decimal when given)
    text = spelled if not (sym or code) else '%s %s%s' % (spelled, sym, code)
    exact = exact_units(num, sym)
    if case.get('spelled') and sci_fraction(spelled) != dec_fraction(num):
        col.note_inconclusive('harness: scientific spelling %r does not denote %r' % (spelled, num))
        return True
    whole = exact.denominator == 1
    n = int(exact) if whole else None
    cls = 'parse/%s/%s' % ('whole' if whole else 'sub-unit', sym or 'unit')
    if case.get('spelled'):
        cls += '/sci'
    ident = ('parse', mag_class(int(exact)), sym, code, case.get('style', ''), bool(net), whole)
    if case.get('spelled'):
        m = re.match(r'^[^eE]*[eE]([+-]?)(\d+)$', spelled)
        ident += ('.' in spelled, m.group(1), m.group(2)[-1] == '0', len(m.group(2)))
    if tally is not None:
        tally.add(cls, ident, case)
    else:
        col.case(cls, nontrivial=ident, sample=case)
    col.probe('parse')
    st, got, gnet = lib_parse(text, net)
    if st == 'ok' and is_intlike(got):
        good = (got == n) if whole else (exact.__floor__() <= got <= exact.__ceil__())
        cands = networks_for(code) if code else ([net] if net else ['bitcoin'])
        net_ok = gnet in cands
        if good and net_ok:
            return True
    key = _classify_parse(case, st, got, gnet, exact)
    if st == 'exc':
        desc = 'parsing %r raised %s' % (text, got)
    elif not is_intlike(got):
        desc = 'parsing %r returned a %s, not an integer' % (text, type(got).__name__)
    else:
        desc = 'parsing %r gives %s smallest units on %s, exact is %s' % (text, got, gnet, n if whole else float(exact))
    col.violation(key, desc, case, {'value': got, 'network': gnet}, {'value': n if whole else [exact.__floor__(), exact.__ceil__()],
                                                                     'networks': networks_for(code) if code else None})
    return False


def shift_decimal(num, e):
    """Exact decimal string of num * 10^e (num a plain non-negative decimal string)."""
    whole, _, frac = num.partition('.')
    digits = (whole + frac).lstrip('0') or '0'
    point = len(digits) - len(frac) + e if digits != '0' else 1       # position of the decimal point inside `digits`
    if digits == '0':
        return '0'
    if point <= 0:
        out = '0.' + '0' * (-point) + digits
    elif point >= len(digits):
        out = digits + '0' * (point - len(digits))
    else:
        out = digits[:point] + '.' + digits[point:]
    if '.' in out:
        out = out.rstrip('0').rstrip('.')
    return out


def _classify_parse(case, st, got, gnet, exact):
    """Narrow predicates + feature ablation (network argument resp. denominator prefix is the neutralised feature)."""
    sym, code, net = case['sym'], case['code'], case.get('network')
    whole = exact.denominator == 1
    text = case['num'] if not (sym or code) else '%s %s%s' % (case['num'], sym, code)
    shadow = [nn for nn, c in NETCODES.items() if c.upper() == ('T' + code).upper()] if (sym == 'T' and code) else []
    if st == 'exc' and net and shadow and net in networks_for(code) and ('(%s)' % shadow[0]) in str(got) \
            and 'Value uses different network' in str(got):
        base = lib_parse('%s %s' % (shift_decimal(case['num'], DEN_EXP[sym]), code), networks_for(code)[0])
        if base[0] == 'ok' and exact.__floor__() <= base[1] <= exact.__ceil__():
            return K_TERA          # same mechanism, surfacing as a refusal because a network was requested
        return None
    if st == 'exc' and net and 'Value uses different network' in str(got):
        # feature: the network argument. LTC and tBTC are each the code of two networks; the text (or, without a code, the
        # requested network's own code) is attributed to the first one and then refused for not being the requested one.
        code_eff = code or NETCODES.get(net, '')
        first = networks_for(code_eff)[0]
        if net in networks_for(code_eff) and net != first and ('(%s)' % first) in str(got):
            h = lib_parse(text, first)
            if h[0] == 'ok' and h[2] == first:      # the refusal heals; the amount itself is judged by the unrefused cases
                return K_SHARED_CODE
        return None
    if sym in ('', 'sat') or not code or case['num'].startswith('-'):
        return None            # plain base cases are never absorbed
    # ablation of the prefix: the same amount written in the plain coin unit must parse exactly
    base = lib_parse('%s %s' % (shift_decimal(case['num'], DEN_EXP[sym]), code))
    if not (base[0] == 'ok' and is_intlike(base[1]) and exact.__floor__() <= base[1] <= exact.__ceil__() and base[2] in networks_for(code)):
        return None
    if st == 'exc':
        if sym == 'da' and 'Currency symbol not recognised' in str(got):
            return K_DECA
        return None
    if shadow:
        # 'TBTC' / 'TDOGE' are matched case-insensitively as the testnet currency code before the prefix is split off
        as_coins = dec_fraction(case['num']) * 10 ** 8
        if gnet in shadow and is_intlike(got) and as_coins.__floor__() <= got <= as_coins.__ceil__():
            return K_TERA
        return None
    # one unit beyond the admissible result(s): n +- 1 for a whole amount, floor - 1 or ceil + 1 for a finer one
    if is_intlike(got) and got in (exact.__floor__() - 1, exact.__ceil__() + 1) and exact >= 2 ** 50 and gnet in networks_for(code):
        return K_FLOAT_PARSE
    return None


def chk_from_sat(case, col, tally=None):
    """case: {'kind':'from_sat', 'n': int, 'den': symbol | None | 'num:<sym>', 'network': name}"""
    from bitcoinlib.values import Value
    n, den, net = int(case['n']), case.get('den'), case.get('network', 'bitcoin')
    sym = den[4:] if isinstance(den, str) and den.startswith('num:') else den
    cls = 'from_sat/%s' % ('default' if den is None else (sym or 'unit'))
    ident = ('from_sat', mag_class(n), den, net)
    if tally is not None:
        tally.add(cls, ident, case)
    else:
        col.case(cls, nontrivial=ident, sample=case)
    col.probe('from_satoshi')
    try:
        if den is None:
            v = Value.from_satoshi(n, network=net)
        elif den.startswith('num:'):
            e = DEN_EXP[sym]
            v = Value.from_satoshi(n, 10 ** e if e >= 0 else float('1e%d' % e), net)
        else:
            v = Value.from_satoshi(n, den, net)
        got = v.value_sat
    except Exception as e:
        col.violation(None, 'Value.from_satoshi(%d, %r, %r).value_sat raised %r' % (n, den, net, e), case, repr(e), n)
        return None
    if is_intlike(got) and got == n:
        return v
    key = None
    if den is not None and sym not in ('sat', '') and is_intlike(got) and abs(got - n) == 1 and n >= 2 ** 50:
        try:
            healed = Value.from_satoshi(n, network=net).value_sat == n and Value.from_satoshi(n, '', net).value_sat == n
        except Exception:
            healed = False
        if healed:
            key = K_FROMSAT
    col.violation(key, 'Value.from_satoshi(%d, %r).value_sat = %r' % (n, den, got), case, got, n)
    return v


def _split_text(text):
    parts = text.split()
    return parts[0], (parts[1] if len(parts) > 1 else '')


def chk_format(case, col, tally=None):
    """case: {'kind':'format', 'n': int, 'den': symbol or 'auto' or None, 'decimals': int or None, 'network': name,
              'build': 'default'|'sat'|'den'}  - format, judge the text numerically, then parse it back."""
    from bitcoinlib.values import Value, value_to_satoshi
    n, den, dec, net = int(case['n']), case.get('den'), case.get('decimals'), case.get('network', 'bitcoin')
    code = NETCODES[net]
    cls = 'format/%s/%s' % (den if den in ('auto', None) else (den or 'unit'), 'explicit-decimals' if dec is not None else 'default-decimals')
    ident = ('format', mag_class(n), den, dec is None, net, case.get('build'), case.get('den_form', 'sym'))
    if tally is not None:
        tally.add(cls, ident, case)
    else:
        col.case(cls, nontrivial=ident, sample=case)
    col.probe('format')
    try:
        dform = case.get('den_form', 'sym')     # how the denominator is named: symbol, number, or the Value's own denominator
        if (case.get('build') == 'den' or dform == 'own') and den not in (None, 'auto'):
            v = Value.from_satoshi(n, den, net)
        elif case.get('build') == 'str':
            v = Value('%s %s' % (render(n, 0), code))
        else:
            v = Value.from_satoshi(n, network=net)
        if den is None or (dform == 'own' and den != 'auto'):
            text = v.str() if dec is None else v.str(decimals=dec)
        elif dform == 'num' and den != 'auto':
            e_ = DEN_EXP[den]
            text = v.str(10 ** e_ if e_ >= 0 else float('1e%d' % e_), dec)
        elif den == '':
            text = v.str(1, dec) if dec is not None else v.str_unit()
        elif den == 'auto':
            text = v.str_auto() if dec is None else v.str('auto', dec)
        else:
            text = v.str(den, dec)
    except Exception as e:
        key = None
        if n == 0 and den == 'auto' and 'Denominator not found' in str(e):
            try:
                if v.str(1, dec).split()[0].strip('0.') == '':      # the same zero amount formats with an explicit denominator
                    key = K_AUTO_ZERO
            except Exception:
                pass
        col.violation(key, 'formatting %d smallest units (den=%r, decimals=%r, %s) raised %r' % (n, den, dec, net, e), case, repr(e), 'text')
        return
    # --- numeric judgement of the text
    try:
        num, unit = _split_text(text)
        val = dec_fraction(num)
        # unit = <symbol><code>; bitcoin prints 'sat' without a code
        sym = None
        for s in sorted(SYMS, key=len, reverse=True):
            rest = unit[len(s):] if unit.startswith(s) else None
            if rest is not None and (rest == code or (rest == '' and 'sat' in s and net == 'bitcoin')):
                sym = s
                break
        if sym is None:
            raise ValueError('unit %r is not <symbol>%s' % (unit, code))
    except Exception as e:
        col.violation(None, 'formatted text %r cannot be read as <decimal> <symbol><code>: %s' % (text, e), case, text, 'decimal text')
        return
    if den not in (None, 'auto') and sym != den:
        col.violation(None, 'formatted text %r does not use the requested denominator %r' % (text, den), case, text, den)
        return
    e = DEN_EXP[sym]
    printed = len(num.partition('.')[2])
    amount = val * F(10) ** (e - UNIT_EXP)            # in smallest units
    can_express_unit = printed >= max(0, e - UNIT_EXP)      # one smallest unit is representable in the printed digits
    # off by less than one smallest unit, or (when fewer digits are printed) a correct rounding to the printed digits
    ok = abs(amount - n) < 1 or abs(amount - n) <= F(1, 2) * F(10) ** (e - UNIT_EXP - printed)
    if not ok:
        key = None
        if abs(amount - n) == 1 and n >= 2 ** 50 and sym not in ('', 'sat'):
            try:
                if case.get('build') == 'den' and \
                        exact_units(Value.from_satoshi(n, network=net).str(den, dec).split()[0], sym) == n:
                    # ablation of the construction: built through from_satoshi(n) instead of from_satoshi(n, den) the same
                    # amount prints exactly, so the float quotient inside from_satoshi(n, den) is what is off
                    key = K_FROMSAT
                elif dec_fraction(v.str(1, 8).split()[0]) * 10 ** 8 == n:
                    # ablation of the denominator: the plain coin unit with 8 decimals prints the amount exactly
                    key = K_FMT_FLOAT
            except Exception:
                pass
        col.violation(key, 'formatting %d smallest units gives %r (= %s units)' % (n, text, float(amount)), case, text, render(n, e))
        return
    # --- round trip. Meaningful when the printed digits can express one unit. With DEFAULT decimals that is demanded wherever
    # the denominator can express one smallest unit in 8 or fewer decimals (sub-unit denominators, sat ... whole coin): there the
    # default text has to carry the amount to the unit, so format -> parse must return n. (Larger prefixes are capped at 8
    # decimals by design and 'auto' chooses denominator and digits for readability: both stay judged numerically only.)
    default_must_roundtrip = dec is None and den != 'auto' and max(0, e - UNIT_EXP) <= 8
    if default_must_roundtrip:
        col.probe('default_decimals_roundtrip')
    if not can_express_unit and not default_must_roundtrip:
        return
    col.probe('roundtrip')
    try:
        back = value_to_satoshi(text)
        bnet = Value(text).network.name
    except Exception as ex:
        k = None
        if sym == 'da' and 'Currency symbol not recognised' in str(ex):
            k = K_DECA
        col.violation(k, 'parsing the formatted text %r raised %r' % (text, ex), case, repr(ex), n)
        return
    if back == n and bnet in networks_for(code):
        return
    k = None
    if sym == 'T' and ('T' + code).upper() in [c.upper() for c in CODES] and bnet in [nn for nn, c in NETCODES.items() if c.upper() == ('T' + code).upper()]:
        k = K_TERA
    elif not can_express_unit:
        k = None       # too few default decimals: not one of the float mechanisms (those have all digits of the unit printed)
    elif sym not in ('', 'sat') and is_intlike(back) and abs(back - n) == 1 and n >= 2 ** 50 and bnet in networks_for(code):
        try:
            if case.get('build') == 'den' and value_to_satoshi(Value.from_satoshi(n, network=net).str(den, dec)) == n:
                k = K_FROMSAT          # ablation of the construction through from_satoshi(n, den)
            elif amount == n:
                # the text is exact, the parser is one unit off; ablation of the prefix: the plain coin unit parses exactly
                plain = lib_parse('%s %s' % (render(n, 0), code))
                if plain[0] == 'ok' and plain[1] == n:
                    k = K_FLOAT_PARSE
            elif amount.__floor__() <= back <= amount.__ceil__() and \
                    value_to_satoshi(Value.from_satoshi(n, network=net).str(1, 8)) == n:
                # the text carries wrong digits below the smallest unit (still less than one unit off) and the parser, correctly,
                # rounds them to the neighbouring integer; ablation of the denominator: str(1, 8) round-trips
                k = K_RT_SUBUNIT
        except Exception:
            pass
    col.violation(k, 'format -> parse: %d -> %r -> %r on %s%s' % (
        n, text, back, bnet, '' if can_express_unit else ' (default decimals: %d printed, %d needed for one smallest unit)' % (printed, e - UNIT_EXP)),
        case, {'value': back, 'network': bnet}, n)


def chk_numeric(case, col, tally=None):
    """case: {'kind':'numeric', 'k': decimal string, 'sym': symbol, 'as': 'int'|'float'|'symnum', 'network': name}
    Value(k, denominator): k units of the denominator."""
    from bitcoinlib.values import Value
    ktxt, sym, how, net = case['k'], case['sym'], case['as'], case.get('network', 'bitcoin')
    exact = exact_units(ktxt, sym)
    if how == 'float' and len((ktxt.replace('.', '')).strip('0')) > 15:
        # a literal with more than 15 significant digits is not identified by its double: the amount handed to the library is
        # the binary value of the float, judged with the either-way rounding rule
        exact = F(float(ktxt)) * F(10) ** (DEN_EXP[sym] - UNIT_EXP)
    whole = exact.denominator == 1
    cls = 'numeric/%s/%s' % (how, sym or 'unit')
    ident = ('numeric', mag_class(int(exact)), sym, how, net, whole)
    if tally is not None:
        tally.add(cls, ident, case)
    else:
        col.case(cls, nontrivial=ident, sample=case)
    col.probe('numeric_constructor')
    try:
        k = float(ktxt) if how == 'float' else int(ktxt)
        e = DEN_EXP[sym]
        den = sym if how != 'symnum' else (10 ** e if e >= 0 else float('1e%d' % e))
        if sym == '' and how != 'symnum':
            den = None
        got = Value(k, den, net).value_sat
    except Exception as ex:
        col.violation(None, 'Value(%s, %r).value_sat raised %r' % (ktxt, sym, ex), case, repr(ex), float(exact))
        return
    ok = is_intlike(got) and ((got == int(exact)) if whole else (exact.__floor__() <= got <= exact.__ceil__()))
    if not ok:
        key = None
        n = int(exact)
        if whole and sym not in ('', 'sat') and is_intlike(got) and abs(got - n) == 1 and n >= 2 ** 50:
            try:
                if Value.from_satoshi(n, network=net).value_sat == n:
                    key = K_FLOAT_PARSE
            except Exception:
                pass
        col.violation(key, 'Value(%s, %r).value_sat = %r, exact %s' % (ktxt, sym, got, float(exact)), case, got,
                      int(exact) if whole else [exact.__floor__(), exact.__ceil__()])


ADDR = {'bitcoin': '1BvBMSEYstWetqTFn5Au4m4GFg7xJaNVN2', 'litecoin': 'LVg2kJoFNg45Nbpy53h7Fe1wKyeXVRhMH9',
        'testnet': 'mipcBbFg9gMiCh81Kj8tqqdgoZub1ZJRfn'}


def _mk_value(spec, net):
    """Build the value argument from its JSON description -> (python value, exact Fraction of smallest units or None = must refuse)"""
    from bitcoinlib.values import Value
    form, a = spec['form'], spec['arg']
    code = NETCODES[net]
    if form == 'int':
        return int(a), F(int(a))
    if form == 'npint':
        import numpy
        return numpy.int64(int(a)), F(int(a))
    if form == 'float':
        return float(a), F(float(a))
    if form == 'str':          # '<num> <sym>' + code
        num, sym = a
        return ('%s %s%s' % (num, sym, code)), exact_units(num, sym)
    if form == 'Value':
        num, sym = a
        return Value('%s %s%s' % (num, sym, code)), exact_units(num, sym)
    raise ValueError(form)


def chk_output(case, col, tally=None):
    """case: {'kind':'output', 'api': 'Output'|'add_output'|'Input', 'value': {'form':..., 'arg':...}, 'network': name}
    Accepted amounts must be stored as non-negative integers equal to the exact amount and serialise as such."""
    from bitcoinlib.transactions import Transaction, Output, Input
    net = case.get('network', 'bitcoin')
    api = case['api']
    spec = case['value']
    try:
        val, exact = _mk_value(spec, net)
    except Exception as e:
        col.violation(None, 'building the amount argument %r raised %r' % (spec, e), case, repr(e), 'amount')
        return
    whole = exact.denominator == 1
    # an amount that can be placed in an output: a whole number of units that fits the 8-byte field. No maximum-money
    # rule is demanded (the statement bounds the *conversion* claim by the supply, it does not ask for a supply check).
    legit = whole and 0 <= exact < 2 ** 64
    kind = 'legit' if legit else ('negative' if exact < 0 else ('fractional' if not whole else 'oversized'))
    if legit and exact > TOP:
        kind = 'legit-above-supply'
    cls = 'output/%s/%s/%s' % (api, spec['form'], kind)
    ident = ('output', api, spec['form'], kind, mag_class(abs(int(exact))), net, spec['arg'][1] if spec['form'] in ('str', 'Value') else '')
    if tally is not None:
        tally.add(cls, ident, case)
    else:
        col.case(cls, nontrivial=ident, sample=case)
    col.probe('output_value')
    stage = 'construct'
    stored = None
    raw_amount = None
    try:
        if api == 'Output':
            o = Output(val, address=ADDR[net], network=net)
            stored = o.value
            t = Transaction(network=net, witness_type='legacy')
            t.outputs.append(o)
        elif api == 'Input':
            i = Input(prev_txid=b'\x11' * 32, output_n=0, value=val, network=net)
            stored = i.value
            t = None
        else:
            t = Transaction(network=net, witness_type='legacy')
            t.add_output(val, ADDR[net])
            stored = t.outputs[0].value
        if t is not None:
            stage = 'raw'
            raw = t.raw()
            # legacy layout: version(4) | n_in = 00 | n_out = 01 | amount(8, little endian)
            if raw[4:6] != b'\x00\x01':
                col.note_inconclusive('unexpected raw layout of a one-output transaction: %s' % raw[:16].hex())
                return
            raw_amount = int.from_bytes(raw[6:14], 'little')
    except Exception as e:
        if legit and (api != 'add_output' or spec['form'] in ('int', 'npint')):
            # documented forms of a legitimate amount must be accepted
            col.violation(None, '%s refused the legitimate amount %r at %s: %r' % (api, spec, stage, e), case, repr(e), int(exact))
        else:
            col.probe('output_refusals')
        return
    # accepted (constructed and, for outputs, serialised)
    intval = is_intlike(stored) or (isinstance(stored, float) and stored.is_integer())
    if legit and intval and stored == exact and (raw_amount is None or raw_amount == exact):
        return
    if kind == 'fractional' and spec['form'] in ('str', 'Value') and is_intlike(stored) \
            and exact.__floor__() <= stored <= exact.__ceil__() and stored >= 0 and (raw_amount is None or raw_amount == stored):
        col.probe('output_fractional_text_rounded')      # a textual amount finer than the unit, rounded to a neighbouring integer
        return
    key = None
    if api == 'add_output' and spec['form'] == 'Value' and is_intlike(stored):
        coins = dec_fraction(spec['arg'][0]) * F(10) ** DEN_EXP[spec['arg'][1]]
        if abs(stored - coins) <= 1 and stored != exact and exact == coins * 10 ** 8 and exact > 2 * (stored + 1):
            key = K_ADD_VALUE          # int(Value) = whole coins (float-truncated), placed as that many smallest units
    elif api in ('Output', 'Input') and spec['form'] in ('str', 'Value') and legit and is_intlike(stored) and abs(stored - exact) == 1 \
            and exact >= 2 ** 50 and spec['arg'][1] not in ('', 'sat') and (raw_amount is None or raw_amount == stored):
        # same mechanism as the parse finding, reached through Output/Input: ablation = the plain coin unit
        try:
            o2 = Output('%s %s' % (render(int(exact), 0), NETCODES[net]), address=ADDR[net], network=net)
            if o2.value == exact:
                key = K_FLOAT_PARSE
        except Exception:
            pass
    elif api in ('Output', 'Input') and spec['form'] == 'float' and not whole and isinstance(stored, float) and stored == float(spec['arg']) \
            and (raw_amount is None or raw_amount == int(stored)):
        key = K_OUT_FLOAT              # value_to_satoshi passes numbers through; raw() truncates with int()
    if not legit and api == 'Input' and kind in ('negative', 'oversized'):
        # an Input value is the amount of the output being spent (data about the chain, never serialised in the
        # legacy format); storing it unchanged is not an amount placed in an output
        col.probe('input_unchecked_amounts')
        return
    col.violation(key, '%s accepted %r: stored %r (%s), serialised amount %r, exact amount %s' % (
        api, spec, stored, type(stored).__name__, raw_amount, int(exact) if whole else float(exact)), case,
        {'stored': stored if is_intlike(stored) else repr(stored), 'type': type(stored).__name__, 'raw_amount': raw_amount},
        int(exact) if legit else 'refusal')


def chk_totals(case, col, tally=None):
    """case: {'kind':'totals', 'ins': [int...], 'outs': [int...], 'fee_per_kb': int}"""
    from bitcoinlib.transactions import Transaction
    ins, outs = [int(x) for x in case['ins']], [int(x) for x in case['outs']]
    cls = 'totals/%s' % ('fee>=0' if sum(ins) >= sum(outs) else 'overspend')
    ident = ('totals', len(ins), len(outs), mag_class(sum(ins)), sum(ins) >= sum(outs))
    if tally is not None:
        tally.add(cls, ident, case)
    else:
        col.case(cls, nontrivial=ident, sample=case)
    col.probe('totals')
    try:
        t = Transaction(network='bitcoin')
        for j, v in enumerate(ins):
            t.add_input(prev_txid=bytes([j + 1]) * 32, output_n=j, value=v, address=ADDR['bitcoin'])
        for v in outs:
            t.add_output(v, ADDR['bitcoin'])
        t.update_totals()
        got = (t.input_total, t.output_total, t.fee)
        t.fee_per_kb = case.get('fee_per_kb', 1000)
        cf = t.calculate_fee()
    except Exception as e:
        col.violation(None, 'building a transaction with integer amounts raised %r' % (e,), case, repr(e), 'totals')
        return
    exp = (sum(ins), sum(outs), sum(ins) - sum(outs))
    if not all(is_intlike(x) for x in got) or tuple(got) != exp:
        if not (sum(ins) == 0 and got[:2] == exp[:2]):       # fee is left untouched when nothing is known about the inputs
            col.violation(None, 'update_totals gives %r, exact %r' % (got, exp), case, list(got), list(exp))
    if not is_intlike(cf) or cf < 0:
        col.violation(None, 'calculate_fee() = %r is not a non-negative integer' % (cf,), case, repr(cf), 'non-negative int')


# ------------------------------------------------------------------ unit-carrying strings x display denominator argument
def _den_arg(spec):
    """JSON description of the `denominator=` argument -> (python value, exponent of the display denominator or None)"""
    if spec is None:
        return None, None
    if spec.startswith('num:'):
        e = DEN_EXP[spec[4:]]
        return (10 ** e if e >= 0 else float('1e%d' % e)), e
    return spec, DEN_EXP[spec]


def _judge_int(got, exact):
    return is_intlike(got) and exact.__floor__() <= got <= exact.__ceil__()


def chk_display(case, col, tally=None):
    """case: {'kind':'display', 'num', 'sym', 'code', 'den': None | symbol | 'num:<symbol>', 'network': name or None}
    The text carries its own unit; `denominator=` only chooses how the amount is displayed. value_sat and every integer view of
    the object (to_bytes, to_hex, __index__, hex(), value_to_satoshi(Value), Output/Input(Value)) must be the exact amount."""
    import operator
    from bitcoinlib.values import Value, value_to_satoshi
    from bitcoinlib.transactions import Output, Input
    num, sym, code, net, dspec = case['num'], case['sym'], case['code'], case.get('network'), case.get('den')
    text = '%s %s%s' % (num, sym, code)
    exact = exact_units(num, sym)
    whole = exact.denominator == 1
    dsym = None if dspec is None else (dspec[4:] if dspec.startswith('num:') else dspec)
    same_as_unit = dsym is not None and DEN_EXP[dsym] == UNIT_EXP
    cls = 'display/%s/as-%s' % (sym or 'unit', 'none' if dspec is None else (dsym or 'unit'))
    ident = ('display', mag_class(int(exact)), sym, dspec, code, bool(net), whole)
    if tally is not None:
        tally.add(cls, ident, case)
    else:
        col.case(cls, nontrivial=ident, sample=case)
    col.probe('display_denominator')
    den, dexp = _den_arg(dspec)
    views = {}
    try:
        v = Value(text, den, network=net) if net else Value(text, den)
        views['value_sat'] = v.value_sat
        views['to_bytes'] = int.from_bytes(v.to_bytes(), 'little')
        views['to_hex'] = int.from_bytes(bytes.fromhex(v.to_hex()), 'little')
        views['__index__'] = operator.index(v)
        views['hex()'] = int(hex(v), 16)
        views['value_to_satoshi(Value)'] = value_to_satoshi(v)
        vnet = v.network.name
        if vnet in ADDR:
            views['Output(Value)'] = Output(v, address=ADDR[vnet], network=vnet).value
        else:
            views['Input(Value)'] = Input(prev_txid=b'\x11' * 32, output_n=0, value=v, network=vnet).value
        shown = Fraction_of(v.denominator)
        stext = v.str()
    except Exception as e:
        col.violation(None, 'Value(%r, denominator=%r) or one of its integer views raised %r (views so far %r)' % (text, den, e, views),
                      case, repr(e), int(exact) if whole else float(exact))
        return
    bad = {k: g for k, g in views.items() if not _judge_int(g, exact)}
    if not bad and len(set(views.values())) > 1 and whole:
        bad = views
    if bad or vnet not in networks_for(code):
        try:
            plain = Value(text).value_sat
        except Exception as e:
            plain = repr(e)
        col.violation(None, 'Value(%r, denominator=%r)%s: %s; exact amount %s on %s; without the denominator argument value_sat = %r' % (
            text, den, ' [display denominator = smallest unit]' if same_as_unit else '', bad or ('network %s' % vnet),
            int(exact) if whole else float(exact), networks_for(code), plain), case, {k: (g if is_intlike(g) else repr(g)) for k, g in views.items()},
            int(exact) if whole else [exact.__floor__(), exact.__ceil__()])
        return
    want = F(10) ** (dexp if dexp is not None else DEN_EXP[sym])
    if shown != want:
        col.violation(None, 'Value(%r, denominator=%r).denominator = %r, expected %s' % (text, den, v.denominator, float(want)), case,
                      repr(v.denominator), float(want))
        return
    # the default text shows the same amount (numerically; fewer printed digits than a unit needs are a correct rounding)
    col.probe('display_text')
    try:
        tnum, tunit = _split_text(stext)
        ccode = NETCODES[vnet]
        tsym = None
        for s_ in sorted(SYMS, key=len, reverse=True):
            rest = tunit[len(s_):] if tunit.startswith(s_) else None
            if rest is not None and (rest == ccode or (rest == '' and 'sat' in s_ and vnet == 'bitcoin')):
                tsym = s_
                break
        amount = dec_fraction(tnum) * F(10) ** (DEN_EXP[tsym] - UNIT_EXP)
        printed = len(tnum.partition('.')[2])
        ok = DEN_EXP[tsym] == (dexp if dexp is not None else DEN_EXP[sym]) and (
            abs(amount - exact) < 1 or abs(amount - exact) <= F(1, 2) * F(10) ** (DEN_EXP[tsym] - UNIT_EXP - printed))
    except Exception as e:
        ok = False
        stext = '%s (%r)' % (stext, e)
    if not ok and exact < 2 ** 50:      # above 2^50 the printed digits are subject to the open float findings of format
        col.violation(None, 'Value(%r, denominator=%r).str() = %r does not show the amount %s in the requested denominator' % (
            text, den, stext, float(exact)), case, stext, render(int(exact), dexp if dexp is not None else DEN_EXP[sym]) if whole else float(exact))


def Fraction_of(x):
    return F(str(x)) if isinstance(x, float) else F(x)


# ------------------------------------------------------------------ order dependence inside one process
def chk_order(case, col, tally=None):
    """case: {'kind':'order', 'steps': [{'text', 'num', 'sym' (listed symbol or None), 'code', 'api', 'network'}]}
    Texts that differ only in the case of the prefix, the case of the currency code or in whitespace are converted one after the
    other in this process; every result is judged on its own against the exact model (prefixes are case-sensitive: m = milli,
    M = mega; currency codes are not). A spelling whose prefix is not a listed symbol is converted but not judged."""
    from bitcoinlib.values import Value, value_to_satoshi
    from bitcoinlib.transactions import Input
    steps = case['steps']
    shape = tuple((st['variant'], st['api']) for st in steps)
    cls = 'order/%s' % '+'.join(sorted({st['variant'] for st in steps}))
    ident = ('order', shape, steps[0]['sym'], steps[0]['code'])
    if tally is not None:
        tally.add(cls, ident, case)
    else:
        col.case(cls, nontrivial=ident, sample=case)
    history = []
    for i, st in enumerate(steps):
        text, api, net = st['text'], st['api'], st.get('network')
        try:
            if api == 'v2s':
                got = value_to_satoshi(text)
            elif api == 'v2s-net':
                got = value_to_satoshi(text, network=net)
            elif api == 'Value':
                got = Value(text).value_sat
            else:
                got = Input(prev_txid=b'\x22' * 32, output_n=0, value=text, network=net).value
        except Exception as e:
            got = 'raised %s: %s' % (type(e).__name__, str(e)[:80])
        history.append('%s(%r) -> %s' % (api, text, got))
        if st['sym'] is None:
            col.probe('order_unlisted_spelling')
            continue
        exact = exact_units(st['num'], st['sym'])
        if exact > TOP:
            col.probe('order_above_supply')
            continue
        col.probe('order_step')
        if _judge_int(got, exact):
            continue
        try:
            direct = Value(text).value_sat
        except Exception as e:
            direct = repr(e)
        whole = exact.denominator == 1
        col.violation(None, 'conversion %d of a sequence in one process: %s(%r) = %r, exact %s; Value(text).value_sat now gives %r; '
                      'conversions so far: %s' % (i + 1, api, text, got, int(exact) if whole else float(exact), direct, ' ; '.join(history)),
                      dict(case, failed_step=i), got if is_intlike(got) else repr(got), int(exact) if whole else [exact.__floor__(), exact.__ceil__()])
        return


CODE_UPPER = {c.upper() for c in NETCODES.values()}


def gen_display(rnd):
    sym = rnd.choice([s_ for s_ in SYMS if s_ != 'T'])
    code = rnd.choice(CODES)
    n = gen_amount(rnd)
    num = render(n, DEN_EXP[sym], rnd.choice(['min', 'min', 'full']))
    if rnd.random() < 0.08 and DEN_EXP[sym] > UNIT_EXP:
        num = render(n, DEN_EXP[sym], 'full') + rnd.choice('1579')       # finer than the unit
    r = rnd.random()
    if r < 0.45:
        dspec = rnd.choice(['sat', 'num:sat', '', 'num:', 'm', 'num:m', 'µ', 'num:µ'])
    elif r < 0.55:
        dspec = None
    else:
        dsym = rnd.choice(SYMS)
        dspec = rnd.choice([dsym, 'num:' + dsym])
    net = rnd.choice(networks_for(code)) if rnd.random() < 0.3 else None
    return {'kind': 'display', 'num': num, 'sym': sym, 'code': code, 'den': dspec, 'network': net}


def gen_order(rnd):
    sym = rnd.choice(['m', 'M', 'm', 'M', 'P', 'G', 'k', 'µ', 'n', 'c', 'd', 'da', 'h', 'E', 'Z', 'Y', 'sat', 'fin', 'msat', 'µsat', ''])
    code = rnd.choice(CODES)
    net = networks_for(code)[0]
    n = gen_amount(rnd)
    num = render(n, DEN_EXP[sym], rnd.choice(['min', 'full']))
    variants = [('base', sym, code, ' ')]
    if sym:
        sw = sym.swapcase()
        if sw != sym and (sw + code).upper() not in CODE_UPPER:
            variants.append(('prefix-case', sw, code, ' '))
            variants.append(('prefix-case', sw, code, ' '))
    variants.append(('code-case', sym, rnd.choice([code.lower(), code.upper(), code.swapcase()]), ' '))
    variants.append(('whitespace', sym, code, rnd.choice(['  ', '\t', '   '])))
    variants.append(('whitespace', sym, code, 'pad'))
    k = rnd.choice([2, 2, 3, 4])
    chosen = rnd.sample(variants, min(k, len(variants)))
    if rnd.random() < 0.6 and len(variants) > 2 and variants[1][0] == 'prefix-case' and variants[1] not in chosen:
        chosen[0] = variants[1]
        if variants[0] not in chosen:
            chosen[-1] = variants[0]
        rnd.shuffle(chosen)
    steps = []
    for variant, s_, c_, sep in chosen:
        if (s_ + c_).upper() in CODE_UPPER and s_:
            continue          # the spelling would be another network's currency code
        text = (' %s %s%s  ' % (num, s_, c_)) if sep == 'pad' else '%s%s%s%s' % (num, sep, s_, c_)
        steps.append({'variant': variant, 'text': text, 'num': num, 'sym': s_ if s_ in DEN_EXP else None, 'code': code,
                      'api': rnd.choice(['v2s', 'v2s', 'v2s-net', 'Value', 'Input']), 'network': net})
    if len(steps) < 2:
        return None
    return {'kind': 'order', 'steps': steps}


CHECKS = {'parse': chk_parse, 'from_sat': chk_from_sat, 'format': chk_format, 'numeric': chk_numeric, 'output': chk_output,
          'totals': chk_totals, 'display': chk_display, 'order': chk_order}


def run_case(case, col, tally=None):
    CHECKS[case['kind']](case, col, tally)


# ------------------------------------------------------------------ generators
def gen_amount(rnd):
    c = rnd.random()
    if c < 0.20:
        return rnd.randrange(TOP + 1)
    if c < 0.35:
        return TOP - rnd.randrange(10 ** 6 + 1)
    if c < 0.45:
        return rnd.randrange(10 ** 6 + 1)
    if c < 0.65:
        return rnd.randrange(10 ** rnd.randrange(1, 16))
    if c < 0.85:       # adjacent to multiples of 10^k and to a*10^k
        k = rnd.randrange(1, 16)
        a = rnd.choice([1, 1, 2, 5, 9, 21, rnd.randrange(1, 2100)])
        return max(0, min(TOP, a * 10 ** k // rnd.choice([1, 1, 10]) + rnd.randrange(-3, 4)))
    # binary boundaries (where the spacing of doubles changes)
    k = rnd.randrange(20, 51)
    return max(0, min(TOP, 2 ** k + rnd.randrange(-3, 4)))


def gen_parse(rnd, n=None):
    n = gen_amount(rnd) if n is None else n
    sym = rnd.choice(SYMS)
    code = rnd.choice(CODES)
    style = rnd.choice(['min', 'min', 'full', 'pad', 'lead0'])
    num = render(n, DEN_EXP[sym], style, rnd.randrange(1, 4))
    netarg = None
    r = rnd.random()
    if r < 0.25:
        netarg = rnd.choice(networks_for(code))
    elif r < 0.35 and sym in ('', 'sat'):
        # no currency code in the text: the network argument (or the default network) decides
        return {'kind': 'parse', 'num': num, 'sym': sym, 'code': '', 'network': rnd.choice([None] + list(NETCODES)), 'style': style}
    case = {'kind': 'parse', 'num': num, 'sym': sym, 'code': code, 'network': netarg, 'style': style}
    if style in ('min', 'full') and rnd.random() < 0.3:
        case['spelled'] = sci_spelling(num, rnd)
        case['style'] = style + '-sci'
    return case


def gen_subunit(rnd):
    """Decimal strings finer than the smallest unit: down to 1e-14 coin, written in any denominator."""
    sym = rnd.choice(SYMS)
    e = DEN_EXP[sym]
    whole_units = rnd.choice([0, 0, rnd.randrange(0, 10 ** 6), gen_amount(rnd)])
    total = whole_units * 10 ** 6 + rnd.randrange(1, 10 ** 6)        # amount in 1e-14 coin, not a whole unit in general
    if rnd.random() < 0.3:
        total -= total % 10 ** rnd.randrange(1, 6)                    # fewer significant decimals
    if total > TOP * 10 ** 6:
        return None
    sh = -14 - e                                                      # amount = total * 10^sh denominator units
    if sh >= 0:
        num = str(total * 10 ** sh)
    else:
        w, f = divmod(total, 10 ** (-sh))
        fs = ('%0*d' % (-sh, f)).rstrip('0')
        num = '%d' % w + ('.' + fs if fs else '')
    return {'kind': 'parse', 'num': num, 'sym': sym, 'code': rnd.choice(CODES), 'network': None, 'style': 'subunit'}


def gen_nonzero(rnd):
    """An amount whose decimal digits are all non-zero (every printed position matters), up to the supply."""
    while True:
        L = rnd.randrange(1, 17)
        n = int(''.join(rnd.choice('123456789') for _ in range(L)))
        if n <= TOP:
            return n


def gen_format_default(rnd, n=None, sym=None, dform=None):
    """formatting WITHOUT a decimals argument, denominator named by symbol / number / the Value's own denominator"""
    n = gen_nonzero(rnd) if n is None else n
    sym = rnd.choice(SYMS) if sym is None else sym
    dform = rnd.choice(['sym', 'num', 'own']) if dform is None else dform
    net = rnd.choice(list(NETCODES))
    build = 'den' if dform == 'own' else rnd.choice(['default', 'default', 'str'])
    if build == 'str':
        net = networks_for(NETCODES[net])[0]
    return {'kind': 'format', 'n': n, 'den': sym, 'decimals': None, 'network': net, 'build': build, 'den_form': dform}


def gen_from_sat(rnd, n=None):
    n = gen_amount(rnd) if n is None else n
    r = rnd.random()
    if r < 0.3:
        den = None
    elif r < 0.85:
        den = rnd.choice(SYMS)
    else:
        den = 'num:' + rnd.choice(SYMS)
    return {'kind': 'from_sat', 'n': n, 'den': den, 'network': rnd.choice(list(NETCODES))}


def gen_format(rnd, n=None):
    n = gen_amount(rnd) if n is None else n
    r = rnd.random()
    net = rnd.choice(list(NETCODES))
    build = rnd.choice(['default', 'default', 'den', 'str'])
    if r < 0.70:
        den = rnd.choice(SYMS)
        dec = max(0, DEN_EXP[den] - UNIT_EXP) + rnd.choice([0, 0, 0, 1, 3])
    elif r < 0.80:
        den, dec = rnd.choice(SYMS), None
    elif r < 0.90:
        den, dec = 'auto', None
    else:
        den, dec = None, None
    if build == 'str':
        net = networks_for(NETCODES[net])[0]
    return {'kind': 'format', 'n': n, 'den': den, 'decimals': dec, 'network': net, 'build': build}


def gen_numeric(rnd):
    sym = rnd.choice(SYMS)
    e = DEN_EXP[sym]
    how = rnd.choice(['int', 'int', 'float', 'symnum'])
    n = gen_amount(rnd)
    if how == 'float':
        # float literal with at most 8 decimals of a coin, written in the denominator
        ktxt = render(n, e, 'min')
    else:
        # whole number of denominator units
        unit = 10 ** max(0, e - UNIT_EXP)
        ktxt = str(n // unit) if e >= UNIT_EXP else str(n * 10 ** (UNIT_EXP - e))
    if how == 'symnum' and '.' in ktxt:
        how = 'float'
    return {'kind': 'numeric', 'k': ktxt, 'sym': sym, 'as': 'float' if '.' in ktxt and how == 'int' else how,
            'network': rnd.choice(list(NETCODES))}


def gen_output(rnd):
    api = rnd.choice(['Output', 'Output', 'add_output', 'add_output', 'Input'])
    net = rnd.choice(list(ADDR))
    n = gen_amount(rnd)
    r = rnd.random()
    if r < 0.30:
        spec = {'form': 'int', 'arg': str(rnd.choice([n, n, n, -n - 1, -1, 2 ** 63 - 1 + rnd.randrange(3), 2 ** 64 - 1 + rnd.randrange(3), TOP + 1]))}
    elif r < 0.40:
        spec = {'form': 'npint', 'arg': str(rnd.choice([n, n, -1 - n % 1000]))}
    elif r < 0.55:
        spec = {'form': 'float', 'arg': repr(rnd.choice([float(n), float(n), n + 0.5, 0.5, 1.5, n % 10 ** 6 + 0.25, -1.0, float(n % 10 ** 6) + 0.999]))}
    else:
        sym = rnd.choice([s for s in SYMS if s not in ('T', 'da')])      # those two prefixes cannot be parsed (judged under parse)
        num = render(n, DEN_EXP[sym], rnd.choice(['min', 'full']))
        if rnd.random() < 0.15:
            num = '-' + num
        elif rnd.random() < 0.1 and DEN_EXP[sym] > UNIT_EXP:
            num = render(n, DEN_EXP[sym], 'full') + '5'          # half a unit more: a textual amount finer than the unit
        spec = {'form': rnd.choice(['str', 'Value']), 'arg': [num, sym]}
    return {'kind': 'output', 'api': api, 'value': spec, 'network': net}


def gen_totals(rnd):
    nin, nout = rnd.randrange(0, 4), rnd.randrange(1, 4)
    ins = [gen_amount(rnd) // 4 for _ in range(nin)]
    outs = [gen_amount(rnd) // 4 for _ in range(nout)]
    if rnd.random() < 0.7 and ins:
        tot = sum(ins)
        outs = []
        for _ in range(nout):
            v = rnd.randrange(0, tot + 1)
            outs.append(v)
            tot -= v
    return {'kind': 'totals', 'ins': [str(x) for x in ins], 'outs': [str(x) for x in outs], 'fee_per_kb': rnd.choice([1, 1000, 5000, 12345, 10 ** 6])}


# ------------------------------------------------------------------ plan / shards / replay
def plan(tier, seed, scale=1.0):
    thorough = tier == 'thorough'
    nshard = 16
    out = []
    for i in range(nshard):
        out.append({'shard': i, 'nshard': nshard,
                    'window': 10 ** 6,
                    # quick: every `stride`-th integer of the two windows, phase chosen by seed and shard
                    'stride': 1 if thorough else 25,
                    'n_random': int((260000 if thorough else 12000) * scale),
                    'n_output': int((6000 if thorough else 500) * scale),
                    'n_display': int((40000 if thorough else 1500) * scale),
                    'n_order': int((20000 if thorough else 700) * scale),
                    'n_totals': int((1500 if thorough else 120) * scale)})
    return out


def _window_cases(n, rnd, k):
    """The fixed battery applied to every integer of the exhaustive windows (5 conversions)."""
    yield {'kind': 'parse', 'num': str(n), 'sym': 'sat', 'code': '', 'network': None, 'style': 'window'}
    yield {'kind': 'parse', 'num': render(n, 0, 'full'), 'sym': '', 'code': 'BTC', 'network': None, 'style': 'window'}
    yield {'kind': 'from_sat', 'n': n, 'den': None, 'network': 'bitcoin'}
    yield {'kind': 'format', 'n': n, 'den': '', 'decimals': 8, 'network': 'bitcoin', 'build': 'default'}
    # one rotating extra direction so that the other denominators also see every residue class over the window
    sym = SYMS[k % len(SYMS)]
    if k % 3 == 0:
        yield {'kind': 'parse', 'num': render(n, DEN_EXP[sym], 'min'), 'sym': sym, 'code': CODES[(k // 3) % len(CODES)], 'network': None,
               'style': 'window-rot'}
    elif k % 3 == 1:
        yield {'kind': 'from_sat', 'n': n, 'den': sym, 'network': 'litecoin'}
    else:
        yield {'kind': 'format', 'n': n, 'den': sym, 'decimals': max(0, DEN_EXP[sym] - UNIT_EXP), 'network': 'dogecoin', 'build': 'default'}


def selfcheck():
    assert render(123456789, 0) == '1.23456789' and render(123456789, 0, 'full') == '1.23456789'
    assert render(100000000, 0) == '1' and render(100000000, 0, 'full') == '1.00000000'
    assert render(5, -11) == '5000' and render(1500, 3) == '0.000000015'
    assert render(TOP, 0, 'full') == '21000000.00000000'
    assert exact_units('21000000', '') == TOP and exact_units('1', 'sat') == 1 and exact_units('1.5', 'msat') == F(3, 2000)
    assert exact_units('0.001', 'k') == 10 ** 8 and exact_units('1', 'fin') == 10 and exact_units('1', 'µ') == 100
    for s in SYMS:
        for n in (0, 1, 99999999, 100000000, TOP - 1, TOP):
            for st in ('min', 'full', 'pad', 'lead0'):
                assert exact_units(render(n, DEN_EXP[s], st, 2), s) == n
    assert dec_fraction('-0.5') == F(-1, 2) and dec_fraction('007.250') == F(29, 4)
    for num, e in (('1.5', 3), ('1.5', -3), ('0.00012', 2), ('0.00012', 6), ('120', -1), ('120', -5), ('0', 4), ('0.000', -2), ('007.250', 1)):
        assert dec_fraction(shift_decimal(num, e)) == dec_fraction(num) * F(10) ** e, (num, e, shift_decimal(num, e))
    return True


def run_shard(spec, col):
    try:
        selfcheck()
    except Exception as e:
        col.note_inconclusive('exact-model self-check failed: %r' % (e,))
        return
    from bitcoinlib.networks import NETWORK_DEFINITIONS
    from bitcoinlib.config.config import NETWORK_DENOMINATORS
    # change detectors for the pinned tables (the model itself does not use the library's values)
    lib_codes = {n: d.get('currency_code') for n, d in NETWORK_DEFINITIONS.items()}
    if lib_codes != NETCODES:
        col.violation(None, 'network / currency-code table differs from the pinned one', {'kind': 'tables'}, lib_codes, NETCODES)
    if any(d.get('denominator') != 1e-8 for d in NETWORK_DEFINITIONS.values()):
        col.violation(None, 'a network no longer uses 1e-8 as smallest unit', {'kind': 'tables'},
                      {n: d.get('denominator') for n, d in NETWORK_DEFINITIONS.items()}, 1e-8)
    lib_dens = {symb: F(repr(den) if isinstance(den, float) else den) for den, symb in NETWORK_DENOMINATORS.items()}
    if lib_dens != {s: F(10) ** e for s, e in DEN_EXP.items()}:
        col.violation(None, 'denominator table differs from the metric prefixes', {'kind': 'tables'},
                      {s: str(v) for s, v in lib_dens.items()}, {s: '1e%d' % e for s, e in DEN_EXP.items()})
    for p in ('parse', 'from_satoshi', 'format', 'roundtrip', 'numeric_constructor', 'output_value', 'output_refusals', 'totals',
              'display_denominator', 'display_text', 'order_step', 'order_unlisted_spelling', 'default_decimals_roundtrip'):
        col.require(p)
    rnd = random.Random('%s-%d-%d' % (ID, spec['seed'], spec['shard']))
    tally = Tally(col)
    sh, ns = spec['shard'], spec['nshard']
    W, stride = spec['window'], spec['stride']
    # windows: shard i takes the integers congruent to (phase + i*stride) modulo ns*stride
    step = ns * stride
    phase = (spec['seed'] * 7919) % stride if stride > 1 else 0
    k = sh
    for base in (0, TOP - W):
        for n in range(base + (phase + sh * stride) % step, base + W + 1, step):
            k += 1
            for case in _window_cases(n, rnd, k):
                run_case(case, col, tally)
        # the window ends themselves are always included
        if sh == 0:
            for n in (base, base + W):
                for case in _window_cases(n, rnd, 0):
                    run_case(case, col, tally)
    # every denominator x every currency code x every network, small fixed amounts (all shards share this cheaply: striped)
    combos = [(s, c) for s in SYMS for c in CODES]
    for j in range(sh, len(combos), ns):
        s, c = combos[j]
        for n in (0, 1, 10 ** 8, 123456789, TOP - 1, TOP):
            run_case({'kind': 'parse', 'num': render(n, DEN_EXP[s], 'min'), 'sym': s, 'code': c, 'network': None, 'style': 'grid'}, col, tally)
            for net in networks_for(c):
                run_case({'kind': 'parse', 'num': render(n, DEN_EXP[s], 'full'), 'sym': s, 'code': c, 'network': net, 'style': 'grid'}, col, tally)
                run_case({'kind': 'format', 'n': n, 'den': s, 'decimals': max(0, DEN_EXP[s] - UNIT_EXP), 'network': net, 'build': 'default'}, col, tally)
                run_case({'kind': 'from_sat', 'n': n, 'den': s, 'network': net}, col, tally)
    # default decimals: every denominator x every way of naming it x amounts with all digit positions non-zero
    trio = [(s_, f_) for s_ in SYMS for f_ in ('sym', 'num', 'own')]
    for j in range(sh, len(trio), ns):
        for _ in range(12):
            run_case(gen_format_default(rnd, None, trio[j][0], trio[j][1]), col, tally)
    # random mixture
    for i in range(spec['n_random']):
        r = rnd.random()
        if r < 0.40:
            case = gen_parse(rnd)
        elif r < 0.50:
            case = gen_subunit(rnd)
        elif r < 0.65:
            case = gen_from_sat(rnd)
        elif r < 0.82:
            case = gen_format(rnd)
        elif r < 0.90:
            case = gen_format_default(rnd, None if rnd.random() < 0.7 else gen_amount(rnd))
        else:
            case = gen_numeric(rnd)
        if case is not None:
            run_case(case, col, tally)
    for i in range(spec['n_output']):
        run_case(gen_output(rnd), col, tally)
    for i in range(spec['n_totals']):
        run_case(gen_totals(rnd), col, tally)
    # unit-carrying strings x display denominator argument; order-dependent spellings in this one process (interleaved)
    nd, no = spec.get('n_display', 0), spec.get('n_order', 0)
    for i in range(max(nd, no)):
        if i < nd:
            run_case(gen_display(rnd), col, tally)
        if i < no:
            case = gen_order(rnd)
            if case is not None:
                run_case(case, col, tally)
    tally.flush()


def replay(case, col):
    selfcheck()
    if case.get('kind') in CHECKS:
        run_case(case, col)
    else:
        col.note_inconclusive('case kind %r cannot be replayed' % (case.get('kind'),))
