"""C20 - the service layer fails over between providers and never fabricates answers; answers served from the
cache equal what was stored.

Monitor shape: fault injection at the provider boundary + executable model (vf.refs.failover_model) + provenance
check.  The real `Service` is driven against k fake providers registered through `$BCL_DATA_DIR/providers.json`
and `setattr(bitcoinlib.services, 'c20fake', module)`; every fake answer is unique (tagged with provider and
answer number), so for every value the service hands out it is decidable which provider gave it, whether it is a
stored copy of an earlier answer, or whether nobody gave it.  Nothing here raises into library code; no socket
is ever opened (socket.connect / requests are patched to record a violation).
"""
import os
import sys
import json
import random
import shutil
import hashlib
import itertools
import types
from datetime import datetime, timezone, timedelta

from vf.refs import failover_model as fm
from vf.refs import secp256k1 as ec
from vf.refs import chain as rchain
from vf.refs import tx as rtx

ID = 'C20'
LEVEL = 'fault_enumeration'
ANCHORS = ['bitcoinlib/services/services.py', 'bitcoinlib/db_cache.py', 'bitcoinlib/services/baseclient.py']
DEPS = ()
RULE = ('a run = one Service life time (own sqlite cache db) against k fake providers: a fault plan '
        '{ok, exception, empty(False), malformed[, no-such-method]}^k x a priority order x one of 14 query methods x '
        '(min_providers, max_providers) x max_errors in {1,2,4,10} x network, followed by 0-4 further calls with changed '
        'plans / advanced clock (cache cold, warm, partially filled, expired); non-trivial = distinct (method, '
        'sorted-by-priority fault pattern, max_errors, max_providers, cache state, position in sequence) tuples in '
        'which at least one provider was actually invoked or the cache answered')
TRUSTED_BASE = ['vf/refs/failover_model.py (executable failover model, self-checked on hand-computed walks)',
                'vf/refs/tx.py + vf/refs/secp256k1.py + vf/refs/chain.py (raw transactions, ids and addresses of the model chain)',
                'fake provider clients build their Transaction objects with bitcoinlib itself (as real clients do); '
                'cache fidelity is judged on txid/raw bytes from the reference serializer and on field fingerprints '
                'taken from the provider answer before the service saw it',
                'network fee_default values (testnet 10000, litecoin 50000) pinned from tree 074a788, used only to '
                'recognise one known deviation']
ASSUMPTIONS = ['an "empty" provider answer is the library\'s empty marker False; None/0/[] are ordinary answers',
               'malformed answers are only required not to be mixed or invented (a failure is accepted; after a '
               'malformed answer was consumed later failures of the same Service are tolerated)',
               'providers without the queried method are passed over silently (not an error)',
               'estimatefee answers are kept inside [fee_min, fee_max] (clamping is documented sanitation)',
               'clock advance is simulated by shifting datetime.now()/time.time() inside bitcoinlib.services.services',
               'a failure is any raised exception, or False/None where a payload is expected (DESIGN 2.4)',
               'after an error-limit stop with results in hand both outcomes (first result / failure) conform',
               'sqlite cache databases run with PRAGMA synchronous=OFF / journal_mode=MEMORY (set by the harness on connect; speed only)',
               'blockcount() may repeat a failure without asking providers again while the previous attempt is younger '
               'than BLOCK_COUNT_CACHE_TIME']
EXHAUSTIVE = ['fault plans {ok,exc,empty,malformed}^k x all k! priority orders x 14 methods for k<=3 (quick) and k<=4 (thorough), cold cache']

# ---- known deviation keys (mechanisms)
K_LIMIT_BALANCE = 'C20/error-limit/getbalance-failed-batch-counted-as-zero'
K_LIMIT_FEE = 'C20/error-limit/estimatefee-returns-network-default'
K_LIMIT_ISSPENT = 'C20/error-limit/isspent-returns-false'
K_LIMIT_FEE_CACHED = 'C20/error-limit/estimatefee-network-default-served-from-cache'
K_EMPTY_NOLIMIT = 'C20/error-limit/not-evaluated-after-empty-response'
K_CONF_NEG = 'C20/cache/confirmations-computed-from-expired-blockcount'
K_PAGE_ORDER = 'C20/cache/block-page-served-in-insertion-order'
K_CACHED_SUBSET = 'C20/cache/address-history-starts-at-whatever-is-cached'
K_STALE_RECORD = 'C20/cache/address-record-computed-before-answer-is-stored'
K_INDEX_ORDER = 'C20/cache/same-block-order-from-answer-position'
K_PARTIAL_HISTORY = 'C20/cache/address-balance-summed-over-partial-history'

METHODS = ['blockcount', 'getbalance', 'getutxos', 'gettransaction', 'gettransactions', 'getrawtransaction',
           'sendrawtransaction', 'estimatefee', 'getblock', 'getrawblock', 'mempool', 'isspent', 'getinfo',
           'getinputvalues']
KINDS4 = ('ok', 'exc', 'empty', 'malformed')
NETS = ('bitcoin', 'testnet', 'litecoin')
FEE_DEFAULT_PINNED = {'bitcoin': None, 'testnet': 10000, 'litecoin': 50000}
MAX_ERRORS = (1, 2, 4, 10)
MINMAX = ((1, 1), (1, 1), (1, 2), (2, 2), (1, 3), (3, 3))
TIP = 810000
T0 = 1700000000
PRIMARY = {'getinputvalues': 'gettransaction'}

_state = {}


# =============================================================== model chain (reference side, no bitcoinlib)
def _push(b):
    return bytes([len(b)]) + b


class Chain:
    """A tiny static block chain: 4 actors, 6 transactions, 4 blocks. Built with the reference serializer."""

    def __init__(self, net):
        self.net = net
        self.keys = {}
        for n, name in enumerate('ABCZDEFGH'):
            d = int.from_bytes(hashlib.sha256(b'c20-key-' + name.encode()).digest(), 'big') % (ec.N - 1) + 1
            pub = ec.encode_pub(ec.mul_g(d), True)
            self.keys[name] = (d, pub, ec.hash160(pub))
        self.segwit = {'B'}
        self.addr = {}
        for name, (d, pub, h) in self.keys.items():
            if name in self.segwit:
                self.addr[name] = rchain.address_segwit(net, 0, h)
            else:
                self.addr[name] = rchain.address_base58(net, 'p2pkh', h)
        self.txs = {}
        self.order = []
        ext = lambda s: hashlib.sha256(b'c20-ext-' + s.encode()).digest()
        self._mk('t1', [('ext', ext('e1'), 0, 'Z', 51010001)], [('A', 50000001), ('Z', 1000001)], 800001, 0)
        self._mk('t2', [('ext', ext('e2'), 1, 'Z', 37010002)], [('A', 30000002), ('B', 7000002)], 800001, 1)
        self._mk('t3', [('t1', None, 0, 'A', None)], [('C', 20000003), ('A', 29990003)], 800002, 0)
        self._mk('t4', [('t2', None, 1, 'B', None)], [('C', 6990004)], 800003, 0)
        self._mk('t5', [('ext', ext('e5'), 0, 'Z', 7010005)], [('B', 3000005), ('C', 4000005)], 800004, 0)
        self._mk('t9', [('ext', ext('e9'), 0, 'Z', 9010009)], [('C', 5000009), ('A', 4000009)], 800004, 1)
        self._mk('t10', [('ext', ext('e10'), 1, 'Z', 3010010)], [('A', 1000010), ('C', 2000010)], 800004, 2)
        # later blocks: only visible to the providers once the run's chain has grown (epoch 1 / 2)
        self._mk('t7', [('ext', ext('e7'), 0, 'Z', 4010007)], [('C', 2500007), ('A', 1500007)], 800005, 0, epoch=1)
        self._mk('t8', [('ext', ext('e8'), 2, 'Z', 1710008)], [('B', 800008), ('C', 900008)], 800006, 0, epoch=2)
        self._mk('t6', [('t3', None, 0, 'C', None)], [('Z', 19990006)], None, None)
        self.by_txid = {t['txid']: n for n, t in self.txs.items()}
        self.blocks = {}
        prev = hashlib.sha256(b'c20-genesis').hexdigest()
        for bn, (h, names) in enumerate([(800001, ['t1', 't2']), (800002, ['t3']), (800003, ['t4']), (800004, ['t5', 't9', 't10']), (800005, ['t7']), (800006, ['t8'])]):
            bh = '0000' + hashlib.sha256(b'c20-block-%d' % h).hexdigest()[4:]
            mr = rtx.merkle_root([bytes.fromhex(self.txs[n]['txid'])[::-1] for n in names])[::-1].hex()
            self.blocks['b%d' % (bn + 1)] = {'hash': bh, 'height': h, 'txs': names, 'prev': prev, 'merkle': mr,
                                             'time': T0 - 100000 + h, 'bits': 0x1d00ffff, 'version': 0x20000000,
                                             'epoch': max(self.txs[n]['epoch'] for n in names)}
            prev = bh

    def spk(self, name):
        h = self.keys[name][2]
        return rchain.script_witness(0, h) if name in self.segwit else rchain.script_p2pkh(h)

    def _mk(self, name, ins, outs, height, index, epoch=0):
        tins = []
        meta = []
        for kind, txid_i, n, owner, value in ins:
            if kind != 'ext':
                src = self.txs[kind]
                txid_i = bytes.fromhex(src['txid'])[::-1]
                value = src['outs'][n][1]
            d, pub, h = self.keys[owner]
            z = int.from_bytes(hashlib.sha256(b'c20-z-' + name.encode()).digest(), 'big')
            r, s = ec.ecdsa_sign_with_k(z, d, 0x1234567 + len(self.txs))
            if s > ec.N // 2:
                s = ec.N - s
            sig = ec.der_encode(r, s) + b'\x01'
            if owner in self.segwit:
                tins.append({'txid': txid_i, 'n': n, 'script': b'', 'wit': [sig, pub], 'seq': 0xfffffffd})
            else:
                tins.append({'txid': txid_i, 'n': n, 'script': _push(sig) + _push(pub), 'seq': 0xffffffff})
            meta.append({'prev': txid_i[::-1].hex(), 'n': n, 'owner': owner, 'value': value})
        touts = [{'value': v, 'script': self.spk(o)} for o, v in outs]
        t = rtx.tx(version=2, ins=tins, outs=touts, locktime=0)
        raw = rtx.serialize(t)
        self.txs[name] = {'name': name, 'raw': raw.hex(), 'txid': rtx.txid(t), 'ins': meta, 'outs': list(outs),
                          'height': height, 'index': index, 'epoch': epoch}
        self.order.append(name)

    # chain truths used by the oracle
    def txs_of(self, a, confirmed_only=False, epoch=None):
        out = []
        for n in self.order:
            t = self.txs[n]
            if confirmed_only and not t['height']:
                continue
            if epoch is not None and t['epoch'] > epoch:
                continue
            if any(i['owner'] == a for i in t['ins']) or any(o == a for o, _ in t['outs']):
                out.append(n)
        return out

    def spent_by(self, name, n, confirmed_only=True):
        for m in self.order:
            t = self.txs[m]
            if confirmed_only and not t['height']:
                continue
            for i in t['ins']:
                if i['prev'] == self.txs[name]['txid'] and i['n'] == n:
                    return m
        return None

    def utxos_of(self, a, epoch=None):
        out = []
        for name in self.order:
            t = self.txs[name]
            if not t['height'] or (epoch is not None and t['epoch'] > epoch):
                continue
            for n, (o, v) in enumerate(t['outs']):
                if o == a and not self.spent_by(name, n):
                    out.append((name, n, v))
        return out

    def balance_candidates(self, a):
        """balances derivable from (a prefix of) the confirmed history of `a`"""
        names = self.txs_of(a, True)
        c = set()
        for cut in range(len(names) + 1):
            bal = 0
            for m in names[:cut]:
                t = self.txs[m]
                bal += sum(v for o, v in t['outs'] if o == a) - sum(i['value'] for i in t['ins'] if i['owner'] == a)
            c.add(bal)
        return c

    def utxo_count_candidates(self, a, allow_empty=True, provider_flags=False):
        """numbers of unspent outputs of `a` derivable from (a prefix of) its confirmed history"""
        names = self.txs_of(a, True)
        c = set()
        for cut in range(0 if allow_empty else 1, len(names) + 1):
            part = names[:cut]
            n_un = 0
            for m in part:
                for n, (o, v) in enumerate(self.txs[m]['outs']):
                    if o == a and self.spent_by(m, n) not in part:
                        n_un += 1
            c.add(n_un)
            if provider_flags:
                # providers that report the spent status hand out the chain's view, also for spends outside the prefix
                c.add(sum(1 for m in part for n, (o, v) in enumerate(self.txs[m]['outs']) if o == a and self.spent_by(m, n) is None))
        return c


# =============================================================== world: fake providers, log, registries, clock
class World:
    def __init__(self):
        self.chains = {}
        self.net_violations = []
        self.begin_run({'net': 'bitcoin', 'prio': [10]})

    def chain(self, net):
        if net not in self.chains:
            self.chains[net] = Chain(net)
        return self.chains[net]

    def begin_run(self, case):
        self.case = case
        self.net = case['net']
        self.c = self.chain(self.net)
        self.k = len(case['prio'])
        self.prio = {i: p for i, p in enumerate(case['prio'])}
        self.tag = 0
        self.log = []            # provider invocations of the whole run
        self.executes = []       # _provider_execute probe records
        self.plans = {}
        self.callno = -1
        self.reg_tx = {}         # txid -> [fingerprints of provider answers]
        self.reg_block = {}      # block hash -> [header field dicts]
        self.reg_fee = {}        # bucket -> [fees returned by the API]
        self.reg_bc = []         # blockcount answers
        self.reg_bal = {}        # address -> [single-address balance answers]
        self.warm_addr = set()
        self.poisoned = False
        self.default_fee_stored = set()
        self.last_bc_failed = False
        self.epoch = 0
        self.spent_info = bool(case.get('spent_info'))
        self.partial_balances = {}
        self.stale_balances = {}
        self.pre_cached = (None, None)
        self.reg_whole = {}      # address -> [(sum, count)] of provider utxo answers that covered the whole address
        self.salt = 0

    def kind(self, pid, method):
        pl = self.plans.get(method)
        if pl is None:
            return 'ok'
        return pl[pid]

    def next_tag(self):
        self.tag += 1
        return self.tag


class FakeRaised(Exception):
    pass


def _exception_for(pid, tag):
    from bitcoinlib.services.baseclient import ClientError
    import requests
    sel = (pid + tag) % 5
    if sel == 0:
        return ClientError('c20 simulated provider error p%d/%d' % (pid, tag))
    if sel == 1:
        return requests.exceptions.Timeout('c20 simulated timeout p%d/%d' % (pid, tag))
    if sel == 2:
        return KeyError('c20-missing-field-p%d-%d' % (pid, tag))
    if sel == 3:
        return TimeoutError('c20 simulated socket timeout p%d/%d' % (pid, tag))
    return ValueError('c20 simulated garbage p%d/%d' % (pid, tag))


def _ts(d):
    if d is None:
        return None
    if d.tzinfo is None:
        d = d.replace(tzinfo=timezone.utc)
    return int(d.timestamp())


def fp_tx(t):
    """Field fingerprint of a library Transaction (observation only)."""
    try:
        raw = t.raw_hex()
    except Exception as e:
        raw = 'raw_hex raised %r' % (e,)
    return {'txid': t.txid, 'raw': raw, 'block_height': t.block_height, 'date': _ts(t.date), 'fee': t.fee,
            'version': t.version_int, 'locktime': t.locktime,
            'ins': [[i.prev_txid.hex(), i.output_n_int, i.value, i.address, i.sequence] for i in t.inputs],
            'outs': [[o.value, o.address, o.lock_script.hex()] for o in t.outputs]}


def _fake_module():
    """The fake provider client. One class; the provider id travels in the url field of providers.json."""
    W = _state['W']
    from bitcoinlib.transactions import Transaction

    def view_tx(name, tag):
        c = W.c.txs[name]
        t = Transaction.parse_hex(c['raw'], strict=False, network=W.net)
        for i, ci in zip(t.inputs, c['ins']):
            i.value = ci['value']
            if not i.address:
                i.address = W.c.addr[ci['owner']]
        if c['height']:
            t.block_height = c['height']
            t.date = datetime.fromtimestamp(T0 + tag, timezone.utc)
            t.confirmations = TIP - c['height'] + 1
            t.status = 'confirmed'
        else:
            t.status = 'unconfirmed'
            t.confirmations = 0
            t.date = None
        for n_o, o in enumerate(t.outputs):
            # most real clients do not know (None); some report the spent status they see on the chain
            o.spent = (W.c.spent_by(name, n_o) is not None) if W.spent_info else None
        t.update_totals()
        W.reg_tx.setdefault(t.txid, []).append(fp_tx(t))
        return t

    def name_of_addr(a):
        for n, s in W.c.addr.items():
            if s == a:
                return n
        return None

    def answer(pid, method, args, tag):
        c = W.c
        if method == 'blockcount':
            return TIP + (tag * 37) % 401
        if method == 'getbalance':
            if not args[0]:
                return 0
            return 10000000 + tag * 11
        if method == 'estimatefee':
            return 2000 + tag * 3
        if method == 'isspent':
            return (W.salt + W.callno) % 2
        if method == 'getinfo':
            return {'blockcount': TIP + tag, 'chain': W.net, 'difficulty': 1000 + tag, 'hashrate': 7 * tag, 'mempool_size': tag}
        if method == 'sendrawtransaction':
            raw = args[0]
            return {'txid': c.by_txid and hashlib.sha256(str(raw).encode()).hexdigest(), 'response_dict': {'provider': pid, 'answer': tag}}
        if method == 'getrawblock':
            return ''.join(['%08x' % tag, hashlib.sha256(str(args[0]).encode()).hexdigest() * 3])
        if method == 'mempool':
            txid = args[0]
            if not txid:
                return [hashlib.sha256(b'c20-mp-%d-%d' % (tag, j)).hexdigest() for j in range(3)]
            return [str(txid)] if c.by_txid.get(txid) == 't6' else []
        if method == 'getrawtransaction':
            n = c.by_txid.get(args[0])
            if n is None or c.txs[n]['epoch'] > W.epoch:
                raise FakeRaised('unknown txid')
            return ''.join(list(c.txs[n]['raw']))          # a fresh str object per answer
        if method == 'gettransaction':
            n = c.by_txid.get(args[0])
            if n is None or c.txs[n]['epoch'] > W.epoch:
                raise FakeRaised('unknown txid')
            return view_tx(n, tag)
        if method == 'gettransactions':
            address, after_txid, limit = args
            a = name_of_addr(address)
            names = c.txs_of(a, epoch=W.epoch)
            if after_txid and c.by_txid.get(after_txid) in names:
                names = names[names.index(c.by_txid[after_txid]) + 1:]
            return [view_tx(n, tag) for n in names[:limit]]
        if method == 'getutxos':
            address, after_txid, limit = args
            a = name_of_addr(address)
            us = c.utxos_of(a, epoch=W.epoch)
            if after_txid and c.by_txid.get(after_txid) in [u[0] for u in us]:
                idx = [u[0] for u in us].index(c.by_txid[after_txid])
                us = us[idx + 1:]
            elif not after_txid and len(us) <= limit:
                W.reg_whole.setdefault(address, []).append((sum(u[2] for u in us), len(us)))
            out = []
            for name, n, v in us[:limit]:
                t = c.txs[name]
                out.append({'address': address, 'txid': t['txid'], 'confirmations': TIP - t['height'] + 1, 'output_n': n,
                            'input_n': 0, 'block_height': t['height'], 'fee': None, 'size': 0, 'value': v, 'script': '',
                            'date': datetime.fromtimestamp(T0 + tag, timezone.utc), 'c20': [pid, tag]})
            return out
        if method == 'getblock':
            blockid, parse_transactions, page, limit = args
            b = None
            for bb in c.blocks.values():
                if bb['height'] == blockid or bb['hash'] == blockid:
                    b = bb
            if b is None or b['epoch'] > W.epoch:
                raise FakeRaised('unknown block')
            names = b['txs'][(page - 1) * limit: page * limit] if limit else []
            txs = [view_tx(n, tag) for n in names] if parse_transactions else [c.txs[n]['txid'] for n in names]
            d = {'bits': b['bits'], 'depth': TIP - b['height'], 'block_hash': b['hash'], 'height': b['height'],
                 'merkle_root': b['merkle'], 'nonce': tag, 'prev_block': b['prev'], 'time': b['time'],
                 'tx_count': len(b['txs']), 'txs': txs, 'version': b['version'], 'page': page,
                 'pages': None, 'limit': limit}
            W.reg_block.setdefault(b['hash'], []).append({k: d[k] for k in ('bits', 'height', 'merkle_root', 'nonce', 'prev_block', 'time', 'tx_count', 'version')})
            return d
        raise FakeRaised('no such method in the fake')

    def malformed(pid, method, tag):
        if method in ('blockcount', 'getbalance', 'estimatefee'):
            return 3000.5 + tag * 7
        if method == 'isspent':
            return 'c20-malformed-%d' % tag
        if method == 'getblock' and tag % 2:
            return {}
        if method in ('getinfo', 'sendrawtransaction', 'getblock'):
            return ['c20-malformed', tag]
        if method in ('getrawtransaction', 'getrawblock'):
            return 900000000 + tag
        return {'c20-malformed': tag}

    class FakeClient(object):
        def __init__(self, network, base_url, denominator, *args):
            self._pid = int(str(base_url)[1:])

        def __getattr__(self, name):
            if name.startswith('_') or name not in _QUERY_NAMES:
                raise AttributeError(name)
            pid = self._pid
            kind = W.kind(pid, name)
            if kind == 'nomethod':
                raise AttributeError(name)

            def call(*args):
                tag = W.next_tag()
                ent = {'pid': pid, 'method': name, 'args': args, 'kind': kind, 'tag': tag, 'value': None, 'call': W.callno}
                W.log.append(ent)
                if kind == 'exc':
                    raise _exception_for(pid, tag)
                if kind == 'empty':
                    return False
                if kind == 'malformed':
                    ent['value'] = malformed(pid, name, tag)
                    return ent['value']
                try:
                    ent['value'] = answer(pid, name, args, tag)
                except FakeRaised as e:      # query outside the model chain: behaves as a provider error
                    ent['kind'] = 'exc'
                    raise
                return ent['value']
            return call

    m = types.ModuleType('bitcoinlib.services.c20fake')
    m.FakeClient = FakeClient
    return m


_QUERY_NAMES = set(METHODS) - {'getinputvalues'}


class _Clock:
    shift = 0.0


def _install():
    """Once per process: import the library, register the fake provider module, install probe + guards."""
    if 'S' in _state:
        return _state['S']
    import socket
    import requests
    import bitcoinlib                                   # copies data files into the fresh BCL_DATA_DIR
    from bitcoinlib import services
    import bitcoinlib.services.services as S
    W = _state['W'] = World()
    _state['S'] = S
    services.c20fake = _fake_module()

    # -- no network: record and refuse
    def _guard(what):
        def g(*a, **kw):
            W.net_violations.append(what)
            raise OSError('c20: network access attempted (%s)' % what)
        return g
    socket.socket.connect = _guard('socket.connect')
    socket.socket.connect_ex = _guard('socket.connect_ex')
    socket.create_connection = _guard('socket.create_connection')
    requests.sessions.Session.request = _guard('requests.Session.request')
    requests.get = _guard('requests.get')
    requests.post = _guard('requests.post')

    # -- clock shift inside bitcoinlib.services.services only
    real_dt = S.datetime

    class ShiftedDatetime(real_dt):
        @classmethod
        def now(cls, tz=None):
            return real_dt.now(tz) + timedelta(seconds=_Clock.shift)
    import time as _time
    S.datetime = ShiftedDatetime
    S.time = types.SimpleNamespace(time=lambda: _time.time() + _Clock.shift, sleep=_time.sleep)

    # -- probe on the failover loop (record and continue)
    orig = S.Service._provider_execute

    def probe(self, method, *arguments):
        rec = {'method': method, 'args': arguments, 'svc': self, 'max_errors': self.max_errors,
               'max_providers': self.max_providers, 'log_start': len(W.log), 'call': W.callno, 'raised': None, 'ret': None}
        W.executes.append(rec)
        try:
            rec['ret'] = orig(self, method, *arguments)
            return rec['ret']
        except BaseException as e:
            rec['raised'] = e
            raise
        finally:
            rec['log_end'] = len(W.log)
            rec['results'] = dict(self.results)
            rec['errors'] = dict(self.errors)
    S.Service._provider_execute = probe

    # -- durability is irrelevant here: no fsync per commit on the per-run cache databases (harness-side pragma)
    from sqlalchemy import event
    from sqlalchemy.engine import Engine

    def _pragmas(dbapi_conn, _rec):
        try:
            cur = dbapi_conn.cursor()
            cur.execute('PRAGMA synchronous=OFF')
            cur.execute('PRAGMA journal_mode=MEMORY')
            cur.close()
        except Exception:
            pass
    event.listen(Engine, 'connect', _pragmas)

    # -- template cache database (schema only), copied for every run
    d = os.environ['BCL_DATA_DIR']
    tmpl = os.path.join(d, 'c20-template.sqlite')
    from bitcoinlib.db_cache import DbCache
    db = DbCache(db_uri=tmpl)
    db.session.close()
    db.engine.dispose()
    _state['tmpl'] = tmpl
    _state['n'] = 0
    return S


# =============================================================== judging
def _same(a, b):
    """identity for objects, typed equality for plain scalars"""
    if a is b:
        return True
    if isinstance(a, (int, float, str)) and not isinstance(a, bool) and type(a) is type(b):
        return a == b
    return False


def _short(x, n=160):
    try:
        s = repr(x)
    except Exception as e:
        s = '<repr raised %r>' % (e,)
    return s if len(s) <= n else s[:n] + '...'


def _pid_of_key(key):
    return int(key[len('c20p'):]) if isinstance(key, str) and key.startswith('c20p') else key


def judge_execute(rec, col, case, callrec):
    """Model check of one run of the failover loop."""
    W = _state['W']
    col.probe('failover_loop')
    method = rec['method']
    ents = W.log[rec['log_start']:rec['log_end']]
    stray = [e for e in ents if e['method'] != method]
    ents = [e for e in ents if e['method'] == method]
    kinds = {p: W.kind(p, method) for p in W.prio}
    for e in ents:
        kinds[e['pid']] = e['kind']
    answers = {e['pid']: e for e in ents if e['kind'] in fm.ANSWERING}
    failed = rec['raised'] is not None or rec['ret'] is False
    answer_of = [] if failed else [p for p, e in answers.items() if _same(rec['ret'], e['value'])]
    res_pids = [_pid_of_key(x) for x in rec['results']]
    err_pids = [_pid_of_key(x) for x in rec['errors']]
    obs = {'visited': [e['pid'] for e in ents], 'failed': failed, 'answer_of': answer_of, 'results': res_pids, 'errors': err_pids}
    d, exp = fm.judge(W.prio, kinds, rec['max_providers'], rec['max_errors'], obs)
    rec['exp'] = exp
    rec['kinds'] = kinds
    rec['answers'] = answers
    rec['failed'] = failed
    rec['malformed_used'] = any(e['kind'] == 'malformed' for e in ents)
    if rec['malformed_used']:
        W.poisoned = True
    # bookkeeping values: results[key] must be the very answer of that provider
    for key, v in rec['results'].items():
        p = _pid_of_key(key)
        if p in answers and not _same(v, answers[p]['value']):
            d.append('results-holds-a-value-the-provider-did-not-give')
    if stray:
        d.append('provider-asked-for-another-method')
    if rec['svc'] is callrec.get('srv'):
        if rec['max_errors'] != case['me']:
            d.append('max_errors-setting-not-honoured')
        if rec['max_providers'] != max(case['maxp'], case['minp']):
            d.append('max_providers-setting-not-honoured')
    if not d:
        return
    key = None
    if d == ['continued-after-error-limit']:
        d2, _ = fm.judge(W.prio, kinds, rec['max_providers'], rec['max_errors'], obs, limit_checked_after=('exc',))
        errs_before = [kinds[p] for p in exp['visited']]
        if not d2 and errs_before and errs_before[-1] == 'empty':
            key = K_EMPTY_NOLIMIT
    col.violation(key, 'failover loop for %s deviates from the model: %s' % (method, ', '.join(d)),
                  dict(case, failing_call=callrec['index']),
                  {'visited': obs['visited'], 'kinds': [kinds[p] for p in obs['visited']], 'failed': failed,
                   'ret': _short(rec['ret']), 'raised': _short(rec['raised']), 'results': sorted(res_pids), 'errors': sorted(err_pids)},
                  {'visited': exp['visited'], 'stop': exp['stop'], 'results': exp['results'], 'errors': exp['errors'],
                   'must_fail': exp['must_fail']})


def _bucket(blocks):
    return 'high' if blocks <= 1 else 'medium' if blocks <= 5 else 'low'


def _tx_matches_registry(t, col):
    """A Transaction that did not come from a provider in this call must equal a stored provider answer."""
    W = _state['W']
    cands = W.reg_tx.get(getattr(t, 'txid', None))
    if not cands:
        return 'transaction %s was never given by a provider' % _short(getattr(t, 'txid', t), 70)
    f = fp_tx(t)
    name = W.c.by_txid.get(f['txid'])
    if name and f['raw'] != W.c.txs[name]['raw']:
        return 'cached transaction %s serialises to other bytes than the chain transaction' % name
    for c in cands:
        if all(f[k] == c[k] for k in f):
            return None
    diff = sorted(k for k in f if all(f[k] != c[k] for c in cands))
    return 'cached copy of %s differs from every provider answer in fields %s' % (name or f['txid'][:16], diff or 'combination')


def judge_call(callrec, col, case):
    """API-level provenance check of one call. callrec: index, m, args(real), spec, ret, exc, srv, execs."""
    W = _state['W']
    S = _state['S']
    c = W.c
    m = callrec['m']
    ret, exc, spec = callrec['ret'], callrec['exc'], callrec['spec']
    prim = PRIMARY.get(m, m)
    execs = [r for r in callrec['execs'] if r['method'] == prim]
    col.probe('api_call')
    failed = exc is not None or ((ret is False or ret is None) and m != 'isspent')
    fresh = []            # answers of the providers that answered, per execute (whatever the loop did with them)
    for r in execs:
        fresh.append(list(r['answers'].values()))
    any_may_fail = any(r['exp']['may_fail'] or r['failed'] for r in callrec['execs'])
    any_malformed = any(r['malformed_used'] for r in callrec['execs'])
    problems = []
    key = None

    def flat_fresh():
        return [e for grp in fresh for e in grp]

    def is_fresh_value(v):
        return any(_same(v, e['value']) for e in flat_fresh())

    if m == 'construct':
        if exc is None:
            srv = callrec['srv']
            bc = srv._blockcount
            if bc is False or bc is None:
                if not (any_may_fail or any_malformed):
                    problems.append(('failed-with-answer', 'Service() has no block count although a provider answered'))
            elif not any(_same(bc, v) for v in W.reg_bc):
                problems.append(('fabricated', 'Service()._blockcount=%s is no provider answer' % _short(bc)))
        elif not (any_may_fail or any_malformed or W.poisoned):
            problems.append(('failed-with-answer', 'Service() raised %s although a provider answered' % _short(exc)))
    elif failed:
        tolerated = any_may_fail or any_malformed or W.poisoned
        if m == 'getinputvalues' and not callrec['execs']:
            tolerated = True
        if not callrec['execs'] and m == 'gettransactions':
            tolerated = True
        if m == 'blockcount' and not callrec['execs'] and W.last_bc_failed:
            tolerated = True          # a failed look-up is remembered for BLOCK_COUNT_CACHE_TIME seconds
        if not tolerated:
            problems.append(('failed-with-answer', '%s failed (%s) although every queried provider loop produced an answer' % (
                m, _short(exc if exc is not None else ret))))
    else:
        if m == 'blockcount':
            if not (is_fresh_value(ret) or any(_same(ret, v) for v in W.reg_bc)):
                problems.append(('fabricated', 'blockcount %s is neither a provider answer nor a stored one' % _short(ret)))
        elif m == 'estimatefee':
            b = _bucket(25 if spec.get('priority') == 'low' else 2 if spec.get('priority') == 'high' else spec.get('blocks', 5))
            if is_fresh_value(ret):
                W.reg_fee.setdefault(b, []).append(ret)
            elif any(_same(ret, v) for v in W.reg_fee.get(b, [])):
                col.probe('cache_served')
            else:
                problems.append(('fabricated', 'estimatefee returned %s which no provider gave (bucket %s)' % (_short(ret), b)))
                lim = [r for r in execs if r['exp']['stop'] == 'limit' and r['exp']['must_fail'] and r['ret'] is False]
                if lim and len(execs) == 1 and ret == FEE_DEFAULT_PINNED.get(W.net) and type(ret) is int:
                    key = K_LIMIT_FEE
                    W.default_fee_stored.add(b)
                elif not callrec['execs'] and b in W.default_fee_stored and ret == FEE_DEFAULT_PINNED.get(W.net) and type(ret) is int:
                    key = K_LIMIT_FEE_CACHED
        elif m == 'getbalance':
            addrs = callrec['args'][0] if isinstance(callrec['args'][0], list) else [callrec['args'][0]]
            asked = [a for r in execs for a in r['args'][0]]
            sums = {0}
            ok = True
            for grp, r in zip(fresh, execs):
                vals = [e['value'] for e in grp]
                if not r['args'][0]:   # spurious request for an empty address list (everything came from the cache)
                    sums = {s_ + v for s_ in sums for v in [0] + [x for x in vals if isinstance(x, (int, float))]}
                    continue
                if not vals:
                    ok = False
                    break
                sums = {s + v for s in sums for v in vals if isinstance(v, (int, float))}
            if ok:
                cached = [a for a in spec['addrs_real'] if a not in asked]
                for a in cached:
                    name = [n for n, s in c.addr.items() if s == a][0]
                    cc = _stored_balance_candidates(a, name)
                    sums = {s + v for s in sums for v in cc}
                    col.probe('cache_served')
            if not ok or not any(_same(ret, s) for s in sums):
                problems.append(('fabricated', 'getbalance returned %s which is not the sum of provider answers / stored balances' % _short(ret)))
                lim = [r for r in execs if r['exp']['stop'] == 'limit' and r['exp']['must_fail'] and r['ret'] is False]
                # narrow shape of the known deviation: the batches that stopped at the limit contribute 0, every other
                # batch contributes the answer of one of its result providers
                part = {0}
                for grp, r in zip(fresh, execs):
                    if r in lim:
                        continue
                    vals = [e['value'] for e in grp if isinstance(e['value'], (int, float)) and not isinstance(e['value'], bool)]
                    part = {s_ + v for s_ in part for v in vals}
                for a in [a for a in spec['addrs_real'] if a not in asked]:
                    name = [n for n, s_ in c.addr.items() if s_ == a][0]
                    part = {s_ + v for s_ in part for v in _stored_balance_candidates(a, name)}
                if lim and type(ret) in (int, float) and any(_same(ret, s_) for s_ in part):
                    key = K_LIMIT_BALANCE
                elif not lim and len(spec['addrs_real']) == 1 and spec['addrs_real'][0] not in asked:
                    nm = [n for n, s_ in c.addr.items() if s_ == spec['addrs_real'][0]][0]
                    ch = _cached_history_sum(nm)
                    if ch is not None and not ch[1] and _same(ret, ch[0]):
                        key = K_PARTIAL_HISTORY
            elif len(execs) == 1 and len(execs[0]['args'][0]) == 1 and fresh[0]:
                W.reg_bal.setdefault(execs[0]['args'][0][0], []).extend(e['value'] for e in fresh[0])
        elif m == 'isspent':
            cands = set()
            for e in flat_fresh():
                cands.add(bool(e['value']))
            name = c.by_txid.get(callrec['args'][0])
            if not execs and name in [c.by_txid.get(t) for t in W.reg_tx]:
                cands.add(c.spent_by(name, callrec['args'][1]) is not None)
                cands.add(c.spent_by(name, callrec['args'][1], confirmed_only=False) is not None)
                col.probe('cache_served')
            if type(ret) is not bool or ret not in cands:
                problems.append(('fabricated', 'isspent returned %s; provider answers allow %s' % (_short(ret), sorted(cands))))
                lim = [r for r in execs if r['exp']['stop'] == 'limit' and r['exp']['must_fail'] and r['ret'] is False]
                if lim and len(execs) == 1 and ret is False:
                    key = K_LIMIT_ISSPENT
        elif m in ('getrawblock', 'mempool', 'getinfo', 'sendrawtransaction'):
            if not is_fresh_value(ret):
                problems.append(('fabricated', '%s returned %s which is not the answer object of a result provider' % (m, _short(ret))))
        elif m == 'getrawtransaction':
            name = c.by_txid.get(callrec['args'][0])
            if is_fresh_value(ret):
                pass
            elif not execs and name and W.reg_tx.get(callrec['args'][0]) and ret == c.txs[name]['raw']:
                col.probe('cache_served')
            else:
                problems.append(('fabricated', 'getrawtransaction(%s) returned %s: neither a provider answer nor the stored bytes' % (name, _short(ret, 60))))
        elif m == 'gettransaction':
            if is_fresh_value(ret):
                if getattr(ret, 'txid', None) != callrec['args'][0] and not any_malformed:
                    problems.append(('mixed', 'gettransaction returned txid %s for query %s' % (_short(getattr(ret, 'txid', None), 70), callrec['args'][0])))
            elif execs and flat_fresh():
                problems.append(('fabricated', 'gettransaction returned an object that is not the answer of a result provider: %s' % _short(ret)))
            else:
                col.probe('cache_served')
                why = None
                if not isinstance(ret, _state['S'].Transaction):
                    why = 'not a Transaction: %s' % _short(ret)
                elif ret.txid != callrec['args'][0]:
                    why = 'cache returned txid %s for query %s' % (ret.txid, callrec['args'][0])
                else:
                    why = _tx_matches_registry(ret, col)
                    if why is None:
                        why = _confirmations_problem(ret)
                if why:
                    problems.append(('cache', why))
        elif m == 'gettransactions':
            problems += _judge_list(callrec, ret, fresh, execs, 'tx', any_malformed)
        elif m == 'getutxos':
            problems += _judge_list(callrec, ret, fresh, execs, 'utxo', any_malformed)
        elif m == 'getblock':
            problems += _judge_block(callrec, ret, fresh, execs, col)
        elif m == 'getinputvalues':
            t = callrec['args'][0]
            name = spec['tx']
            if ret is not t:
                problems.append(('fabricated', 'getinputvalues returned another object'))
            else:
                for i, ci in zip(t.inputs, c.txs[name]['ins']):
                    if i.value != ci['value']:
                        problems.append(('fabricated', 'getinputvalues set input value %s, chain says %s' % (_short(i.value), ci['value'])))
    # bookkeeping visible on the Service after the call (observe_at): results/errors describe the last loop
    srv = callrec.get('srv')
    if srv is not None and not failed and not problems and m in ('gettransaction', 'getrawtransaction', 'estimatefee'):
        from_cache = not execs
        n = getattr(srv, 'results_cache_n', None)
        if from_cache != bool(n):
            problems.append(('bookkeeping', '%s answered from %s but results_cache_n=%r' % (m, 'the cache' if from_cache else 'a provider', n)))
    own = [r for r in callrec['execs'] if r['svc'] is srv]
    if srv is not None and own and m != 'construct':
        last = own[-1]
        if dict(srv.results) != last['results'] or set(srv.errors) != set(last['errors']):
            if not (m == 'gettransactions'):
                problems.append(('bookkeeping', 'Service.results/errors after the call differ from the last provider loop'))
    if srv is not None and not own and m == 'gettransactions' and (srv.results or srv.errors):
        problems.append(('bookkeeping', 'gettransactions answered without providers but results/errors are not empty'))
    for code, why in problems:
        pkey = key
        if why.startswith('C20/') and '|' in why:
            pkey, why = why.split('|', 1)
        col.violation(pkey, 'API %s: %s [%s]' % (m, why, code), dict(case, failing_call=callrec['index']),
                      {'ret': _short(ret, 300), 'exc': _short(exc, 300),
                       'loops': [{'method': r['method'], 'visited': r['exp']['visited'] if 'exp' in r else None,
                                  'kinds': [r['kinds'][p] for p in r['exp']['visited']], 'stop': r['exp']['stop'],
                                  'ret': _short(r['ret'], 80)} for r in callrec['execs']]},
                      'the answer of one result provider, a stored copy of one, or a failure')


def _blockcount_cache_valid():
    """Independent look (sqlite3, read only) whether an unexpired block count is stored in the run's cache db."""
    import sqlite3
    try:
        con = sqlite3.connect('file:%s?mode=ro' % _state['dbp'], uri=True)
        rows = con.execute("select value, expires from cache_variables where varname='blockcount'").fetchall()
        con.close()
    except Exception:
        return None
    now = (datetime.now() + timedelta(seconds=_Clock.shift)).strftime('%Y-%m-%d %H:%M:%S.%f')
    return any(str(r[1]) > now for r in rows)


def _stored_balance_candidates(addr, name):
    """Balances a provider reported for the whole address, or derivable from a (prefix of the) history providers gave."""
    W = _state['W']
    return W.c.balance_candidates(name) | set(W.reg_bal.get(addr, [])) | {s_ for s_, _ in W.reg_whole.get(addr, [])}


def _cached_history_sum(name):
    """Independent look (sqlite3, read only) at which chain transactions of the address are in the run's cache db.
    -> (sum of outputs to the address minus inputs from it over exactly those transactions, is that set a prefix of
    the confirmed history?) or None."""
    import sqlite3
    W = _state['W']
    c = W.c
    try:
        con = sqlite3.connect('file:%s?mode=ro' % _state['dbp'], uri=True)
        rows = con.execute("select distinct txid from cache_transactions_node where address=?", (c.addr[name],)).fetchall()
        con.close()
    except Exception:
        return None
    cached = {c.by_txid.get(bytes(r[0]).hex()) for r in rows} - {None}
    hist = c.txs_of(name, True)
    bal = 0
    for m in hist:
        if m in cached:
            t = c.txs[m]
            bal += sum(v for o, v in t['outs'] if o == name) - sum(i['value'] for i in t['ins'] if i['owner'] == name)
    is_prefix = [m for m in hist if m in cached] == hist[:len(cached & set(hist))]
    return bal, is_prefix


def _stale_record_explains(callrec, name, info):
    """Narrow shape of one known deviation: gettransactions tests `len(self.results)` after a nested blockcount()
    look-up; when that look-up fails it has emptied `results`, the answer's transactions are not stored before the
    address record is computed, and the record (balance, n_txs) describes what the cache held BEFORE the call.
    True when this call is gettransactions for the address, a blockcount loop failed after the gettransactions loop
    answered, and stored balance / n_txs equal the sum / number over exactly the previously cached transactions."""
    W = _state['W']
    c = W.c
    if callrec['m'] != 'gettransactions' or W.pre_cached[0] != name or W.pre_cached[1] is None:
        return False
    ex = callrec['execs']
    main = [i for i, r in enumerate(ex) if r['method'] == 'gettransactions' and not r['failed']]
    if not main or not any(r['method'] == 'blockcount' and r['failed'] for r in ex[main[-1] + 1:]):
        return False
    pre = [m for m in c.txs_of(name, True) if m in W.pre_cached[1]]
    bal = 0
    for m in pre:
        t = c.txs[m]
        bal += sum(v for o, v in t['outs'] if o == name) - sum(i['value'] for i in t['ins'] if i['owner'] == name)
    return bool(pre) and _same(info.get('balance'), bal) and info.get('n_txs') == len(pre)


def check_address_records(callrec, col, case):
    """Provenance of every number in the stored address records (read through Service.getcacheaddressinfo)."""
    W = _state['W']
    srv = callrec.get('srv')
    if srv is None or W.poisoned:
        return
    c = W.c
    names = ['A', 'B', 'C']
    for name in names:
        addr = c.addr[name]
        try:
            info = srv.getcacheaddressinfo(addr)
        except Exception as e:
            col.violation(None, 'getcacheaddressinfo raised %s' % _short(e), dict(case, failing_call=callrec['index']), _short(e), 'address record')
            continue
        if not isinstance(info, dict) or len(info) <= 1:
            continue
        col.probe('address_record')
        seen_any = any(c.txs[n]['txid'] in W.reg_tx for n in c.txs_of(name))
        bal = info.get('balance')
        if bal is not None and not (bal == 0 or any(_same(bal, v) for v in _stored_balance_candidates(addr, name))):
            ch = _cached_history_sum(name)
            key = K_PARTIAL_HISTORY if (ch is not None and not ch[1] and _same(bal, ch[0])) else None
            if key:
                W.partial_balances.setdefault(addr, set()).add(bal)
            elif bal in W.partial_balances.get(addr, ()):
                key = K_PARTIAL_HISTORY      # the record written earlier is still there, the cached set has grown since
            elif _stale_record_explains(callrec, name, info):
                key = K_STALE_RECORD
                W.stale_balances.setdefault(addr, set()).add(bal)
            elif bal in W.stale_balances.get(addr, ()):
                key = K_STALE_RECORD
            col.violation(key, 'stored balance %s of address %s after %s: no provider reported it for the address and it is not '
                          'derivable from the history providers gave' % (_short(bal), name, callrec['m']),
                          dict(case, failing_call=callrec['index']), info, sorted(_stored_balance_candidates(addr, name))[:12])
        nu = info.get('n_utxos')
        ok_n = c.utxo_count_candidates(name, allow_empty=(not seen_any) or info.get('n_txs') == 0, provider_flags=W.spent_info) | {n_ for _, n_ in W.reg_whole.get(addr, [])}
        if nu is not None and nu not in ok_n:
            col.violation(None, 'stored utxo count %s of address %s after %s: the address never had that many unspent outputs '
                          'in any provider answer' % (_short(nu), name, callrec['m']),
                          dict(case, failing_call=callrec['index']), info, sorted(ok_n))
        nt = info.get('n_txs')
        if nt is not None and not (0 <= nt <= len(c.txs_of(name))):
            col.violation(None, 'stored transaction count %s of address %s exceeds its history' % (_short(nt), name),
                          dict(case, failing_call=callrec['index']), info, len(c.txs_of(name)))


def _confirmations_problem(t):
    """confirmations of a cache-served transaction = a known block count - height + 1"""
    W = _state['W']
    if not t.block_height:
        return None
    cands = {v - t.block_height + 1 for v in W.reg_bc if isinstance(v, int)} | {TIP - t.block_height + 1}
    if t.confirmations not in cands:
        if t.confirmations == (False - t.block_height) + 1 and _state.get('bc_valid_before') is False:
            return K_CONF_NEG + '|cached transaction at height %s reports %s confirmations (stored block count expired, False - height + 1)' % (
                t.block_height, t.confirmations)
        return 'cached transaction at height %s reports %s confirmations; known block counts allow %s..%s' % (
            t.block_height, t.confirmations, min(cands), max(cands))
    return None


def _judge_list(callrec, ret, fresh, execs, what, any_malformed):
    """gettransactions / getutxos: result = stored copies (prefix) + the complete answer list of one result provider."""
    W = _state['W']
    c = W.c
    S = _state['S']
    out = []
    if fresh and fresh[-1] and any(ret is e['value'] for e in fresh[-1]) and not isinstance(ret, list):
        return out            # malformed answer object handed through
    if not isinstance(ret, list):
        return [('fabricated', '%s returned %s' % (callrec['m'], _short(ret)))]
    addr = callrec['args'][0]
    name = [n for n, s in c.addr.items() if s == addr]
    name = name[0] if name else None
    suffix = None
    if execs:
        grp = fresh[-1]
        for e in grp:
            v = e['value']
            if isinstance(v, list) and len(v) <= len(ret) and all(a is b for a, b in zip(ret[len(ret) - len(v):], v)):
                if suffix is None or len(v) > len(suffix):
                    suffix = v
        if suffix is None:
            if grp:
                return [('fabricated', '%s: the returned list does not end with the complete answer of a result provider' % callrec['m'])]
            suffix = []
            if not grp:
                return [('fabricated', '%s returned a list although the provider loop produced no answer' % callrec['m'])]
    else:
        suffix = []
    prefix = ret[:len(ret) - len(suffix)]
    if what == 'tx' and name is not None and all(isinstance(el, S.Transaction) for el in ret):
        out += _run_problems(callrec, ret, name, bool(execs))
    seen = set()
    for n_el, el in enumerate(ret):
        if what == 'tx':
            ident = getattr(el, 'txid', None)
        else:
            ident = (el.get('txid'), el.get('output_n')) if isinstance(el, dict) else None
        if ident in seen:
            out.append(('mixed', '%s lists %s twice' % (callrec['m'], _short(ident, 90))))
        seen.add(ident)
    for el in prefix:
        _state['col'].probe('cache_served')
        if what == 'tx':
            if not isinstance(el, S.Transaction):
                out.append(('fabricated', 'non-transaction in list: %s' % _short(el)))
                continue
            why = _tx_matches_registry(el, None) or _confirmations_problem(el)
            if why:
                out.append(('cache', why))
            tn = c.by_txid.get(el.txid)
            if tn and name and tn not in c.txs_of(name):
                out.append(('cache', 'cached transaction %s does not involve address %s' % (tn, name)))
        else:
            tn = c.by_txid.get(el.get('txid')) if isinstance(el, dict) else None
            if tn is None or name is None:
                out.append(('fabricated', 'utxo not on the chain: %s' % _short(el)))
                continue
            outs = c.txs[tn]['outs']
            n = el.get('output_n')
            if not isinstance(n, int) or n >= len(outs) or outs[n] != (name, el.get('value')):
                out.append(('cache', 'cached utxo %s:%s value %s is no output of %s to %s' % (tn, n, el.get('value'), tn, name)))
            elif not any(f['block_height'] == el.get('block_height') and f['date'] == _ts(el.get('date')) for f in W.reg_tx.get(el['txid'], [])):
                out.append(('cache', 'cached utxo %s:%s carries height/date no provider gave' % (tn, n)))
    if out and what == 'tx' and name is not None and _cached_order_explains(callrec, name, prefix):
        out = [(code, why if why.startswith('C20/') else K_INDEX_ORDER + '|' + why) for code, why in out]
    elif out and what == 'tx' and name is not None and _cached_subset_explains(callrec, name, prefix, execs):
        out = [(code, why if why.startswith('C20/') else K_CACHED_SUBSET + '|' + why) for code, why in out]
    return out


def _cache_view(name):
    """Independent look (sqlite3, read only): chain transactions of the address in the cache db, record's last_block."""
    import sqlite3
    c = _state['W'].c
    try:
        con = sqlite3.connect('file:%s?mode=ro' % _state['dbp'], uri=True)
        rows = con.execute("select distinct txid from cache_transactions_node where address=?", (c.addr[name],)).fetchall()
        rec = con.execute("select last_block from cache_address where address=?", (c.addr[name],)).fetchall()
        con.close()
    except Exception:
        return None, None
    return {c.by_txid.get(bytes(r[0]).hex()) for r in rows} - {None}, (rec[0][0] if rec else None)


def _cached_order_explains(callrec, name, prefix):
    """Narrow shape of one known deviation: the cache orders the transactions of one block by the position they had
    in the provider answer that brought them in (a counter restarting at 0 for every answer). True when (1) that stored
    order really inverts two transactions of the same block and (2) the cache-served part of the list is exactly
    what the documented after_txid / limit rule yields on the stored order."""
    import sqlite3
    c = _state['W'].c
    S = _state['S']
    try:
        con = sqlite3.connect('file:%s?mode=ro' % _state['dbp'], uri=True)
        rows = con.execute('select distinct t.txid, t.block_height, t."index" from cache_transactions t join cache_transactions_node n '
                           'on n.txid = t.txid where n.address=? order by t.block_height, t."index"', (c.addr[name],)).fetchall()
        rec = con.execute("select last_block from cache_address where address=?", (c.addr[name],)).fetchall()
        con.close()
    except Exception:
        return False
    seq = [(c.by_txid.get(bytes(r[0]).hex()), r[1]) for r in rows]
    if any(n is None for n, _ in seq):
        return False
    hist = c.txs_of(name, True)
    pos = {n: i for i, n in enumerate(hist)}
    inverted = any(h1 == h2 and pos.get(a, -1) > pos.get(b, -1) for (a, h1), (b, h2) in zip(seq, seq[1:]))
    if not inverted:
        return False
    after = c.by_txid.get(callrec['args'][1]) if callrec['args'][1] else None
    limit = callrec['args'][2]
    last_block = rec[0][0] if rec else None
    if after is not None:
        if after not in pos or last_block is None:
            return False
        h_after = c.txs[after]['height']
        model = []
        for n, h in seq:
            if h >= h_after and h <= last_block:
                model.append(n)
                if n == after:
                    model = []
    else:
        model = [n for n, _ in seq]
    model = model[:limit]
    got = [c.by_txid.get(el.txid) for el in prefix if isinstance(el, S.Transaction)]
    return got == model


def _cached_subset_explains(callrec, name, prefix, execs):
    """Narrow shape of one known deviation: without after_txid the cache hands out whatever transactions of the
    address it happens to hold (e.g. from getblock / gettransaction) as the head of the history and the provider is
    only asked for what follows the last of them. True when the call had no after_txid, the cache-served part is in
    chain order, the provider was asked exactly after its last element, and every history transaction missing in front
    of / inside that part is indeed absent from the cache (independent sqlite read)."""
    c = _state['W'].c
    S = _state['S']
    if callrec['args'][1] or not prefix or not all(isinstance(el, S.Transaction) for el in prefix):
        return False
    hist = c.txs_of(name, True)
    names = [c.by_txid.get(el.txid) for el in prefix]
    if any(n not in hist for n in names):
        return False
    idx = [hist.index(n) for n in names]
    if idx != sorted(set(idx)):
        return False
    if execs and execs[-1]['args'][1] != c.txs[names[-1]]['txid']:
        return False
    cached, _ = _cache_view(name)
    if cached is None:
        return False
    missing = [n for n in hist[:idx[-1]] if n not in names]
    return bool(missing) and not any(n in cached for n in missing)


def _run_problems(callrec, ret, name, asked_provider):
    """A transaction list for (address, after_txid) must be a gap-free run of the address history that starts right
    after after_txid (or at the beginning): nothing in the middle or at the head may be missing. When no provider was
    asked the run must also cover everything the cache holds for that request."""
    W = _state['W']
    c = W.c
    out = []
    m = callrec['m']
    after = c.by_txid.get(callrec['args'][1]) if callrec['args'][1] else None
    limit = callrec['args'][2]
    hist = c.txs_of(name, True)
    names = [c.by_txid.get(el.txid) for el in ret]
    conf = [n for n in names if n in hist]
    tail = names[len(conf):]
    if names[:len(conf)] != conf or any(n is None or c.txs[n]['height'] for n in tail):
        out.append(('mixed', '%s: unconfirmed / foreign transactions are not at the end of the list %s' % (m, names)))
        return out
    start = hist.index(after) + 1 if after in hist else 0
    if conf and conf != hist[start:start + len(conf)]:
        out.append(('partial', '%s(%s, after=%s) returned %s: not a gap-free run of the address history %s starting after %s' % (
            m, name, after, names, hist, after or 'the beginning')))
        return out
    if not asked_provider and after in hist + [None]:
        cached, last_block = _cache_view(name)
        if cached is not None:
            k = 0
            while start + k < len(hist) and hist[start + k] in cached and (last_block is None or c.txs[hist[start + k]]['height'] <= last_block):
                k += 1
            if len(conf) < min(k, limit):
                out.append(('partial', '%s(%s, after=%s) answered from the cache with %s although the cache holds %s for that request' % (
                    m, name, after, names, hist[start:start + min(k, limit)])))
    return out


def _stored_block_indexes(height):
    """Independent look (sqlite3, read only): chain transaction name -> stored in-block position for one block height."""
    import sqlite3
    c = _state['W'].c
    try:
        con = sqlite3.connect('file:%s?mode=ro' % _state['dbp'], uri=True)
        rows = con.execute('select txid, "index" from cache_transactions where block_height=?', (height,)).fetchall()
        con.close()
    except Exception:
        return None
    out = {}
    for txid, i in rows:
        n = c.by_txid.get(bytes(txid).hex())
        if n is None:
            return None
        out[n] = i
    return out


def _page_problems(callrec, ret, from_cache=False):
    """The transactions of a returned block are exactly the requested page of the block."""
    c = _state['W'].c
    S = _state['S']
    blockid, parse, page, limit = callrec['args']
    if limit is None:
        limit = 25 if parse else 99999
    b = [bb for bb in c.blocks.values() if bb['height'] == blockid or bb['hash'] == blockid]
    if not b:
        return []
    exp = b[0]['txs'][(page - 1) * limit: page * limit]
    got = [c.by_txid.get(el.txid if isinstance(el, S.Transaction) else el) for el in ret.transactions]
    if got != exp:
        key = ''
        if from_cache and None not in got and len(got) == len(exp):
            # two disjoint known mechanisms, told apart by an independent read of the stored in-block positions
            stored = _stored_block_indexes(b[0]['height'])
            if stored is not None:
                wrong = any(stored.get(n) != c.txs[n]['index'] for n in stored)
                if not wrong:
                    if set(got) == set(exp):
                        key = K_PAGE_ORDER + '|'    # positions stored correctly, same transactions, only the order differs
                else:
                    n_from, n_to = (page - 1) * limit, page * limit
                    in_range = [n for n, i in stored.items() if i is not None and n_from <= i < n_to]
                    idx = [stored.get(n) for n in got]
                    if sorted(in_range) == sorted(got) and None not in idx and idx == sorted(idx):
                        key = K_INDEX_ORDER + '|'   # the page rule applied to wrongly stored positions yields exactly this page
        return [('partial', key + 'getblock(%s, page=%s, limit=%s) returned transactions %s, the requested page of the block is %s' % (
            [k for k, v in c.blocks.items() if v is b[0]][0], page, limit, got, exp))]
    return []


def _judge_block(callrec, ret, fresh, execs, col):
    W = _state['W']
    c = W.c
    S = _state['S']
    out = []
    flat = [e for grp in fresh for e in grp]
    if any(ret is e['value'] for e in flat):
        return out
    from bitcoinlib.blocks import Block
    if not isinstance(ret, Block):
        return [('fabricated', 'getblock returned %s' % _short(ret))]
    hdr = {'bits': ret.bits_int, 'height': ret.height, 'merkle_root': ret.merkle_root.hex(), 'nonce': ret.nonce_int,
           'prev_block': ret.prev_block.hex(), 'time': ret.time, 'tx_count': ret.tx_count, 'version': ret.version_int}
    bh = ret.block_hash.hex()
    src = None
    for e in flat:
        d = e['value']
        if isinstance(d, dict) and d.get('block_hash') == bh and all(hdr[k] == d[k] for k in hdr):
            src = e
    blockid = callrec['args'][0]
    b = [bb for bb in c.blocks.values() if bb['height'] == blockid or bb['hash'] == blockid]
    if b and b[0]['hash'] != bh:
        out.append(('mixed', 'getblock(%s) returned block %s' % (blockid, bh[:16])))
    out += _page_problems(callrec, ret, from_cache=(src is None and not (flat and execs)))
    if src is not None:
        txs = src['value']['txs']
        if len(ret.transactions) != len(txs) or not all(a is b_ for a, b_ in zip(ret.transactions, txs)):
            out.append(('mixed', 'block transactions are not the transaction list of the answering provider'))
        return out
    if flat and execs:
        out.append(('fabricated', 'getblock header fields match no answer of a result provider of this call'))
        return out
    col.probe('cache_served')
    if not any(all(hdr[k] == d[k] for k in hdr) for d in W.reg_block.get(bh, [])):
        out.append(('cache', 'cached block header %s equals no stored provider answer' % bh[:16]))
    names = b[0]['txs'] if b else []
    for el in ret.transactions:
        if isinstance(el, S.Transaction):
            why = _tx_matches_registry(el, col)
            if why:
                out.append(('cache', why))
            if c.by_txid.get(el.txid) not in names:
                out.append(('cache', 'cached block lists transaction %s of another block' % _short(el.txid, 70)))
        elif c.by_txid.get(el) not in names:
            out.append(('cache', 'cached block lists txid %s of another block' % _short(el, 70)))
    return out


# =============================================================== executing a case
def _real_args(W, m, spec):
    c = W.c
    S = _state['S']
    if m == 'getbalance':
        addrs = [c.addr[a] for a in spec['addrs']]
        spec['addrs_real'] = list(addrs)
        if spec.get('as_str') and len(addrs) == 1:
            return (addrs[0],)
        return (list(addrs),)
    if m in ('getutxos', 'gettransactions'):
        after = c.txs[spec['after']]['txid'] if spec.get('after') else ''
        return (c.addr[spec['addr']], after, spec.get('limit', 20))
    if m in ('gettransaction', 'getrawtransaction'):
        return (c.txs[spec['tx']]['txid'],)
    if m == 'sendrawtransaction':
        return (c.txs[spec['tx']]['raw'],)
    if m == 'estimatefee':
        if spec.get('priority'):
            return (5, spec['priority'])
        return (spec.get('blocks', 5),)
    if m in ('blockcount', 'getinfo'):
        return ()
    if m == 'getblock':
        b = c.blocks[spec['blk']]
        return (b['hash'] if spec.get('by_hash') else b['height'], bool(spec.get('parse', True)), spec.get('page', 1), spec.get('limit'))
    if m == 'getrawblock':
        b = c.blocks[spec['blk']]
        return (b['hash'] if spec.get('by_hash') else b['height'],)
    if m == 'mempool':
        return (c.txs[spec['tx']]['txid'] if spec.get('tx') else '',)
    if m == 'isspent':
        return (c.txs[spec['tx']]['txid'], spec.get('n', 0))
    if m == 'getinputvalues':
        t = S.Transaction.parse_hex(c.txs[spec['tx']]['raw'], strict=False, network=W.net)
        return (t,)
    raise ValueError(m)


def _cache_state(W, m, spec):
    c = W.c
    if m in ('gettransaction', 'getrawtransaction', 'isspent', 'getinputvalues'):
        return 'seen' if c.txs[spec['tx']]['txid'] in W.reg_tx else 'cold'
    if m in ('gettransactions', 'getutxos'):
        return 'seen' if any(c.txs[n]['txid'] in W.reg_tx for n in c.txs_of(spec['addr'])) else 'cold'
    if m == 'getbalance':
        return 'seen' if any(c.txs[n]['txid'] in W.reg_tx for a in spec['addrs'] for n in c.txs_of(a)) else 'cold'
    if m == 'estimatefee':
        return 'seen' if W.reg_fee else 'cold'
    if m == 'getblock':
        return 'seen' if W.reg_block else 'cold'
    if m == 'blockcount':
        return 'seen' if W.reg_bc else 'cold'
    return 'nocache'


def run_case(case, col):
    S = _install()
    W = _state['W']
    _state['col'] = col
    W.begin_run(case)
    W.salt = case.get('rs', 0)
    _Clock.shift = 0.0
    d = os.environ['BCL_DATA_DIR']
    keys = {}
    for i, pr in enumerate(case['prio']):
        keys['c20p%d' % i] = {'provider': 'c20fake', 'network': case['net'], 'client_class': 'FakeClient',
                              'provider_coin_id': '', 'url': 'p%d' % i, 'api_key': '', 'priority': pr, 'denominator': 1,
                              'network_overrides': None, 'timeout': 0}
    with open(os.path.join(d, 'providers.json'), 'w') as f:
        json.dump(keys, f)
    _state['n'] += 1
    dbp = os.path.join(d, 'c20-cache-%d.sqlite' % _state['n'])
    shutil.copyfile(_state['tmpl'], dbp)
    _state['dbp'] = dbp
    srv = None
    services_made = []
    calls = [{'m': 'construct', 'a': {}, 'plans': case.get('ctor') or {}}] + list(case['calls'])
    pattern = lambda m, plans: tuple(k for _, k in sorted(zip(case['prio'], (plans.get(PRIMARY.get(m, m)) or ['ok'] * W.k)), key=lambda x: -x[0]))
    try:
        for idx, call in enumerate(calls):
            m = call['m']
            spec = dict(call.get('a') or {})
            _Clock.shift += call.get('adv', 0)
            W.epoch = min(2, W.epoch + call.get('grow', 0))      # new blocks become visible to the providers
            W.plans = {k: list(v) for k, v in (call.get('plans') or {}).items()}
            W.callno = idx
            e0 = len(W.executes)
            l0 = len(W.log)
            random.seed('c20-%s-%d' % (case.get('rs', 0), idx))
            ret = exc = None
            args = ()
            cstate = 'cold'
            try:
                if m == 'switch_net':
                    # a second Service, for another network, on the SAME cache database (the library's default set-up:
                    # one cache file for every network); the providers of the new network follow the same fault plans
                    cur_net = call['net']
                    W.net = cur_net            # the fake providers of the new Service build their answers for its network
                    for v in keys.values():
                        v['network'] = cur_net
                    with open(os.path.join(d, 'providers.json'), 'w') as f:
                        json.dump(keys, f)
                    srv = S.Service(network=cur_net, min_providers=case['minp'], max_providers=case['maxp'],
                                    cache_uri=dbp, max_errors=case['me'])
                    ret = srv
                elif m == 'construct':
                    # registry of block counts must exist before judging: collected from the log below
                    srv = S.Service(network=case['net'], min_providers=case['minp'], max_providers=case['maxp'],
                                    cache_uri=dbp, max_errors=case['me'])
                    ret = srv
                else:
                    cstate = _cache_state(W, m, spec)
                    args = _real_args(W, m, spec)
                    _state['bc_valid_before'] = _blockcount_cache_valid()
                    if m == 'gettransactions':      # what the cache held for the address before this call
                        W.pre_cached = (spec['addr'], _cache_view(spec['addr'])[0])
                    ret = getattr(srv, m)(*args)
            except BaseException as e:
                if isinstance(e, (KeyboardInterrupt, SystemExit)):
                    raise
                exc = e
            execs = W.executes[e0:]
            callrec = {'index': idx, 'm': m, 'spec': spec, 'args': args, 'ret': ret, 'exc': exc, 'srv': srv, 'execs': execs}
            for e in W.log[l0:]:
                if e['method'] == 'blockcount' and e['kind'] in fm.ANSWERING:
                    W.reg_bc.append(e['value'])
            for r in execs:
                judge_execute(r, col, case, callrec)
                if r['method'] == 'blockcount':
                    W.last_bc_failed = r['failed']
            if m == 'switch_net':
                col.case('switch_net/%s->%s' % (case['net'], call['net']), nontrivial=('switch', case['net'], call['net']),
                         sample=dict(case, failing_call=idx))
                if srv is None or exc is not None:
                    col.note_inconclusive('second Service for %s could not be constructed: %r' % (call['net'], exc))
                    break
                continue
            judge_call(callrec, col, case)
            # every answer belongs to the network of the Service that was asked (one cache database serves all networks)
            if exc is None and srv is not None and m in ('gettransaction', 'gettransactions', 'getutxos') and ret:
                col.probe('answer_network')
                want = srv.network.name
                items = ret if isinstance(ret, list) else [ret]
                other = sorted({getattr(getattr(t, 'network', None), 'name', None) or (isinstance(t, dict) and t.get('network_name')) or want
                                for t in items} - {want})
                if other:
                    col.violation(None, 'API %s: a Service for %s answered with data of network %s (%d provider answers in this call) '
                                  '[answer of another network]' % (m, want, other, sum(1 for r in execs for a in r.get('answers', []) or [])),
                                  dict(case, failing_call=idx), other, want)
            if m != 'construct':
                check_address_records(callrec, col, case)
            invoked = len(W.log) > l0
            pat = pattern(m if m != 'construct' else 'blockcount', W.plans)
            cls = '%s/%s/%s' % (m, 'seq%d' % min(idx, 2) if idx else 'ctor', cstate)
            nt = (m, pat, case['me'], max(case['maxp'], case['minp']), cstate, min(idx, 3), bool(call.get('adv'))) if (invoked or (exc is None and m != 'construct')) else None
            col.case(cls, nontrivial=nt, sample=dict(case, failing_call=idx))
            if m == 'construct' and srv is None:
                break
        if W.net_violations:
            col.violation(None, 'network access attempted during the run: %s' % sorted(set(W.net_violations)), case,
                          sorted(set(W.net_violations)), 'fake providers only')
            del W.net_violations[:]
        col.probe('no_network_guard')
    finally:
        seen = set()
        for r in W.executes:
            s = r['svc']
            if id(s) in seen:
                continue
            seen.add(id(s))
            try:
                if s.cache and s.cache.session:
                    eng = s.cache.session.get_bind()
                    s.cache.session.close()
                    eng.dispose()
            except Exception:
                pass
        if srv is not None and id(srv) not in seen:
            try:
                eng = srv.cache.session.get_bind()
                srv.cache.session.close()
                eng.dispose()
            except Exception:
                pass
        for suffix in ('', '-journal', '-wal', '-shm'):
            try:
                os.unlink(dbp + suffix)
            except OSError:
                pass


# =============================================================== workload generation
def default_spec(m, rnd):
    if m == 'getbalance':
        return rnd.choice([{'addrs': ['A']}, {'addrs': ['B'], 'as_str': True}, {'addrs': ['A', 'B', 'C']},
                           {'addrs': ['A', 'B', 'C', 'D', 'E', 'F', 'G']}])
    if m in ('getutxos', 'gettransactions'):
        return rnd.choice([{'addr': 'A'}, {'addr': 'B'}, {'addr': 'C'}, {'addr': 'A', 'limit': 2}, {'addr': 'C', 'limit': 3},
                           {'addr': 'A', 'after': 't1'}, {'addr': 'C', 'after': 't5'}, {'addr': 'C', 'after': 't9'},
                           {'addr': 'A', 'after': 't9'}, {'addr': 'B', 'after': 't2'}])
    if m in ('gettransaction', 'getrawtransaction'):
        return {'tx': rnd.choice(['t1', 't2', 't3', 't4', 't5', 't6', 't9', 't10'])}
    if m == 'sendrawtransaction':
        return {'tx': 't6'}
    if m == 'estimatefee':
        return rnd.choice([{'blocks': 1}, {'blocks': 3}, {'blocks': 5}, {'blocks': 10}, {'priority': 'low'}, {'priority': 'high'}])
    if m in ('getblock',):
        return rnd.choice([{'blk': 'b1'}, {'blk': 'b1', 'by_hash': True}, {'blk': 'b2', 'parse': False}, {'blk': 'b1', 'limit': 1},
                           {'blk': 'b1', 'limit': 1, 'page': 2}, {'blk': 'b3'}, {'blk': 'b4'}, {'blk': 'b4', 'limit': 2},
                           {'blk': 'b4', 'limit': 2, 'page': 2}, {'blk': 'b4', 'limit': 1, 'page': 3, 'parse': False}])
    if m == 'getrawblock':
        return rnd.choice([{'blk': 'b1'}, {'blk': 'b2', 'by_hash': True}])
    if m == 'mempool':
        return rnd.choice([{'tx': 't6'}, {'tx': 't1'}, {}])
    if m == 'isspent':
        return rnd.choice([{'tx': 't1', 'n': 0}, {'tx': 't1', 'n': 1}, {'tx': 't3', 'n': 1}, {'tx': 't2', 'n': 1}])
    if m == 'getinputvalues':
        return {'tx': rnd.choice(['t3', 't4', 't6'])}
    return {}


def _cfg(rnd, k):
    return rnd.choice(MAX_ERRORS), rnd.choice(MINMAX), rnd.choice(NETS)


def gen_enumeration(tier, seed):
    """Exhaustive: fault plans x priority orders x methods, cold cache. Config chosen per case from the seed."""
    kmax = 4 if tier == 'thorough' else 3
    n = 0
    for k in range(1, kmax + 1):
        for kinds in itertools.product(KINDS4, repeat=k):
            for perm in itertools.permutations(range(k)):
                for m in METHODS:
                    n += 1
                    yield n, k, kinds, perm, m


def make_enum_case(n, k, kinds, perm, m, seed, variant=0):
    rnd = random.Random('%s-enum-%d-%d-%d' % (ID, seed, n, variant))
    me, (minp, maxp), net = _cfg(rnd, k)
    if variant == 0 and n % 3 == 0:
        minp, maxp = 1, 1
    prio = [10 * (k - perm.index(i)) for i in range(k)]
    prim = PRIMARY.get(m, m)
    case = {'net': net, 'prio': prio, 'me': me, 'minp': minp, 'maxp': maxp, 'rs': rnd.randrange(10 ** 6), 'calls': [],
            'spent_info': rnd.random() < 0.5}
    if m == 'blockcount':
        case['ctor'] = {'blockcount': list(kinds)}
        # second look after the stored count expired, same plan; then a changed plan
        case['calls'].append({'m': 'blockcount', 'a': {}, 'plans': {'blockcount': list(kinds)}, 'adv': rnd.choice([0, 4, 61])})
        rot = list(kinds[1:] + kinds[:1])
        case['calls'].append({'m': 'blockcount', 'a': {}, 'plans': {'blockcount': rot}, 'adv': 61})
    else:
        spec = default_spec(m, rnd)
        case['calls'].append({'m': m, 'a': spec, 'plans': {prim: list(kinds)}})
        # follow-up on the same Service: same query, plan rotated (warm when the first call succeeded)
        rot = list(kinds[1:] + kinds[:1])
        case['calls'].append({'m': m, 'a': dict(spec), 'plans': {prim: rot}, 'adv': rnd.choice([0, 0, 61])})
    return case


def make_random_case(rnd, thorough):
    k = rnd.choice([2, 3, 3, 4] if thorough else [2, 3, 3, 4])
    me, (minp, maxp), net = _cfg(rnd, k)
    prio = [rnd.choice([0, 5, 10, 10, 20]) for _ in range(k)]
    kinds5 = ('ok', 'ok', 'ok', 'exc', 'exc', 'empty', 'malformed', 'nomethod')

    def plan():
        r = rnd.random()
        if r < 0.15:
            return ['ok'] * k
        if r < 0.25:
            return [rnd.choice(['exc', 'empty']) for _ in range(k)]
        return [rnd.choice(kinds5) for _ in range(k)]
    case = {'net': net, 'prio': prio, 'me': me, 'minp': minp, 'maxp': maxp, 'rs': rnd.randrange(10 ** 6), 'calls': []}
    if rnd.random() < 0.3:
        case['ctor'] = {'blockcount': plan()}
    focus = rnd.choice(['A', 'B', 'C'])
    for _ in range(rnd.randint(2, 5)):
        m = rnd.choice(METHODS)
        spec = default_spec(m, rnd)
        if 'addr' in spec and rnd.random() < 0.6:
            spec['addr'] = focus
        plans = {PRIMARY.get(m, m): plan()}
        if rnd.random() < 0.3:
            plans['blockcount'] = plan()
        if m == 'getinputvalues' and rnd.random() < 0.5:
            plans['gettransaction'] = plan()
        case['calls'].append({'m': m, 'a': spec, 'plans': plans, 'adv': rnd.choice([0, 0, 0, 4, 61, 61, 700]),
                              'grow': rnd.choice([0, 0, 0, 1])})
    case['spent_info'] = rnd.random() < 0.5
    return case


def gen_cache_scenarios():
    """Scripted cold -> warm -> partially filled -> expired sequences for every cache-backed method."""
    out = []
    fails = (['exc', 'exc'], ['empty', 'exc'], ['ok', 'exc'], ['exc', 'ok'], ['malformed', 'ok'])
    base = lambda net, me: {'net': net, 'prio': [20, 10], 'me': me, 'minp': 1, 'maxp': 1, 'rs': 7, 'calls': []}
    n = 0
    for net in NETS:
        for second in fails:
            for adv in (0, 61, 700):
                me = MAX_ERRORS[n % 4]
                n += 1
                ok = ['ok', 'ok']
                for txn in ('t1', 't4', 't6'):
                    cs = base(net, me)
                    cs['calls'] = [{'m': 'gettransaction', 'a': {'tx': txn}, 'plans': {'gettransaction': ok}},
                                   {'m': 'gettransaction', 'a': {'tx': txn}, 'plans': {'gettransaction': second}, 'adv': adv},
                                   {'m': 'getrawtransaction', 'a': {'tx': txn}, 'plans': {'getrawtransaction': second}},
                                   {'m': 'gettransaction', 'a': {'tx': 't2'}, 'plans': {'gettransaction': second}},
                                   {'m': 'isspent', 'a': {'tx': txn, 'n': 0}, 'plans': {'isspent': second}}]
                    out.append(cs)
                for a in ('A', 'B', 'C'):
                    cs = base(net, me)
                    cs['calls'] = [{'m': 'gettransactions', 'a': {'addr': a, 'limit': 2}, 'plans': {'gettransactions': ok}},
                                   {'m': 'gettransactions', 'a': {'addr': a}, 'plans': {'gettransactions': second}, 'adv': adv},
                                   {'m': 'getutxos', 'a': {'addr': a}, 'plans': {'getutxos': second}},
                                   {'m': 'getbalance', 'a': {'addrs': [a]}, 'plans': {'getbalance': second}},
                                   {'m': 'gettransactions', 'a': {'addr': a}, 'plans': {'gettransactions': ['exc', 'exc']}}]
                    out.append(cs)
                    cs = base(net, me)
                    cs['calls'] = [{'m': 'gettransactions', 'a': {'addr': a}, 'plans': {'gettransactions': ok}},
                                   {'m': 'gettransactions', 'a': {'addr': a}, 'plans': {'gettransactions': second}, 'adv': adv},
                                   {'m': 'getbalance', 'a': {'addrs': [a]}, 'plans': {'getbalance': second}},
                                   {'m': 'getutxos', 'a': {'addr': a}, 'plans': {'getutxos': ok}},
                                   {'m': 'getutxos', 'a': {'addr': a}, 'plans': {'getutxos': second}},
                                   {'m': 'gettransaction', 'a': {'tx': 't3'}, 'plans': {'gettransaction': second}}]
                    out.append(cs)
                for blk in ({'blk': 'b1'}, {'blk': 'b1', 'limit': 1}, {'blk': 'b2', 'parse': False}, {'blk': 'b1', 'by_hash': True}):
                    cs = base(net, me)
                    cs['calls'] = [{'m': 'getblock', 'a': dict(blk), 'plans': {'getblock': ok}},
                                   {'m': 'getblock', 'a': dict(blk), 'plans': {'getblock': second}, 'adv': adv},
                                   {'m': 'getblock', 'a': {'blk': 'b1'}, 'plans': {'getblock': second}},
                                   {'m': 'gettransaction', 'a': {'tx': 't2'}, 'plans': {'gettransaction': second}}]
                    out.append(cs)
                for fee in ({'blocks': 3}, {'blocks': 10}, {'priority': 'high'}):
                    cs = base(net, me)
                    cs['calls'] = [{'m': 'estimatefee', 'a': dict(fee), 'plans': {'estimatefee': ok}},
                                   {'m': 'estimatefee', 'a': dict(fee), 'plans': {'estimatefee': second}, 'adv': adv},
                                   {'m': 'estimatefee', 'a': {'blocks': 1}, 'plans': {'estimatefee': second}},
                                   {'m': 'blockcount', 'a': {}, 'plans': {'blockcount': second}, 'adv': adv}]
                    out.append(cs)
    return out


def gen_crossnet_scenarios():
    """Network A warms the shared cache database, then a Service for network B asks for the same ids: with working
    providers (B's provider must be consulted and its answer returned) and with every provider of B failing (refusal)."""
    out = []
    n = 0
    for a in NETS:
        for b in NETS:
            if a == b:
                continue
            for second in (['exc', 'exc'], ['ok', 'ok'], ['empty', 'exc'], ['exc', 'ok']):
                for txn in ('t1', 't4'):
                    me = MAX_ERRORS[n % 4]
                    n += 1
                    ok = ['ok', 'ok']
                    cs = {'net': a, 'prio': [20, 10], 'me': me, 'minp': 1, 'maxp': 1, 'rs': 11, 'calls': [
                        {'m': 'gettransaction', 'a': {'tx': txn}, 'plans': {'gettransaction': ok}},
                        {'m': 'gettransactions', 'a': {'addr': 'A'}, 'plans': {'gettransactions': ok}},
                        {'m': 'switch_net', 'net': b, 'plans': {}},
                        {'m': 'gettransaction', 'a': {'tx': txn}, 'plans': {'gettransaction': second}},
                        {'m': 'getrawtransaction', 'a': {'tx': txn}, 'plans': {'getrawtransaction': second}},
                        {'m': 'gettransaction', 'a': {'tx': 't2'}, 'plans': {'gettransaction': second}},
                        {'m': 'switch_net', 'net': a, 'plans': {}},
                        {'m': 'gettransaction', 'a': {'tx': txn}, 'plans': {'gettransaction': second}}]}
                    out.append(cs)
    return out


def gen_record_scenarios():
    """Multi-method families: method A warms the cache, the chain may grow, method B (a query that writes the stored
    address record) runs, methods C read the record back (directly, and with every provider failing)."""
    out = []
    first_tx = {'A': 't1', 'B': 't2', 'C': 't3'}
    n = 0
    for addr in ('A', 'B', 'C'):
        warms = [[{'m': 'gettransactions', 'a': {'addr': addr}}],
                 [{'m': 'gettransactions', 'a': {'addr': addr, 'limit': 2}}],
                 [{'m': 'getblock', 'a': {'blk': 'b1'}}, {'m': 'getblock', 'a': {'blk': 'b2'}}, {'m': 'getblock', 'a': {'blk': 'b3'}},
                  {'m': 'getblock', 'a': {'blk': 'b4'}}, {'m': 'getutxos', 'a': {'addr': addr}}],
                 [{'m': 'gettransaction', 'a': {'tx': first_tx[addr]}}, {'m': 'getutxos', 'a': {'addr': addr}}]]
        writers = [{'m': 'getutxos', 'a': {'addr': addr}}, {'m': 'getutxos', 'a': {'addr': addr, 'limit': 1}},
                   {'m': 'getutxos', 'a': {'addr': addr, 'after': first_tx[addr]}}, {'m': 'gettransactions', 'a': {'addr': addr}},
                   {'m': 'gettransactions', 'a': {'addr': addr, 'limit': 1}}, {'m': 'getbalance', 'a': {'addrs': [addr]}}]
        for spent_info in (True, False):
            for warm in warms:
                for grow in (0, 1, 2):
                    for writer in writers:
                        n += 1
                        cs = {'net': NETS[n % 3], 'prio': [20, 10], 'me': 4, 'minp': 1, 'maxp': 1, 'rs': n, 'spent_info': spent_info,
                              'calls': []}
                        ok = ['ok', 'ok']
                        wplan = [ok, ['exc', 'ok'], ['ok', 'empty']][n % 3]
                        for w in warm:
                            cs['calls'].append({'m': w['m'], 'a': dict(w['a']), 'plans': {w['m']: ok}})
                        cs['calls'].append({'m': writer['m'], 'a': dict(writer['a']), 'plans': {writer['m']: wplan}, 'grow': grow})
                        cs['calls'].append({'m': 'getbalance', 'a': {'addrs': [addr]}, 'plans': {'getbalance': ok}})
                        cs['calls'].append({'m': 'getutxos', 'a': {'addr': addr}, 'plans': {'getutxos': ok}, 'grow': n % 2})
                        cs['calls'].append({'m': 'getbalance', 'a': {'addrs': [addr]}, 'plans': {'getbalance': ['exc', 'exc']}})
                        cs['calls'].append({'m': 'gettransactions', 'a': {'addr': addr}, 'plans': {'gettransactions': ok}})
                        cs['calls'].append({'m': 'getbalance', 'a': {'addrs': [addr], 'as_str': True}, 'plans': {'getbalance': ['empty', 'exc']}})
                        out.append(cs)
    return out


def gen_after_scenarios():
    """Warm the cache with the address history, then ask for the transactions after every position of that history
    (several positions share a block) under different provider fault plans."""
    out = []
    hist = {'A': ['t1', 't2', 't3', 't9', 't10'], 'B': ['t2', 't4', 't5'], 'C': ['t3', 't4', 't5', 't9', 't10']}
    plans = (['ok', 'ok'], ['exc', 'exc'], ['empty', 'exc'], ['exc', 'ok'], ['malformed', 'ok'])
    n = 0
    for addr in ('A', 'B', 'C'):
        for warm in ({'addr': addr}, {'addr': addr, 'limit': 4}, None):
            for pl in plans:
                for grow in (0, 1):
                    n += 1
                    cs = {'net': NETS[n % 3], 'prio': [20, 10], 'me': MAX_ERRORS[n % 4], 'minp': 1, 'maxp': 1, 'rs': n,
                          'spent_info': bool(n % 2), 'calls': []}
                    if warm is not None:
                        cs['calls'].append({'m': 'gettransactions', 'a': dict(warm), 'plans': {'gettransactions': ['ok', 'ok']}})
                    else:
                        cs['calls'].append({'m': 'getblock', 'a': {'blk': 'b4'}, 'plans': {'getblock': ['ok', 'ok']}})
                        cs['calls'].append({'m': 'getutxos', 'a': {'addr': addr}, 'plans': {'getutxos': ['ok', 'ok']}})
                    for j, x in enumerate(hist[addr]):
                        cs['calls'].append({'m': 'gettransactions', 'a': {'addr': addr, 'after': x}, 'plans': {'gettransactions': list(pl)},
                                            'grow': grow if j == 2 else 0})
                    out.append(cs)
    return out


def gen_page_scenarios():
    """Paged getblock sequences over blocks with more transactions than one page: a first successful request caches
    the header and part of the block, a second request that the cache covers fully / partly / not at all runs under
    every provider fault plan."""
    out = []
    firsts = ((1, 2), (1, 1), (2, 1), (1, 3))
    seconds = ((1, 3), (2, 2), (2, 1), (3, 1), (1, 2), (1, None))
    n = 0
    for blk in ('b4', 'b1'):
        for fp, fl in (firsts if blk == 'b4' else firsts[1:3]):
            for sp, sl in seconds:
                for pl in itertools.product(KINDS4, repeat=2):
                    n += 1
                    parse = bool(n % 3)
                    cs = {'net': NETS[n % 3], 'prio': [20, 10], 'me': (1, 2, 4)[n % 3], 'minp': 1, 'maxp': 1, 'rs': n,
                          'spent_info': bool(n % 2), 'calls': [
                              {'m': 'getblock', 'a': {'blk': blk, 'page': fp, 'limit': fl, 'parse': parse, 'by_hash': bool(n % 2)},
                               'plans': {'getblock': ['ok', 'ok']}},
                              {'m': 'getblock', 'a': {'blk': blk, 'page': sp, 'limit': sl, 'parse': parse}, 'plans': {'getblock': list(pl)},
                               'adv': (0, 61)[n % 2]},
                              {'m': 'getblock', 'a': {'blk': blk, 'page': 1, 'limit': 3, 'parse': parse}, 'plans': {'getblock': list(pl[::-1])}}]}
                    out.append(cs)
    return out


def plan(tier, seed, scale=1.0):
    thorough = tier == 'thorough'
    nshard = 16
    return [{'shard': i, 'nshard': nshard, 'n_random': int((9000 if thorough else 640) * scale / nshard) + 1,
             'scale': scale} for i in range(nshard)]


def run_shard(spec, col):
    try:
        fm.selfcheck()
        rtx.selfcheck()
    except Exception as e:
        col.note_inconclusive('reference self-check failed: %r' % (e,))
        return
    for p in ('failover_loop', 'api_call', 'cache_served', 'no_network_guard', 'address_record', 'answer_network'):
        col.require(p)
    sh, ns = spec['shard'], spec['nshard']
    tier, seed = spec.get('tier', 'quick'), spec['seed']
    thorough = tier == 'thorough'
    # A. exhaustive enumeration (striped over the shards)
    for n, k, kinds, perm, m in gen_enumeration(tier, seed):
        if n % ns != sh:
            continue
        run_case(make_enum_case(n, k, kinds, perm, m, seed), col)
        if thorough and k <= 3:
            for variant in range(1, 6):
                run_case(make_enum_case(n, k, kinds, perm, m, seed, variant), col)
    # B. scripted cache scenarios
    for j, cs in enumerate(gen_cache_scenarios()):
        if j % ns == sh and (thorough or j % 3 == seed % 3):
            run_case(cs, col)
    # B2. warm -> write address record -> read families
    for j, cs in enumerate(gen_record_scenarios()):
        if j % ns == sh:
            cs = dict(cs, rs=cs['rs'] + 1000 * seed, me=MAX_ERRORS[(j + seed) % 4])
            run_case(cs, col)
    # B5. two networks on one cache database
    for j, cs in enumerate(gen_crossnet_scenarios()):
        if j % ns == sh:
            run_case(dict(cs, rs=cs['rs'] + 1000 * seed), col)
    # B3. after_txid at every position of a warm history; B4. paged getblock under every fault plan
    for j, cs in enumerate(gen_after_scenarios() + gen_page_scenarios()):
        if j % ns == sh:
            run_case(dict(cs, rs=cs['rs'] + 1000 * seed), col)
    # C. random sequences
    rnd = random.Random('%s-%d-%d' % (ID, seed, sh))
    for _ in range(spec['n_random']):
        run_case(make_random_case(rnd, thorough), col)


def replay(case, col):
    fm.selfcheck()
    case = dict(case)
    case.pop('failing_call', None)
    run_case(case, col)
