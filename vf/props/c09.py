"""C09 - wallet keys follow BIP44/49/84 (single-sig) and BIP45/48 (multisig) paths and restore deterministically.

Monitors: postcondition on every WalletKey returned by new_key / new_key_change / get_key(s) / new_keys /
new_account / key_for_path and on the keys() rows (path template, BIP32 reference derivation of key material,
reference address); history checker over issued indices per chain (gap free, no repeats, no shared address);
restore checker: wallets recreated from the same seed / mnemonic / extended private key, and watch-only from the
account public key, must hand out the same address for every (change, index).
"""
import os
import re
import hmac
import random
import hashlib
import unicodedata

from vf import wallet_ref
from vf.refs import bip32, codec
from vf.refs import chain as rchain
from vf.refs import secp256k1 as ec

ID = 'C09'
K_PREFIX_LABEL = 'C09/shared-hd-prefix/derived-key-witness-type-taken-from-ambiguous-parent-wif'
K_MS_BULK_INDEX = 'C09/multisig/bulk-created-keys-record-first-address-index'
LEVEL = 'exploration'
ANCHORS = ['bitcoinlib/wallets.py', 'bitcoinlib/keys.py', 'bitcoinlib/config/config.py', 'bitcoinlib/main.py']
RULE = ('per wallet (network x witness type x HD/multisig, harness-chosen seed) a random history of 5-40 key operations '
        '(new_key, new_key_change, get_key, get_keys(n), new_keys(n), new_account, key_for_path, mixed witness_type requests, '
        'reopen) - every returned key judged against path template + BIP32 reference derivation + reference address; chains '
        'checked gap-free/unique after each op; then the wallet is recreated from seed, mnemonic, xprv and watch-only from the '
        'account xpub and every (change, index) address compared. Non-trivial = distinct (network, witness type, kind, history '
        'shape) with >= 2 chains used')
TRUSTED_BASE = ['vf/refs/bip32.py (TV1-3 self-check)', 'vf/wallet_ref.py path templates (BIP44/45/48/49/84)', 'golden/chainparams.json coin types + prefixes',
                'hashlib.pbkdf2_hmac for mnemonic -> seed']
ASSUMPTIONS = ['explicit key_for_path requests are excluded from the gap-free rule (a request for a specific index) but not from derivation/uniqueness',
               'legacy (BIP45) multisig wallets are created with an explicit common cosigner_id']

NETWORKS = ['bitcoin', 'testnet', 'litecoin', 'bitcoinlib_test', 'litecoin_testnet', 'regtest', 'testnet4', 'signet', 'dogecoin', 'litecoin_legacy',
            'dogecoin_testnet']
H = bip32.HARD


def parse_path(s):
    out = []
    for el in s.split('/'):
        if el in ('m', 'M', ''):
            continue
        hard = el[-1] in "'hHpP"
        n = int(el[:-1] if hard else el)
        out.append(n + H if hard else n)
    return out


class Monitor:
    def __init__(self, col, case, ref, kind, network, wt, multisig_refs=None):
        self.col, self.case, self.ref, self.kind, self.network, self.wt = col, case, ref, kind, network, wt
        self.chains = {}      # (account, witness_type, change) -> set(index)
        self.mixed_seen = False
        self.issued_ids = set()
        self.bulk_seen = False
        self.judged_ids = set()
        self.addresses = {}   # address -> (key_id)
        self.explicit = set()
        self.refs_wt = {wt: ref}

    def ref_for(self, wt):
        if wt not in self.refs_wt:
            if self.kind == 'hd':
                self.refs_wt[wt] = wallet_ref.SingleRef(self.case['_seed'], self.network, wt)
            else:
                self.refs_wt[wt] = wallet_ref.MultisigRef(self.case['_seeds'], self.case['m'], self.network, wt, sort_keys=self.case.get('sort', True))
        return self.refs_wt[wt]

    def viol(self, desc, obs=None, exp=None, key=None):
        c = {k: v for k, v in self.case.items() if not k.startswith('_')}
        self.col.violation(key, '[%s/%s/%s] %s' % (self.kind, self.wt, self.network, desc), c, obs, exp)

    def judge_key(self, wk, how, explicit=False):
        """postcondition on one WalletKey"""
        col = self.col
        col.probe('key_postcondition')
        if how.split('(')[0] in ('new_key', 'new_key_change', 'new_keys') and wk.key_id in self.issued_ids and self.kind != 'single':
            self.viol('%s returned key %s (%s) that had already been issued: indices must be issued without repeats'
                      % (how, wk.key_id, wk.path), wk.path, 'a new index')
        self.issued_ids.add(wk.key_id)
        self.judged_ids.add(wk.key_id)
        wt = wk.witness_type or self.wt
        skip_addr = False
        if self.kind == 'hd' and wt != self.wt and rchain.hd_prefix(self.network, wt, False, True) == rchain.hd_prefix(self.network, self.wt, False, True):
            # narrow predicate for K_PREFIX_LABEL: the key sits exactly at the path of the wallet's *own* witness type but is
            # labelled (and possibly addressed) with another witness type that shares the same extended-key prefix on this
            # network (litecoin Mtub/Mtpv, litecoin_testnet ttub/ttpv): the type was re-guessed from the parent's WIF
            try:
                own_path = wallet_ref.single_path(self.wt, self.network, wk.account_id, wk.change, wk.address_index)
                if parse_path(wk.path) == own_path:
                    own_addr = self.ref.address(wk.account_id, wk.change, wk.address_index)
                    alt_addr = rchain.address_for_script(self.network, wallet_ref.spk_single(wt, self.ref.key(wk.account_id, wk.change, wk.address_index).pub))
                    if wk.address in (own_addr, alt_addr):
                        self.viol('%s: key at %s (address %s) is labelled witness_type=%s in a %s wallet (shared extended-key prefix)'
                                  % (how, wk.path, wk.address, wt, self.wt), wt, self.wt, key=K_PREFIX_LABEL)
                        wt = self.wt
                        skip_addr = True
            except Exception:
                pass
        ref = self.ref_for(wt)
        path = wk.path
        try:
            pl = parse_path(path)
        except Exception:
            self.viol('%s: unparsable path %r' % (how, path), path, None)
            return
        acc, ch, idx = wk.account_id, wk.change, wk.address_index
        if self.kind == 'hd':
            want_path = wallet_ref.single_path(wt, self.network, acc, ch, idx)
            if pl != want_path or not path.startswith('m/'):
                self.viol('%s: key path %s is not the documented path %s for (witness_type=%s, account=%s, change=%s, index=%s)'
                          % (how, path, wallet_ref.path_str(want_path), wt, acc, ch, idx), path, wallet_ref.path_str(want_path))
                return
            rk = ref.key(acc, ch, idx)
            want_addr = ref.address(acc, ch, idx)
            try:
                hk = wk.key()
                if hk.public_byte != rk.pub:
                    self.viol('%s: public key at %s is not the BIP32 derivation from the master key' % (how, path), hk.public_hex, rk.pub.hex())
                if hk.is_private and hk.secret != rk.secret:
                    self.viol('%s: private key at %s is not the BIP32 derivation from the master key' % (how, path), 'secret mismatch', None)
                if hk.depth != len(pl) or hk.child_index != pl[-1] or hk.chain != rk.chain or hk.parent_fingerprint != rk.parent_fp:
                    self.viol('%s: depth/child number/chain code/parent fingerprint of key at %s differ from BIP32' % (how, path),
                              {'depth': hk.depth, 'child': hk.child_index, 'fp': hk.parent_fingerprint.hex()},
                              {'depth': len(pl), 'child': pl[-1], 'fp': rk.parent_fp.hex()})
            except Exception as e:
                self.viol('%s: reading key material at %s raised %r' % (how, path, e), repr(e), None)
        else:
            # multisig: the wallet key is the script; its path is relative to the cosigner account keys
            tail = pl[-2:]
            if self.bulk_seen and len(tail) == 2 and tail[0] == ch and tail[1] != idx and wk.address == ref.address(acc or 0, ch, tail[1]):
                # narrow predicate for K_MS_BULK_INDEX: path and address agree on index tail[1]; only the recorded
                # address_index differs, and a bulk key request happened earlier in this wallet
                self.viol('%s: multisig key at %s records address_index %s (path and address say %s)' % (how, path, idx, tail[1]), idx, tail[1], key=K_MS_BULK_INDEX)
                idx = tail[1]
            want_addr = ref.address(acc or 0, ch, idx)
            if tail != [ch, idx]:
                self.viol('%s: multisig key path %s does not end in change/index %s/%s' % (how, path, ch, idx), path, [ch, idx])
        if wk.address != want_addr and not skip_addr:
            self.viol('%s: address of key at %s differs from the reference address' % (how, path), wk.address, want_addr)
        # uniqueness
        prev = self.addresses.get(wk.address)
        if prev is not None and prev != wk.key_id:
            self.viol('%s: address %s is shared by key ids %s and %s' % (how, wk.address, prev, wk.key_id), wk.address, 'unique address')
        self.addresses[wk.address] = wk.key_id
        ck = (acc, wt, ch)
        if how.split('(')[0] in ('new_key', 'new_key_change', 'new_keys') and self.kind != 'single' and idx is not None:
            before = self.chains.get(ck, set())
            if before and idx <= max(before):
                # a key-creating request continues after the highest index ever issued on the chain (explicit ones included)
                self.viol('%s issued index %s on chain %s although index %s was issued before: the next new key must follow the highest issued index'
                          % (how, idx, ck, max(before)), idx, max(before) + 1)
        self.chains.setdefault(ck, set()).add(idx)
        if explicit:
            self.explicit.add((ck, idx))

    def check_chains(self, how):
        self.col.probe('chain_check')
        for ck, s in self.chains.items():
            implicit = {i for i in s if (ck, i) not in self.explicit}
            if not implicit or len(implicit) != len(s):
                continue   # a chain touched by an explicit key_for_path request is exempt from the gap rule
            # indices issued implicitly must be gap free w.r.t. everything issued on that chain
            top = max(implicit)
            missing = [i for i in range(top + 1) if i not in s]
            if missing:
                self.viol('%s: chain %s issued indices %s with gaps %s' % (how, ck, sorted(s)[:12], missing[:6]), sorted(s), 'gap free 0..%d' % top)

    def sync_rows(self, w):
        """every leaf row not yet seen through a return value (keys created implicitly by create / new_account) is judged too"""
        from bitcoinlib.wallets import WalletKey
        for k in w.keys(depth=w.key_depth):
            if self.kind == 'multisig' and k.key_type != 'multisig':
                continue
            if k.id not in self.judged_ids:
                try:
                    self.judge_key(w.key(k.id), 'row')
                except Exception as e:
                    self.viol('reading key row %s raised %r' % (k.id, e), repr(e), None)

    def check_rows(self, w):
        """keys() rows: no duplicate addresses, no duplicate (chain, index), every leaf row judged"""
        seen = {}
        seen_path = {}
        for k in w.keys(depth=w.key_depth):
            if self.kind == 'multisig' and k.key_type != 'multisig':
                continue
            ident = (k.account_id, k.witness_type, k.change, k.address_index, k.cosigner_id if self.kind == 'multisig' else None)
            if ident in seen:
                key = K_MS_BULK_INDEX if (self.kind == 'multisig' and self.bulk_seen and k.path != seen_path.get(ident)) else None
                self.viol('keys(): index %s recorded twice (key ids %s, %s)' % (ident, seen[ident], k.id), ident, 'unique', key=key)
            seen_path[ident] = k.path
            seen[ident] = k.id


def make_wallet(case, db_uri):
    """-> (wallet, ref). Seeds are derived from the case."""
    from bitcoinlib.wallets import Wallet
    from bitcoinlib.keys import HDKey
    from vf import wallet_env
    network, wt, kind = case['network'], case['wt'], case['kind']
    name = 'c09_%s' % case['wseed']
    if kind == 'hd':
        seed = wallet_env.seed_bytes('c09-%s' % case['wseed'], case.get('seedlen', 32))
        case['_seed'] = seed
        mk = HDKey.from_seed(seed, network=network, witness_type=wt)
        w = Wallet.create(name, keys=mk, network=network, witness_type=wt, db_uri=db_uri, account_id=case.get('default_account', 0))
        return w, wallet_ref.SingleRef(seed, network, wt)
    n, m = case['n'], case['m']
    seeds = [wallet_env.seed_bytes('c09-%s-co%d' % (case['wseed'], i)) for i in range(n)]
    case['_seeds'] = seeds
    masters = [HDKey.from_seed(s, network=network, witness_type=wt, multisig=True) for s in seeds]
    pubs = [mk.public_master_multisig(witness_type=wt) for mk in masters]
    own = case.get('own', 0)
    keys = [masters[i] if i == own else pubs[i] for i in range(n)]
    w = Wallet.create(name, keys=keys, sigs_required=m, network=network, witness_type=wt, db_uri=db_uri, cosigner_id=0,
                      sort_keys=case.get('sort', True))
    return w, wallet_ref.MultisigRef(seeds, m, network, wt, sort_keys=case.get('sort', True))


def run_wallet(case, col):
    from bitcoinlib.wallets import Wallet
    from vf import wallet_env
    network, wt, kind = case['network'], case['wt'], case['kind']
    db = os.path.join(os.environ['BCL_DATA_DIR'], 'c09_%s.sqlite' % case['wseed'])
    rnd = random.Random('c09-%s' % case['wseed'])
    try:
        w, ref = make_wallet(case, db)
    except Exception as e:
        col.violation(None, 'creating a %s/%s/%s wallet raised %r' % (kind, wt, network, e), {k: v for k, v in case.items() if not k.startswith('_')}, repr(e), None)
        return
    M = Monitor(col, case, ref, kind, network, wt)
    M.sync_rows(w)
    accounts = sorted({0, case.get('default_account', 0)}) if kind == 'hd' else [0]
    ops = []
    mixed_ok = kind == 'hd' and not network.startswith('dogecoin')
    for step in range(case['n_ops']):
        op = rnd.choice(['new_key', 'new_key', 'new_key_change', 'get_key', 'get_key_change', 'get_keys', 'new_keys', 'new_account', 'key_for_path',
                         'mixed', 'reopen'])
        acc = rnd.choice(accounts)
        try:
            if op == 'new_key':
                M.judge_key(w.new_key(account_id=acc), op)
            elif op == 'new_key_change':
                M.judge_key(w.new_key_change(account_id=acc), op)
            elif op == 'get_key':
                M.judge_key(w.get_key(account_id=acc), op)
            elif op == 'get_key_change':
                M.judge_key(w.get_key_change(account_id=acc), op)
            elif op == 'get_keys':
                M.bulk_seen = True
                for k in w.get_keys(account_id=acc, number_of_keys=rnd.randint(2, 5), change=rnd.choice([0, 1])):
                    M.judge_key(k, op)
            elif op == 'new_keys':
                M.bulk_seen = True
                for k in w.new_keys(account_id=acc, number_of_keys=rnd.randint(2, 6), change=rnd.choice([0, 1])):
                    M.judge_key(k, op)
            elif op == 'new_account':
                if kind == 'hd' and len(accounts) < 4:
                    a = w.new_account()
                    accounts.append(a.account_id)
                    want = wallet_ref.single_path(wt, network, a.account_id, 0, 0)[:3]
                    if parse_path(a.path) != want:
                        M.viol('new_account: account key path %s is not %s' % (a.path, wallet_ref.path_str(want)), a.path, wallet_ref.path_str(want))
                    else:
                        rk = ref.account_key(a.account_id)
                        if a.key().public_byte != rk.pub:
                            M.viol('new_account: account key is not the BIP32 derivation', a.key().public_hex, rk.pub.hex())
                    if a.account_id in accounts[:-1]:
                        M.viol('new_account returned an account id that exists already', a.account_id, 'a new account id')
                else:
                    op = 'skip'
            elif op == 'key_for_path':
                if kind == 'hd':
                    ch, idx = rnd.choice([0, 1]), rnd.choice([0, 1, 2, 7, 19, rnd.randrange(100)])
                    k = w.key_for_path([ch, idx], account_id=acc)
                    M.judge_key(k, op, explicit=True)
                else:
                    op = 'skip'
            elif op == 'mixed':
                if mixed_ok:
                    other = rnd.choice([x for x in ('legacy', 'p2sh-segwit', 'segwit') if x != wt])
                    M.judge_key(w.new_key(account_id=acc, witness_type=other), 'new_key(witness_type=%s)' % other)
                else:
                    op = 'skip'
            elif op == 'reopen':
                try:
                    w.session.close()
                except Exception:
                    pass
                w = Wallet('c09_%s' % case['wseed'], db_uri=db)
        except Exception as e:
            M.viol('operation %s raised %r' % (op, e), repr(e), 'key')
        ops.append(op)
        if op.startswith('mixed') or op == 'mixed':
            M.mixed_seen = True
        if op in ('get_keys', 'new_keys'):
            M.bulk_seen = True
        M.sync_rows(w)
        M.check_chains(op)
    M.check_rows(w)
    # master / account public export
    try:
        if kind == 'hd':
            # several exports from the same wallet object, one per account, in random order (and the default twice)
            order = list(accounts) + [case.get('default_account', 0)]
            rnd.shuffle(order)
            for a_ in order:
                col.probe('public_master_check')
                pm = w.public_master(account_id=a_)
                want = ref.account_key(a_).serialize(rchain.hd_prefix(network, wt, False, False), private=False)
                if pm.wif != want:
                    M.viol('public_master(account_id=%d).wif differs from the reference account xpub' % a_, pm.wif, want)
                wf = w.wif(is_private=False, account_id=a_)
                if wf != want:
                    M.viol('wif(is_private=False, account_id=%d) differs from the reference account xpub' % a_, wf, want)
            pm = w.public_master()
            want = ref.account_key(case.get('default_account', 0)).serialize(rchain.hd_prefix(network, wt, False, False), private=False)
            if pm.wif != want:
                M.viol('public_master().wif differs from the reference xpub of the default account', pm.wif, want)
    except Exception as e:
        M.viol('public_master raised %r' % (e,), repr(e), None)
    # ---------------------------------------------------------------- restore
    if kind == 'hd':
        restore_checks(case, col, M, ref, rnd)
    nchains = len(M.chains)
    col.case('wallet/%s/%s/%s' % (kind, wt, network), nontrivial=(network, wt, kind, tuple(sorted(set(ops)))) if nchains >= 2 else None,
             sample={'wallet': {k: v for k, v in case.items() if not k.startswith('_')}, 'ops': ops, 'chains': {str(k): sorted(v)[:10] for k, v in M.chains.items()}})
    try:
        w.session.close()
    except Exception:
        pass


def restore_checks(case, col, M, ref, rnd):
    from bitcoinlib.wallets import Wallet
    from bitcoinlib.keys import HDKey
    network, wt = case['network'], case['wt']
    db2 = os.path.join(os.environ['BCL_DATA_DIR'], 'c09_%s_restore.sqlite' % case['wseed'])
    seed = case['_seed']
    probes = [(0, 0), (0, 1), (1, 0), (0, 3), (1, 2)]
    variants = []
    xprv = ref.master.serialize(rchain.hd_prefix(network, wt, False, True))
    variants.append(('xprv', lambda: Wallet.create('r_xprv', keys=xprv, network=network, witness_type=wt, db_uri=db2)))
    variants.append(('seed', lambda: Wallet.create('r_seed', keys=HDKey.from_seed(seed, network=network, witness_type=wt), network=network,
                                                  witness_type=wt, db_uri=db2)))
    acc_xpub = ref.account_key(0).serialize(rchain.hd_prefix(network, wt, False, False), private=False)
    variants.append(('watch-only-xpub', lambda: Wallet.create('r_xpub', keys=acc_xpub, network=network, witness_type=wt, db_uri=db2)))
    for name, mk in variants:
        col.probe('restore_check')
        try:
            w2 = mk()
            for ch, idx in probes:
                k = w2.key_for_path([ch, idx]) if name != 'watch-only-xpub' else w2.key_for_path([ch, idx])
                want = ref.address(0, ch, idx)
                if k.address != want:
                    M.viol('restore from %s: address at change=%d index=%d differs' % (name, ch, idx), k.address, want)
            g = w2.get_key()
            if g.address != ref.address(0, 0, 0):
                M.viol('restore from %s: first get_key() is not index 0' % name, g.address, ref.address(0, 0, 0))
            if name == 'watch-only-xpub':
                for kk in w2.keys():
                    if kk.is_private or (kk.private and len(kk.private)):
                        M.viol('watch-only wallet holds private key material', kk.id, None)
            w2.session.close()
        except Exception as e:
            M.viol('restore from %s raised %r' % (name, e), repr(e), 'restored wallet')
    # mnemonic: the sentence comes from the library, the seed from PBKDF2 (BIP39) computed here
    try:
        from bitcoinlib.mnemonic import Mnemonic
        ent = hashlib.sha256(b'c09-ent-' + case['wseed'].encode()).digest()[:rnd.choice([16, 24, 32])]
        words = Mnemonic().to_mnemonic(ent)
        seed2 = hashlib.pbkdf2_hmac('sha512', unicodedata.normalize('NFKD', words).encode(), b'mnemonic', 2048)
        ref2 = wallet_ref.SingleRef(seed2, network, wt)
        col.probe('restore_check')
        w3 = Wallet.create('r_mnemonic', keys=words, network=network, witness_type=wt, db_uri=db2)
        for ch, idx in probes[:3]:
            k = w3.key_for_path([ch, idx])
            if k.address != ref2.address(0, ch, idx):
                M.viol('wallet from mnemonic: address at change=%d index=%d differs from BIP39+BIP32 reference' % (ch, idx), k.address, ref2.address(0, ch, idx))
        w3.session.close()
    except Exception as e:
        M.viol('wallet from mnemonic raised %r' % (e,), repr(e), None)


def replay(case, col):
    if not selfcheck(col):
        return
    run_wallet(dict(case), col)


def selfcheck(col):
    try:
        ec.selfcheck(); codec.selfcheck(); rchain.selfcheck(); bip32.selfcheck()
        return True
    except Exception as e:
        col.note_inconclusive('reference self-check failed: %r' % (e,))
        return False


def plan(tier, seed, scale=1.0):
    thorough = tier == 'thorough'
    nshard = 16
    nw = int((4000 if thorough else 112) * scale)
    return [{'shard': i, 'nshard': nshard, 'n_wallets': max(1, nw // nshard), 'max_ops': 40 if thorough else 18} for i in range(nshard)]


def run_shard(spec, col):
    if not selfcheck(col):
        return
    col.require('key_postcondition', 20)
    col.require('chain_check', 5)
    col.require('restore_check', 2)
    rnd = random.Random('%s-%d-%d' % (ID, spec['seed'], spec['shard']))
    for k in range(spec['n_wallets']):
        kind = 'multisig' if (k + spec['shard']) % 4 == 3 else 'hd'
        network = NETWORKS[(k * 16 + spec['shard'] + spec['seed']) % len(NETWORKS)]
        wt = rnd.choice(['legacy', 'p2sh-segwit', 'segwit']) if not network.startswith('dogecoin') else 'legacy'
        case = {'wseed': '%d-%d-%d' % (spec['seed'], spec['shard'], k), 'kind': kind, 'wt': wt, 'network': network,
                'n_ops': rnd.randint(5, spec['max_ops']), 'seedlen': rnd.choice([16, 32, 64]),
                'default_account': rnd.choice([0, 0, 1, 2]) if kind == 'hd' else 0}
        if kind == 'multisig':
            n = rnd.randint(2, 4)
            case.update({'n': n, 'm': rnd.randint(1, n), 'own': rnd.randrange(n), 'sort': True})
        run_wallet(case, col)
