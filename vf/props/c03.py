"""C03 - HD key derivation conforms to BIP32; public and private derivation agree; a hardened child is never
obtained from a public-only parent.

Monitor shapes
  1. per-step postcondition: HDKey.child_private / HDKey.child_public are wrapped (harness side, class attribute
     swap, the library file is untouched); every call anywhere in the workload is judged against vf.refs.bip32
     computed from a snapshot of the *parent* taken before the call. Record-and-continue: the wrapper returns /
     re-raises exactly what the real method did.
  2. end-to-end: HDKey.from_seed / import of reference-serialised extended keys, subkey_for_path over generated
     paths (all marker spellings, m/ M/ relative and list form, every split point between private and public
     derivation), wif()/wif_public() of every derived key against the reference serialisation with golden prefixes.
  3. negative cases: child_public(2^31..), child_private on a public key, hardened path element on a public-only
     key in every spelling, M/<hardened>, plain indices >= 2^31, 2^32, negative.
  4. guard presence for the unreachable IL >= n / zero-key branches via a stubbed HMAC (harness swaps the name
     `hmac` in bitcoinlib.keys around single direct calls).
"""
import hmac as _hmac
import hashlib
import random
import types

from vf.refs import secp256k1 as ec
from vf.refs import bip32 as ref
from vf.refs import chain as rchain
from vf.refs import codec

ID = 'C03'
LEVEL = 'exploration'
ANCHORS = ['bitcoinlib/keys.py', 'bitcoinlib/config/secp256k1.py']
DEPS = ()
RULE = ('cases: (seed class x length 16..64, network x witness type, master source seed|xprv import) x generated path '
        '(depth 1..8 quick / 1..12 thorough, indices from {0, 1, 2^31-1, small, large random}, hardened marker spelled '
        "' h H p P or mixed, prefix m/ M/ relative or list form) x every split point s in 0..depth where the first s "
        'elements are derived privately and the rest from the public-only parent (obtained by public(), import of the '
        'reference xpub, or from_wif); plus negative and boundary calls. non-trivial = distinct (depth, split point or '
        'prefix form, set of index classes, marker spelling, expectation) tuples with depth >= 2')
TRUSTED_BASE = ['vf/refs/bip32.py (CKDpriv/CKDpub/serialisation; self-checked on BIP32 test vectors 1, 2, 3)',
                'vf/refs/secp256k1.py (self-checked on G, 2G, (n-1)G, nG)',
                'golden/chainparams.json extended-key version bytes (BIP32/SLIP-0132 independent; bitcoinlib_test, '
                'dogecoin, litecoin* pinned from tree 074a788: for those the wif comparison is a change detector)']
ASSUMPTIONS = ['refused = any exception raised by the call (DESIGN 2.4)',
               'a path element without marker whose number is >= 2^31 denotes BIP32 child number i (a hardened child), '
               'as in the BIP32 serialisation of child numbers',
               "M/<path with hardened element> on a private key may either be refused or return N(m/<path>); anything "
               'else is a deviation',
               'only compressed keys are BIP32 keys; uncompressed HD keys are not exercised',
               'the IL >= n, zero-key and point-at-infinity branches are observed only through a stubbed HMAC']
EXHAUSTIVE = ['marker spellings \' h H p P', 'split points 0..depth of every generated path',
              'child_public index boundary {2^31-1, 2^31, 2^31+1, 2^32-1, 2^32}']

HARD = ref.HARD

K_PUB_IDX = 'C03/child_public/index-2^31-accepted'
K_PATH_HARD_PUB = 'C03/subkey_for_path/hardened-marker-dropped-in-public-derivation'
K_PRIV_UNHARD = 'C03/child_private/plain-index-ge-2^31-derived-with-unhardened-formula'
K_PUB_INF = 'C03/child_public/point-at-infinity-not-refused'
K_SEED_ZERO = 'C03/from_seed/zero-master-key-not-refused'
K_SEED_SNIFF = 'C03/from_seed/bytes-seed-of-ascii-hex-digits-unhexlified'

MARKERS = "'hHpP"
WITNESS_TYPES = ('legacy', 'p2sh-segwit', 'segwit')

_STATE = {'col': None, 'step_dev': 0, 'stub': False, 'installed': False, 'real': {}}
_MEMO = {}
_PTS = {}


# ------------------------------------------------------------------ reference helpers (memoised)
def _pt(secret):
    p = _PTS.get(secret)
    if p is None:
        if len(_PTS) > 50000:
            _PTS.clear()
        p = _PTS[secret] = ec.mul_g(secret)
    return p


def _ckd(x, i):
    """Reference child of XKey x for child number i (private when x is private, else public). Raises ValueError
    exactly where BIP32 says the derivation is not defined."""
    key = (x.secret, x.point, x.chain, i)
    r = _MEMO.get(key)
    if r is None:
        if len(_MEMO) > 50000:
            _MEMO.clear()
        if x.secret is not None:
            r = ref.ckd_priv(x, i)
            _PTS[r.secret] = r.point
        else:
            r = ref.ckd_pub(x, i)
        _MEMO[key] = r
    return r


def _unhardened_formula(x, i):
    """Model of one named deviation only (used for attribution, never as expectation): HMAC over
    serP(K) || ser32(i) regardless of i >= 2^31."""
    I = _hmac.new(x.chain, x.pub + i.to_bytes(4, 'big'), hashlib.sha512).digest()
    il = int.from_bytes(I[:32], 'big')
    if x.secret is not None:
        k = (il + x.secret) % ec.N
        return ref.XKey(k, ec.mul_g(k), I[32:], x.depth + 1, x.fingerprint, i)
    return ref.XKey(None, ec.add(ec.mul_g(il), x.point), I[32:], x.depth + 1, x.fingerprint, i)


# ------------------------------------------------------------------ library object snapshots
def _snap(k):
    """Plain-data snapshot of a library HDKey (attribute reads only)."""
    try:
        net = k.network.name
    except Exception:
        net = None
    return {'is_private': bool(k.is_private), 'secret': k.secret if k.is_private else None,
            'private_hex': k.private_hex if k.is_private else None, 'public_hex': k.public_hex,
            'chain': bytes(k.chain) if k.chain is not None else None, 'depth': k.depth, 'child_index': k.child_index,
            'parent_fingerprint': bytes(k.parent_fingerprint), 'network': net,
            'witness_type': getattr(k, 'witness_type', None), 'compressed': k.compressed}


def _snap_json(s):
    return {'is_private': s['is_private'], 'secret': ('%064x' % s['secret']) if s['secret'] is not None else None,
            'public_hex': s['public_hex'], 'chain': s['chain'].hex() if s['chain'] is not None else None, 'depth': s['depth'],
            'child_index': s['child_index'], 'parent_fingerprint': s['parent_fingerprint'].hex(),
            'network': s['network'], 'witness_type': s['witness_type']}


def _ref_of_snap(s):
    """XKey described by a snapshot, or (None, reason) when the snapshot is not a consistent key."""
    if s['chain'] is None or len(s['chain']) != 32:
        return None, 'chain code is not 32 bytes'
    if s['is_private']:
        d = s['secret']
        if not isinstance(d, int) or not 1 <= d < ec.N:
            return None, 'secret out of range'
        pt = _pt(d)
    else:
        try:
            pt = ec.decode_pub(bytes.fromhex(s['public_hex']))
        except Exception:
            pt = None
        if pt is None:
            return None, 'public key is not a curve point'
    return ref.XKey(s['secret'] if s['is_private'] else None, pt, s['chain'], s['depth'], s['parent_fingerprint'],
                    s['child_index']), None


def _diff(s, x, want_private):
    """Field names where snapshot s (library) differs from reference XKey x."""
    bad = []
    if s['depth'] != x.depth:
        bad.append('depth')
    if s['child_index'] != x.child:
        bad.append('child_index')
    if s['parent_fingerprint'] != x.parent_fp:
        bad.append('parent_fingerprint')
    if s['chain'] != x.chain:
        bad.append('chain')
    if s['public_hex'] != x.pub.hex():
        bad.append('public_hex')
    if s['is_private'] != want_private:
        bad.append('is_private')
    if want_private and s['is_private']:
        if s['secret'] != x.secret:
            bad.append('secret')
        if s['private_hex'] != '%064x' % x.secret:
            bad.append('private_hex')
    return bad


def _xkey_json(x):
    return {'secret': ('%064x' % x.secret) if x.secret is not None else None, 'public_hex': x.pub.hex(), 'chain': x.chain.hex(),
            'depth': x.depth, 'child_index': x.child, 'parent_fingerprint': x.parent_fp.hex()}


def _same_key(s, x):
    return s['public_hex'] == x.pub.hex() and s['chain'] == x.chain


# ------------------------------------------------------------------ per-step probes
def _violation(key, desc, case, observed, expected, step=True):
    col = _STATE['col']
    if step:
        _STATE['step_dev'] += 1
    col.violation(key, desc, case, observed, expected)


def _post_step(fn, psnap, index, hardened, res, exc):
    col = _STATE['col']
    if col is None:
        return
    if _STATE['stub']:
        col.probe('%s.post.skipped_under_stub' % fn)
        return
    col.probe('%s.post' % fn)
    case = {'kind': 'step', 'fn': fn, 'parent': _snap_json(psnap), 'index': index, 'hardened': bool(hardened)}
    if not isinstance(index, int) or isinstance(index, bool):
        return
    parent, why = _ref_of_snap(psnap)
    if parent is None:
        if exc is None:
            _violation(None, '%s on an inconsistent parent (%s) returned a key' % (fn, why), case, _snap_json(_snap(res)), 'refusal')
        return
    if psnap['is_private'] and psnap['public_hex'] != parent.pub.hex() and psnap['compressed']:
        _violation(None, 'parent public key is not secret*G', case, psnap['public_hex'], parent.pub.hex())
        return
    if not psnap['compressed']:
        col.probe('%s.post.uncompressed_parent_not_judged' % fn)
        return
    eff = (index | HARD) if (fn == 'child_private' and hardened) else index
    exp = None
    reason = None
    if fn == 'child_private' and not psnap['is_private']:
        reason = 'private child of a public-only parent'
    elif not 0 <= eff < 2 ** 32:
        reason = 'child number outside [0, 2^32)'
    elif fn == 'child_public' and eff >= HARD:
        reason = 'hardened child from public derivation'
    else:
        try:
            exp = _ckd(parent if fn == 'child_private' else parent.neuter(), eff)
        except ValueError as e:
            reason = 'BIP32: %s' % e
    if exp is None:
        col.probe('%s.post.must_refuse' % fn)
        if exc is None:
            key = None
            got = _snap(res)
            if fn == 'child_public' and eff == HARD and _same_key(got, _unhardened_formula(parent.neuter(), eff)):
                key = K_PUB_IDX
            _violation(key, '%s(index=%d) must be refused (%s) but returned a key' % (fn, index, reason), case,
                       _snap_json(got), 'refusal')
        return
    if exc is not None:
        _violation(None, '%s(index=%d, hardened=%s) refused a derivation BIP32 defines: %r' % (fn, index, hardened, exc), case,
                   repr(exc)[:300], _xkey_json(exp))
        return
    try:
        got = _snap(res)
    except Exception as e:
        _violation(None, '%s result is not a readable HDKey: %r' % (fn, e), case, repr(e)[:200], _xkey_json(exp))
        return
    want_private = fn == 'child_private'
    bad = _diff(got, exp, want_private)
    if exp.secret is not None and exp.secret < 2 ** 248:
        col.probe('obs.child_secret_leading_zero_byte')
    if bad:
        key = None
        if fn == 'child_private' and not hardened and index >= HARD:
            if not _diff(got, _unhardened_formula(parent, index), True):
                key = K_PRIV_UNHARD
        _violation(key, '%s(index=%d, hardened=%s) differs from BIP32 in %s' % (fn, index, hardened, ','.join(bad)), case,
                   _snap_json(got), _xkey_json(exp))


def _install(col):
    """Wrap the real methods (class attribute swap from the harness)."""
    from bitcoinlib import keys as K
    _STATE['col'] = col
    if _STATE['installed']:
        return
    real_priv = K.HDKey.child_private
    real_pub = K.HDKey.child_public
    _STATE['real'] = {'child_private': real_priv, 'child_public': real_pub}

    def child_private(self, index=0, hardened=False, network=None):
        try:
            ps = _snap(self)
        except Exception:
            ps = None
        try:
            res = real_priv(self, index=index, hardened=hardened, network=network)
        except Exception as e:
            _safe_post('child_private', ps, index, hardened, None, e)
            raise
        _safe_post('child_private', ps, index, hardened, res, None)
        return res

    def child_public(self, index=0, network=None):
        try:
            ps = _snap(self)
        except Exception:
            ps = None
        try:
            res = real_pub(self, index=index, network=network)
        except Exception as e:
            _safe_post('child_public', ps, index, False, None, e)
            raise
        _safe_post('child_public', ps, index, False, res, None)
        return res

    child_private.__doc__ = real_priv.__doc__
    child_public.__doc__ = real_pub.__doc__
    K.HDKey.child_private = child_private
    K.HDKey.child_public = child_public
    _STATE['installed'] = True


def _safe_post(fn, ps, index, hardened, res, exc):
    try:
        if ps is None:
            _STATE['col'].note_inconclusive('could not snapshot the parent of a %s call' % fn)
            return
        _post_step(fn, ps, index, hardened, res, exc)
    except Exception as e:     # a monitor bug must never leak into library control flow
        _STATE['col'].note_inconclusive('monitor error in %s probe: %r' % (fn, e))


# ------------------------------------------------------------------ end-to-end checks
def _prefix(net, wt, private):
    try:
        return rchain.hd_prefix(net, wt, False, private)
    except Exception:
        return None


def _check_wif(col, k, x, net, wt, case, what):
    """wif / wif_public / wif_private of library key k against the reference serialisation of x."""
    for private in ((True, False) if x.secret is not None else (False,)):
        pre = _prefix(net, wt, private)
        if pre is None:
            continue
        exp = x.serialize(pre, private)
        col.probe('wif')
        for name, call in ((('wif(is_private=True)', lambda: k.wif(is_private=True)), ('wif_private()', lambda: k.wif_private()))
                           if private else
                           (('wif_public()', lambda: k.wif_public()), ('wif(is_private=False)', lambda: k.wif(is_private=False)))):
            try:
                got = call()
            except Exception as e:
                col.violation(None, '%s of %s raised %r' % (name, what, e), case, repr(e)[:300], exp)
                continue
            if got != exp:
                col.violation(None, '%s of %s is not the BIP32 serialisation' % (name, what), case, got, exp)


def _check_key(col, k, x, want_private, net, wt, case, what, key_fn=None):
    """-> True when library key k is reference key x in every observed field."""
    try:
        s = _snap(k)
        fp = bytes(k.fingerprint)
    except Exception as e:
        col.violation(None, '%s: result is not a readable HDKey: %r' % (what, e), case, repr(e)[:200], _xkey_json(x))
        return False
    bad = _diff(s, x, want_private)
    if fp != x.fingerprint:
        bad.append('fingerprint')
    if bad:
        key = key_fn(s) if key_fn else None
        col.violation(key, '%s differs from BIP32 in %s' % (what, ','.join(bad)), case, _snap_json(s), _xkey_json(x))
        return False
    _check_wif(col, k, x, net, wt, case, what)
    return True


def _elem_str(e):
    idx, hard, mk = e
    return '%d%s' % (idx, mk if hard else '')


def _child_number(e):
    idx, hard, _ = e
    return (idx | HARD) if hard else idx


def _path_arg(prefix, elems, aslist):
    parts = ([prefix] if prefix else []) + [_elem_str(e) for e in elems]
    return parts if aslist else '/'.join(parts)


def _ref_derive(x, elems, strip_markers=False):
    for e in elems:
        x = _ckd(x, e[0] if strip_markers else _child_number(e))
    return x


def _index_class(i):
    i &= HARD - 1
    return 'zero' if i == 0 else 'one' if i == 1 else 'max' if i == HARD - 1 else 'small' if i < 1000 else 'large'


def _marker_class(elems):
    ms = {e[2] for e in elems if e[1]}
    return 'none' if not ms else ms.pop() if len(ms) == 1 else 'mixed'


def _master(case, col):
    """Library master + reference master for a case, or (None, None) when construction itself deviates."""
    from bitcoinlib.keys import HDKey
    seed = bytes.fromhex(case['seed'])
    net, wt = case['network'], case['witness_type']
    try:
        xm = ref.master(seed)
    except ValueError:
        return None, None
    src = case.get('mastersrc', 'seed')
    col.probe('master')
    try:
        if src == 'seed':
            km = HDKey.from_seed(seed, network=net, witness_type=wt)
        elif src == 'seedhex':
            km = HDKey.from_seed(seed.hex(), network=net, witness_type=wt)
        elif src == 'xprv':
            km = HDKey(xm.serialize(_prefix(net, wt, True), True), network=net)
        else:
            km = HDKey.from_wif(xm.serialize(_prefix(net, wt, True), True), network=net)
    except Exception as e:
        col.violation(None, 'master key construction (%s) raised %r' % (src, e), dict(case, kind='master'), repr(e)[:300], _xkey_json(xm))
        return None, None
    def sniffed(s):
        # narrow predicate: the bytes seed is itself ASCII hex text and the library derived the master of the decoded text
        if src != 'seed':
            return None
        try:
            alt = ref.master(bytes.fromhex(seed.decode('ascii')))
        except Exception:
            return None
        return K_SEED_SNIFF if not _diff(s, alt, True) else None

    if not _check_key(col, km, xm, True, net, wt, dict(case, kind='master'), 'master (%s)' % src, key_fn=sniffed):
        return None, None
    return km, xm


def _public_parent(kpriv, xpriv, src, net, wt):
    from bitcoinlib.keys import HDKey
    if src == 'public()':
        return kpriv.public()
    s = xpriv.serialize(_prefix(net, wt, False), False)
    if src == 'xpub':
        return HDKey(s, network=net)
    return HDKey.from_wif(s, network=net)


def run_path(case, col):
    """One generated path: full private derivation, M/ form, and the requested split points."""
    net, wt = case['network'], case['witness_type']
    elems = [tuple(e) for e in case['elems']]
    depth = len(elems)
    aslist = bool(case.get('aslist'))
    km, xm = _master(case, col)
    if km is None:
        return
    classes = tuple(sorted({_index_class(e[0]) for e in elems}))
    mk = _marker_class(elems)
    plain_big = any((not e[1]) and e[0] >= HARD for e in elems)
    base_cls = 'path/%s/%s' % (net, wt)

    def ident(form, expectation):
        return (depth, form, classes, mk, expectation, plain_big) if depth >= 2 else None

    forms = case.get('forms') or ['m', '', 'M']
    splits = case.get('splits')
    if splits is None:
        splits = list(range(depth + 1))

    # ---- reference derivations along the path (private); None from the first undefined step on
    xs = [xm]
    for e in elems:
        try:
            xs.append(_ckd(xs[-1], _child_number(e)) if xs[-1] is not None else None)
        except ValueError:
            xs.append(None)

    # ---- full path through the private master: 'm/...' and relative form
    for form in forms:
        if form == 'M':
            continue
        c = dict(case, forms=[form], splits=[])
        col.case(base_cls, nontrivial=ident('form:' + (form or 'rel'), 'private'), sample=c)
        col.probe('path.private')
        dev0 = _STATE['step_dev']
        try:
            k = km.subkey_for_path(_path_arg(form, elems, aslist))
        except Exception as e:
            if _STATE['step_dev'] == dev0 and xs[-1] is not None:
                col.violation(None, 'subkey_for_path(%r) on a private master raised %r' % (_path_arg(form, elems, aslist), e), c,
                              repr(e)[:300], _xkey_json(xs[-1]))
            continue
        if _STATE['step_dev'] != dev0:
            col.probe('path.not_judged_step_deviation')
            continue
        if xs[-1] is None:
            continue
        _check_key(col, k, xs[-1], True, net, wt, c, 'subkey_for_path(%r)' % (_path_arg(form, elems, aslist),))

    # ---- 'M/...' on the private master
    if 'M' in forms and depth >= 1:
        c = dict(case, forms=['M'], splits=[])
        has_hard = any(_child_number(e) >= HARD for e in elems)
        col.case(base_cls + '/M', nontrivial=ident('form:M', 'refuse-or-neutered' if has_hard else 'public'), sample=c)
        col.probe('path.M')
        _judge_public_path(col, km, xm.neuter(), xs[-1].neuter() if xs[-1] is not None else None, 'M', elems, aslist, has_hard, net,
                           wt, c, allow_neutered=True)

    # ---- split points
    if not splits:
        return
    kcur = km
    for s in range(0, max(splits) + 1):
        if s > 0:
            if xs[s] is None:
                break
            dev0 = _STATE['step_dev']
            try:
                kcur = kcur.subkey_for_path(_path_arg('', elems[s - 1:s], aslist))     # one relative element
            except Exception as e:
                if _STATE['step_dev'] == dev0:
                    col.violation(None, 'relative subkey_for_path(%r) raised %r' % (_elem_str(elems[s - 1]), e),
                                  dict(case, forms=[], splits=[s]), repr(e)[:300], _xkey_json(xs[s]))
                break
            if _STATE['step_dev'] != dev0:
                col.probe('path.not_judged_step_deviation')
                break
            if not _check_key(col, kcur, xs[s], True, net, wt, dict(case, forms=[], splits=[s]), 'incremental private prefix (%d elements)' % s):
                break
        if s not in splits or s == depth:
            continue
        rest = elems[s:]
        src = case.get('pubsrc', 'public()')
        c = dict(case, forms=[], splits=[s])
        has_hard = any(_child_number(e) >= HARD for e in rest)
        col.case(base_cls + '/split', nontrivial=ident('split:%d:%s' % (s, src), 'refuse' if has_hard else 'public'), sample=c)
        col.probe('path.split')
        try:
            kpub = _public_parent(kcur, xs[s], src, net, wt)
        except Exception as e:
            col.violation(None, 'public-only parent via %s raised %r' % (src, e), c, repr(e)[:300], _xkey_json(xs[s].neuter()))
            continue
        if not _check_key(col, kpub, xs[s].neuter(), False, net, wt, c, 'public-only parent via %s' % src):
            continue
        _judge_public_path(col, kpub, xs[s].neuter(), xs[-1].neuter() if xs[-1] is not None else None, '', rest, aslist, has_hard, net,
                           wt, c, allow_neutered=False)


def _judge_public_path(col, kparent, xparent, xfull_neutered, form, rest, aslist, has_hard, net, wt, c, allow_neutered):
    arg = _path_arg(form, rest, aslist)
    dev0 = _STATE['step_dev']
    exc = None
    k = None
    try:
        k = kparent.subkey_for_path(arg)
    except Exception as e:
        exc = e
    if _STATE['step_dev'] != dev0:
        col.probe('path.not_judged_step_deviation')
        return
    if has_hard:
        col.probe('neg.path_hardened_in_public_derivation')
        if exc is not None:
            return
        try:
            s = _snap(k)
        except Exception as e:
            col.violation(None, 'subkey_for_path(%r) result unreadable: %r' % (arg, e), c, repr(e)[:200], 'refusal')
            return
        if allow_neutered and xfull_neutered is not None and not _diff(s, xfull_neutered, False):
            col.probe('path.M_returned_neutered_private_derivation')
            return
        key = None
        try:
            stripped = _ref_derive(xparent, rest, strip_markers=True)
            if not _diff(s, stripped, False):
                key = K_PATH_HARD_PUB
        except ValueError:
            pass
        col.violation(key, 'subkey_for_path(%r) with a hardened element in its public part returned a key instead of failing' % (arg,),
                      c, _snap_json(s), 'refusal' + (' or N(private derivation)' if allow_neutered else ''))
        return
    try:
        xexp = _ref_derive(xparent, rest)
    except ValueError:
        if exc is None:
            col.violation(None, 'subkey_for_path(%r): BIP32 leaves this public derivation undefined but a key was returned' % (arg,), c,
                          _snap_json(_snap(k)), 'refusal')
        return
    if exc is not None:
        col.violation(None, 'subkey_for_path(%r) on a public parent raised %r' % (arg, exc), c, repr(exc)[:300], _xkey_json(xexp))
        return
    if _check_key(col, k, xexp, False, net, wt, c, 'public derivation %r' % (arg,)):
        col.probe('path.commutes')
        if xfull_neutered is not None and (xexp.pub != xfull_neutered.pub or xexp.chain != xfull_neutered.chain):
            col.note_inconclusive('reference CKDpub and N(CKDpriv) disagree')


# ------------------------------------------------------------------ direct negative / boundary calls
def run_negative(case, col):
    """Boundary calls on one key; the wrapped methods judge each call (per-step probe)."""
    km, xm = _master(case, col)
    if km is None:
        return
    net, wt = case['network'], case['witness_type']
    warm = [tuple(e) for e in case.get('elems', [])]
    try:
        k = km.subkey_for_path(_path_arg('m', warm, False)) if warm else km
    except Exception:
        return
    col.case('negative/%s' % case.get('pubsrc', 'public()'), nontrivial=('negative', len(warm), case.get('pubsrc')), sample=case)
    try:
        x = _ref_derive(xm, warm)
        kpub = _public_parent(k, x, case.get('pubsrc', 'public()'), net, wt)
    except Exception as e:
        col.violation(None, 'could not build the public-only parent: %r' % (e,), case, repr(e)[:300], None)
        return
    for parent in (k, kpub):
        for i in (HARD - 1, HARD, HARD + 1, HARD + (case.get('k', 5) & (HARD - 1)), 2 ** 32 - 1, 2 ** 32, -1):
            col.probe('neg.child_public_boundary')
            try:
                parent.child_public(i)
            except Exception:
                pass
    for i, h in ((0, False), (0, True), (HARD - 1, True), (HARD, False), (HARD + 7, False), (HARD + 7, True), (2 ** 32, False), (-1, False)):
        col.probe('neg.child_private_boundary')
        for parent in (k, kpub):
            try:
                parent.child_private(i, hardened=h)
            except Exception:
                pass


def _stub(il, ir=b'\x07' * 32):
    class H:
        def digest(self):
            return il.to_bytes(32, 'big') + ir
    return types.SimpleNamespace(new=lambda *a, **kw: H(), compare_digest=_hmac.compare_digest)


def run_guard(case, col):
    """Presence of the guards BIP32 prescribes for IL >= n, k_i = 0, K_i = infinity and a zero master key, observed with a
    stubbed HMAC (name `hmac` in bitcoinlib.keys swapped around single direct calls, restored afterwards)."""
    from bitcoinlib import keys as K
    from bitcoinlib.keys import HDKey
    seed = bytes.fromhex(case['seed'])
    k = HDKey.from_seed(seed.hex(), network=case['network'], witness_type=case['witness_type'])
    kpub = k.public()
    d = k.secret
    col.case('guard', nontrivial=None, sample=case)
    plans = []
    for name, il in (('IL=n', ec.N), ('IL=n+1', ec.N + 1), ('IL=2^256-1', 2 ** 256 - 1)):
        plans.append((name, il, 'from_seed', lambda: HDKey.from_seed(b'\x02' * 16), None))
        plans.append((name, il, 'child_private', lambda: k.child_private(0), None))
        plans.append((name, il, 'child_public', lambda: k.child_public(0), None))
        plans.append((name, il, 'child_public(public parent)', lambda: kpub.child_public(0), None))
    plans.append(('IL=n-k_par', ec.N - d, 'child_private', lambda: k.child_private(0), None))
    plans.append(('IL=n-k_par', ec.N - d, 'child_public', lambda: k.child_public(0), K_PUB_INF))
    plans.append(('IL=n-k_par', ec.N - d, 'child_public(public parent)', lambda: kpub.child_public(0), K_PUB_INF))
    plans.append(('IL=0', 0, 'from_seed', lambda: HDKey.from_seed(b'\x02' * 16), K_SEED_ZERO))
    real = K.hmac
    for name, il, fn, call, known in plans:
        col.probe('guard.stubbed_hmac')
        _STATE['stub'] = True
        K.hmac = _stub(il)
        res = exc = None
        try:
            res = call()
        except Exception as e:
            exc = e
        finally:
            K.hmac = real
            _STATE['stub'] = False
        if exc is None:
            key = None
            try:
                ph = res.public_hex
            except Exception:
                ph = None
            if known and ph == '02' + '00' * 32:        # the shape both mechanisms produce: the identity encoded as x=0
                key = known
            col.violation(key, '%s with %s returned a key; BIP32 declares this derivation invalid' % (fn, name),
                          dict(case, kind='guard'), ph, 'refusal')
    # the stub must be gone
    if K.hmac is not real or HDKey.from_seed(b'\x01' * 16).private_hex != '%064x' % ref.master(b'\x01' * 16).secret:
        col.note_inconclusive('HMAC stub was not removed')


# ------------------------------------------------------------------ generators
def _gen_seed(rnd):
    n = rnd.choice([16, 16, 20, 24, 32, 32, 48, 64, 64, rnd.randint(16, 64)])
    r = rnd.random()
    if r < 0.6:
        return rnd.randbytes(n), 'random'
    if r < 0.8:
        z = rnd.randint(1, 8)
        return b'\0' * z + rnd.randbytes(n - z), 'leading-zeros'
    if r < 0.9:
        return b'\xff' * n, 'all-ones'
    if r < 0.95:
        return b'\0' * n, 'all-zero'
    return bytes([rnd.randrange(256)]) * n, 'repeated-byte'


def _gen_index(rnd):
    r = rnd.random()
    if r < 0.2:
        return 0
    if r < 0.35:
        return 1
    if r < 0.55:
        return HARD - 1
    if r < 0.75:
        return rnd.randint(2, 999)
    return rnd.randint(1000, HARD - 2)


def _gen_elems(rnd, maxdepth):
    depth = rnd.choice([1, 2, 2, 3, 3, 4, 4, 5, 5, 6, 7, 8] + ([9, 10, 11, 12] if maxdepth > 8 else []))
    depth = min(depth, maxdepth)
    style = rnd.random()
    mk_mode = rnd.choice(list(MARKERS) + ['mixed'])
    elems = []
    nhard = rnd.randint(0, depth) if style < 0.75 else None     # hardened prefix then non-hardened tail (BIP44 shape)
    for j in range(depth):
        hard = (j < nhard) if nhard is not None else rnd.random() < 0.4
        mk = rnd.choice(MARKERS) if mk_mode == 'mixed' else mk_mode
        elems.append([_gen_index(rnd), bool(hard), mk if hard else ''])
    return elems


def _gen_netwt(rnd):
    while True:
        net = rnd.choice(rchain.NETWORK_NAMES)
        wt = rnd.choice(WITNESS_TYPES)
        if wt in rchain.NETWORKS[net]['hd']:
            return net, wt


def gen_case(rnd, maxdepth):
    seed, scls = _gen_seed(rnd)
    net, wt = _gen_netwt(rnd)
    case = {'kind': 'path', 'seed': seed.hex(), 'seedclass': scls, 'network': net, 'witness_type': wt,
            'mastersrc': rnd.choice(['seed', 'seed', 'seedhex', 'xprv', 'from_wif']),
            'pubsrc': rnd.choice(['public()', 'public()', 'xpub', 'from_wif']),
            'aslist': rnd.random() < 0.15, 'elems': _gen_elems(rnd, maxdepth)}
    # every path goes through one private form (m/ or relative) and, for half of them, the M/ form; all split points always
    case['forms'] = [rnd.choice(['m', 'm', ''])] + (['M'] if rnd.random() < 0.5 else [])
    r = rnd.random()
    if r < 0.06:      # feature: a plain number >= 2^31 as path element
        j = rnd.randrange(len(case['elems']))
        case['elems'][j] = [HARD + rnd.choice([0, 1, rnd.randint(2, HARD - 1)]), False, '']
        case['feature'] = 'plain_index_ge_2^31'
    return case


# ------------------------------------------------------------------ plan / shards / replay
def run_case(case, col):
    k = case.get('kind')
    if k == 'step':
        _replay_step(case, col)
    elif k == 'negative':
        run_negative(case, col)
    elif k == 'guard':
        run_guard(case, col)
    elif k == 'master':
        _master(case, col)
    else:
        run_path(case, col)


def _replay_step(case, col):
    from bitcoinlib.keys import HDKey
    p = case['parent']
    priv = p['is_private']
    key = bytes.fromhex(p['secret']) if priv else bytes.fromhex(p['public_hex'])
    k = HDKey(key=key, chain=bytes.fromhex(p['chain']), depth=p['depth'], parent_fingerprint=bytes.fromhex(p['parent_fingerprint']),
              child_index=p['child_index'], is_private=priv, network=p['network'], witness_type=p['witness_type'])
    col.case('replay-step', nontrivial=None, sample=case)
    try:
        if case['fn'] == 'child_private':
            k.child_private(case['index'], hardened=case['hardened'])
        else:
            k.child_public(case['index'])
    except Exception:
        pass


def _selfcheck(col):
    try:
        ec.selfcheck()
        codec.selfcheck() if hasattr(codec, 'selfcheck') else None
        rchain.selfcheck()
        ref.selfcheck()
        # the attribution model reduces to BIP32 below 2^31
        m = ref.master(b'\x01' * 16)
        a, b = _unhardened_formula(m, 5), ref.ckd_priv(m, 5)
        assert (a.secret, a.chain) == (b.secret, b.chain)
    except Exception as e:
        col.note_inconclusive('reference self-check failed: %r' % (e,))
        return False
    return True


def replay(case, col):
    if not _selfcheck(col):
        return
    _install(col)
    run_case(case, col)


def plan(tier, seed, scale=1.0):
    thorough = tier == 'thorough'
    nshard = 16
    total = int((60000 if thorough else 2000) * scale)
    return [{'part': 'paths', 'shard': i, 'nshard': nshard, 'n_paths': max(4, total // nshard),
             'maxdepth': 12 if thorough else 8, 'timeout': 4 * 3600 if thorough else 900} for i in range(nshard)]


def run_shard(spec, col):
    if not _selfcheck(col):
        return
    for p in ('child_private.post', 'child_public.post', 'path.private', 'path.M', 'path.split', 'path.commutes', 'wif', 'master',
              'neg.path_hardened_in_public_derivation', 'neg.child_public_boundary', 'neg.child_private_boundary',
              'child_public.post.must_refuse', 'child_private.post.must_refuse', 'guard.stubbed_hmac'):
        col.require(p)
    _install(col)
    rnd = random.Random('%s-%d-%d' % (ID, spec['seed'], spec['shard']))
    n = spec['n_paths']
    # guard presence (cheap; once per shard with a shard-specific key)
    seed0, _ = _gen_seed(rnd)
    net0, wt0 = _gen_netwt(rnd)
    run_guard({'kind': 'guard', 'seed': seed0.hex(), 'network': net0, 'witness_type': wt0}, col)
    for i in range(n):
        case = gen_case(rnd, spec['maxdepth'])
        run_path(case, col)
        if i % 10 == 0:
            neg = dict(case, kind='negative', elems=[e for e in case['elems'] if e[0] < HARD][:rnd.randint(0, 2)], k=rnd.getrandbits(31))
            run_negative(neg, col)
