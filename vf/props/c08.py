"""C08 - wallet ledger stays consistent over any history and survives reopening.

History + executable model: random operation histories against the harness-owned model chain; after every
operation (quiescent point) invariants are evaluated on the operating handle, on a freshly opened handle and on
the sqlite rows (read-only sqlite3 connection):
  I1 balance() == sum(utxos());  I2 == sum of per-key balances (keys()[*].balance and WalletKey.balance());
  I3 unspent outpoint set == what the model chain + the wallet-local effects imply (only while in sync);
  I4 an outpoint consumed by a transaction the wallet has sent is never listed / selected again;
  I5 stored transactions reload with identical id, inputs, outputs, amounts and raw bytes.
"""
import os
import random
import collections
import sqlite3

from vf.refs import tx as rtx
from vf.refs import chain as rchain
from vf.refs import secp256k1 as ec, codec, bip32

ID = 'C08'
LEVEL = 'exploration'
ANCHORS = ['bitcoinlib/wallets.py', 'bitcoinlib/db.py']
RULE = ('random histories of 12-45 operations over {new_key, get_key, new_key_change, fund+utxos_update, utxos_update from a '
        'lagging provider, utxo_add, utxos_update(utxos=...), send_to/send (broadcast / no broadcast / provider failing), sweep, '
        'transaction_import(_raw), transaction_delete, mine, close+reopen} for HD / single-key / 2-of-3 multisig wallets x three '
        'witness types; invariants I1-I5 after every operation on operating handle, fresh handle and sqlite rows. Non-trivial = '
        'distinct histories (digest of op sequence) with >= 1 broadcast send and >= 1 reopen; abstract states (#unspent, #spent, '
        '#keys, #txs) are counted too')
TRUSTED_BASE = ['vf/chain_model.py (truth about outpoints)', 'vf/wallet_ref.py (which addresses are the wallet\'s)', 'sqlite3 read-only connection']
ASSUMPTIONS = ['a second long-lived handle opened before an operation is not required to see it; only the operating handle and fresh handles are judged',
               'I3 is asserted only while the wallet is in sync with a healthy provider (not after a lagging rescan or transaction_delete); the expected set after a refresh is the first page (max_utxos=20 outputs per address) the provider delivers',
               'a rejected or failed broadcast counts as "nothing happened"']

K_BAL_STALE = 'C08/operating-handle/balance-kept-when-account-emptied'
K_KEYBAL_STALE = 'C08/operating-handle/keys-balance-stale-identity-map'
K_RELOAD_P2SH_P2WSH = 'C08/reload/p2sh-p2wsh-multisig-scriptsig-recomputed'
K_UTXOS_STRIP = 'C08/utxos/live-rows-stripped-of-orm-state'
K_CROSS_ACCOUNT = 'C08/multi-account/one-transaction-paying-two-accounts-booked-under-one'

OPS = ['send_refused_keep', 'new_account', 'new_key', 'get_key', 'new_key_change', 'fund_update', 'fund_update', 'update', 'update_lag', 'utxo_add', 'update_list',
       'send', 'send', 'send', 'send_nobroadcast', 'send_fail', 'sweep', 'import_raw', 'delete', 'mine', 'reopen', 'reopen', 'send_offline_input', 'import_obj_send']


class History:
    def __init__(self, case, col):
        from vf import chain_model, wallet_env
        self.case, self.col = case, col
        self.CH = chain_model.CHAIN
        self.rnd = random.Random('c08-%s' % case['wseed'])
        name = 'c08_%s' % case['wseed']
        db = os.path.join(os.environ['BCL_DATA_DIR'], '%s.sqlite' % name)
        self.db = db
        self.ctx = wallet_env.WalletCtx(name, case['kind'], case['network'], case['wt'], 'c08-%s' % case['wseed'], db, compressed=not case.get('uncompressed'))
        self.known = set()       # addresses the wallet has handed out
        self.E = {}              # expected unspent outpoints -> value (valid while self.sync)
        self.sync = True
        self.S = set()           # outpoints consumed by transactions the wallet has sent
        self.sent = {}           # txid -> raw bytes broadcast
        self.ops = []
        self.accounts = [0]
        self.addr_acc = {}
        self.cross_account = bool(case.get('cross_account'))
        self.allow_cross = bool(case.get('allow_cross')) or bool(os.environ.get('C08_ALLOW_CROSS'))
        self.last_fund = None
        self.kept = []           # objects a caller may legitimately keep (exceptions of refused requests)
        self.states = set()
        own = self.ctx.own_addresses(accounts=(0, 1, 2, 3))
        w = self.ctx.w
        first = w.get_key().address
        self.addr_acc[first] = 0
        if first not in own:
            col.violation(None, 'wallet address is not a reference address of this wallet (see C09)', case, first, None)
        self.known.add(first)

    # -------------------------------------------------------------- helpers
    def model_unspent_known(self):
        return {k: v['value'] for k, v in self.CH.unspent(self.known).items() if v['network'] == self.ctx.network}

    def delivered_unspent(self, page=20):
        """what a refresh through the provider delivers: utxos_update asks for at most max_utxos=20 outputs per address
        and call (documented) and first marks everything it knew as spent, so after a refresh the wallet knows exactly the
        first page of every address, in the provider's order (most confirmations first, then txid, output index)"""
        per = collections.defaultdict(list)
        for k, v in self.CH.unspent(self.known).items():
            if v['network'] == self.ctx.network:
                per[v['address']].append((-self.CH.confirmations(v), k[0], k[1], v['value']))
        out = {}
        for a, lst in per.items():
            lst.sort()
            if len(lst) > page:
                self.col.probe('refresh_page_limit_reached')
            for _, txid, n, val in lst[:page]:
                out[(txid, n)] = val
        return out

    def add_addr(self, wk):
        a = wk.address
        self.addr_acc[a] = wk.account_id or 0
        if a not in self.ctx.own_addresses(upto=120, accounts=(0, 1, 2, 3)):
            self.col.violation(None, 'key %s handed out by the wallet is not at a reference path of this wallet (see C09)' % a, self.case, a, None)
        self.known.add(a)

    def viol(self, key, desc, obs=None, exp=None):
        if key is None and self.cross_account and (desc.startswith('I1') or desc.startswith('I2') or desc.startswith('rows')):
            # dedicated scenario: one funding transaction pays keys of two accounts; the library books the transaction
            # (and with it all its outputs) under one account, so per-account / per-key sums disagree
            key = K_CROSS_ACCOUNT
        self.col.violation(key, '[%s step %d %s] %s' % (self.case['kind'] + '/' + self.case['wt'], len(self.ops), self.ops[-1] if self.ops else '-', desc),
                           dict(self.case, ops=list(self.ops)), obs, exp)

    # -------------------------------------------------------------- one operation
    def step(self, op):
        from vf import wallet_env
        rnd, CH, ctx = self.rnd, self.CH, self.ctx
        w = ctx.w
        network = ctx.network
        self.ops.append(op)
        wallet_env.reseed(rnd.getrandbits(30))
        CH.snapshot()
        scale = 100000 if network.startswith('dogecoin') else 1
        try:
            acc = rnd.choice(self.accounts)
            if op == 'new_key':
                if ctx.kind != 'single':
                    self.add_addr(w.new_key(account_id=acc))
            elif op == 'get_key':
                self.add_addr(w.get_key(account_id=acc))
            elif op == 'new_key_change':
                if ctx.kind != 'single':
                    self.add_addr(w.new_key_change(account_id=acc))
            elif op == 'new_account':
                if ctx.kind == 'hd' and len(self.accounts) < 3:
                    a = w.new_account()
                    self.accounts.append(a.account_id)
                    self.add_addr(w.get_key(account_id=a.account_id))
            elif op in ('fund_update', 'update', 'update_lag'):
                if op == 'fund_update':
                    for _ in range(rnd.randint(1, 3)):
                        v = rnd.choice([600, 5000 * scale, 10 ** 5 * scale + rnd.randrange(1000), 10 ** 7 * scale + rnd.randrange(1000), 10 ** 8 * scale + rnd.randrange(1000)])
                        dest = rnd.choice(sorted(self.known))
                        if len(self.accounts) > 1 and rnd.random() < 0.5:
                            other = sorted(a for a in self.known if self.addr_acc.get(a, 0) != 0)
                            if other:
                                dest = rnd.choice(other)
                        same = self.last_fund if (rnd.random() < 0.4 and self.last_fund in CH.utxos) else None
                        if same is not None and not self.cross_account and not self.allow_cross and \
                                self.addr_acc.get(CH.utxos[same]['address'], 0) != self.addr_acc.get(dest, 0):
                            same = None   # a funding transaction paying two accounts is exercised only in the dedicated scenario
                        self.last_fund = CH.fund(dest, v, network, confirmed=rnd.random() < 0.75, same_tx_as=same)
                if op == 'update_lag' and len(CH.snapshots) > 2:
                    CH.faults['lag'] = rnd.randint(1, min(4, len(CH.snapshots) - 1))
                try:
                    for a_ in self.accounts:
                        w.utxos_update(account_id=a_)
                finally:
                    lagged = bool(CH.faults.get('lag'))
                    CH.faults['lag'] = 0
                if lagged:
                    self.sync = False
                else:
                    self.E = self.delivered_unspent()
                    self.sync = True
            elif op == 'fund_pair':
                # one funding transaction with two outputs for this wallet (a payment plus its change look the same)
                cands = sorted(x for x in self.known if self.addr_acc.get(x, 0) == 0)
                v = 10 ** 7 * scale
                first = CH.fund(rnd.choice(cands), v + rnd.randrange(1000), network, confirmed=True)
                CH.fund(rnd.choice(cands), v + 5000 + rnd.randrange(1000), network, confirmed=True, same_tx_as=first)
                CH.mine(1)
                for a_ in self.accounts:
                    w.utxos_update(account_id=a_)
                self.E = self.delivered_unspent()
                self.sync = True
            elif op == 'utxo_add':
                a = rnd.choice(sorted(x for x in self.known if self.addr_acc.get(x, 0) == 0))
                v = 10 ** 6 * scale + rnd.randrange(1000)
                txid, n = CH.fund(a, v, network, confirmed=True)
                w.utxo_add(a, v, txid, n, confirmations=1)
                self.E[(txid, n)] = v
            elif op == 'update_list':
                cur = self.model_unspent_known()
                lst = []
                for (txid, n), v in cur.items():
                    u = CH.utxos[(txid, n)]
                    lst.append({'address': u['address'], 'script': '', 'confirmations': CH.confirmations(u), 'output_n': n, 'txid': txid, 'value': v})
                if lst:
                    for a_ in self.accounts:
                        sub = [u for u in lst if self.addr_acc.get(u['address'], 0) == a_]
                        if sub:
                            w.utxos_update(account_id=a_, utxos=sub)
                    # accounts whose list is empty keep what they had: resynchronise those through the provider
                    for a_ in self.accounts:
                        if not [u for u in lst if self.addr_acc.get(u['address'], 0) == a_]:
                            w.utxos_update(account_id=a_)
                    self.E = dict(cur)
                    dl = self.delivered_unspent()
                    for a_ in self.accounts:
                        if not [u for u in lst if self.addr_acc.get(u['address'], 0) == a_]:
                            for k in list(self.E):
                                if self.addr_acc.get(CH.utxos[k]['address'], 0) == a_ and k not in dl:
                                    del self.E[k]
                    self.sync = True
            elif op in ('send', 'send_nobroadcast', 'send_fail', 'sweep'):
                self.do_send(op)
            elif op == 'send_offline_input':
                # offline style spending: the input is given with value and address, the wallet has no record of the output
                # it spends; afterwards a provider that has not seen the spend yet lists that output
                cands = sorted(x for x in self.known if self.addr_acc.get(x, 0) == 0)
                a = rnd.choice(cands)
                v = 10 ** 6 * scale + rnd.randrange(1000)
                txid, n = CH.fund(a, v, network, confirmed=True)
                CH.snapshot()
                key_id = w.key(a).key_id if rnd.random() < 0.5 else None
                addr, _ = wallet_env.external_address(rnd, network)
                nb = len(CH.broadcasts)
                t = w.send([(addr, v // 2)], input_arr=[(txid, n, key_id, v, None, b'', a)], fee=rchain.NETWORKS[network]['fee_min'],
                           broadcast=True, priv_keys=ctx.extra_priv or None)
                self.after_send(t, nb)
                if rnd.random() < 0.7:
                    CH.faults['lag'] = 1
                    try:
                        w.utxos_update(account_id=0)
                    finally:
                        CH.faults['lag'] = 0
                    self.sync = False
            elif op == 'import_obj_send':
                # a version 2 (or 3) transaction, with or without a relative lock time, prepared elsewhere arrives as a Transaction object, is
                # imported, signed, sent and thereby stored; it must reload unchanged (I5)
                bal = int(w.balance(account_id=0))
                if bal > 50000:
                    addr, _ = wallet_env.external_address(rnd, network)
                    t0 = w.send_to(addr, rnd.choice([bal // 10, bal // 3]), account_id=0, min_confirms=0, broadcast=False,
                                   priv_keys=ctx.extra_priv or None)
                    T = t0.to_transaction()
                    if rnd.random() < 0.5:
                        T.set_locktime_relative_blocks(rnd.choice([1, 10, 144]), 0)
                    else:
                        T.version_int = rnd.choice([2, 2, 3])
                    T.sign_and_update()
                    rt = w.transaction_import(T)
                    rt.sign(ctx.extra_priv or None)
                    nb = len(CH.broadcasts)
                    rt.send()
                    self.after_send(rt, nb)
            elif op == 'send_refused_keep':
                # a request refused *after* input selection (fee far above the limit); the caller keeps the exception object
                bal = int(w.balance())
                if bal > 200000:
                    addr, _ = wallet_env.external_address(rnd, network)
                    try:
                        w.send_to(addr, 20000, fee=bal // 2, min_confirms=0, broadcast=False, priv_keys=ctx.extra_priv or None)
                    except Exception as e:
                        self.kept.append(e)
                        self.kept = self.kept[-2:]
            elif op == 'import_raw':
                if self.sent:
                    txid = rnd.choice(sorted(self.sent))
                    rt = w.transaction_import_raw(self.sent[txid], network=network)
                    if rt.txid != txid:
                        self.viol(None, 'transaction_import_raw of the wallet\'s own transaction reports another id', rt.txid, txid)
            elif op == 'delete':
                cand = [t for t in self.sent if any(k[0] == t for k in self.E)] or list(self.sent)
                unconf = [t for t in cand if all(u['height'] == 0 for k, u in CH.utxos.items() if k[0] == t)]
                if unconf:
                    txid = rnd.choice(sorted(unconf))
                    w.transaction_delete(txid)
                    p = rtx.parse(self.sent.pop(txid))
                    for i in p['ins']:
                        self.S.discard((i['txid'][::-1].hex(), i['n']))
                    self.sync = False
            elif op == 'mine':
                CH.mine()
            elif op == 'reopen':
                w = ctx.reopen()
        except Exception as e:
            txt = '%s: %s' % (type(e).__name__, str(e)[:160])
            del e
            if op in ('send', 'send_nobroadcast', 'send_fail', 'sweep', 'send_offline_input', 'import_obj_send') or (op == 'import_raw' and txt.startswith('WalletError')):
                pass   # refusals are legitimate (insufficient funds, dust, fee limits, failing provider; import of a
                # transaction whose inputs the wallet no longer has a value for) - the invariants are checked all the same
            else:
                key = K_UTXOS_STRIP if ('_sa_instance_state' in txt and self.kept) else None
                self.viol(key, 'operation %s raised %s' % (op, txt), txt, 'completed operation')
        self.check_all()

    def do_send(self, op):
        from vf import wallet_env
        rnd, CH, ctx = self.rnd, self.CH, self.ctx
        w = ctx.w
        network = ctx.network
        acc = rnd.choice(self.accounts)
        if len(self.accounts) > 1 and rnd.random() < 0.6:
            acc = rnd.choice(self.accounts[1:])     # spending from a non-default account is the less travelled path
        bal = int(w.balance(account_id=acc))
        if bal < 30000 and acc != 0:
            acc = 0
            bal = int(w.balance(account_id=acc))
        if bal < 30000:
            return
        addr, script = wallet_env.external_address(rnd, network)
        min_confirms = rnd.choice([0, 0, 1])
        if self.case.get('force_minconf') is not None:
            min_confirms = self.case['force_minconf']
        broadcast = op in ('send', 'send_fail', 'sweep')
        if op == 'send_fail':
            CH.faults['send'] = 'fail'
        nb = len(CH.broadcasts)
        t = None
        try:
            if op == 'sweep':
                t = w.sweep(addr, account_id=acc, min_confirms=min_confirms, broadcast=True)
            else:
                amt = rnd.choice([bal // 10, bal // 3, max(2000, bal - 200000), 1500])
                t = w.send_to(addr, amt, account_id=acc, min_confirms=min_confirms, broadcast=broadcast, priv_keys=ctx.extra_priv or None,
                              number_of_change_outputs=rnd.choice([1, 1, 2, 0]))
        finally:
            CH.faults['send'] = None
        self.after_send(t, nb)

    def after_send(self, t, nb):
        CH, ctx = self.CH, self.ctx
        network = ctx.network
        new_b = [b for b in CH.broadcasts[nb:] if b['accepted']]
        if t is not None and getattr(t, 'pushed', False) and new_b:
            raw = bytes.fromhex(new_b[-1]['raw'])
            p = rtx.parse(raw)
            txid = rtx.txid(p)
            self.sent[txid] = raw
            # I4 at selection time
            for i in p['ins']:
                op_ = (i['txid'][::-1].hex(), i['n'])
                if op_ in self.S:
                    self.viol(None, 'outpoint %s:%d already consumed by an earlier sent transaction was selected again' % (op_[0][:12], op_[1]), op_, None)
                self.S.add(op_)
                self.E.pop(op_, None)
            for n, o in enumerate(p['outs']):
                a = rchain.address_for_script(network, o['script'])
                if a in self.known or a in ctx.own_addresses(upto=120, accounts=(0, 1, 2, 3)):
                    self.known.add(a)
                    if a not in self.addr_acc:
                        # change address created by the library: attribute it to its account through the reference
                        self.addr_acc[a] = next((acc_ for acc_ in (0, 1, 2, 3) if a in ctx.own_addresses(upto=120, accounts=(acc_,))), 0)
                    self.E[(txid, n)] = o['value']
        elif new_b:
            self.viol(None, 'a transaction was broadcast although the wallet does not report it as pushed', new_b[-1]['txid'], None)

    # -------------------------------------------------------------- invariants
    def read(self, h):
        per = {}
        for a in self.accounts:
            per[a] = (h.balance(account_id=a), h.utxos(account_id=a))
        bal = h.balance()      # what a caller without arguments sees (default account)
        ut = h.utxos()
        keys = h.keys()
        return per, bal, ut, keys

    def check_handle(self, h, which):
        col = self.col
        col.probe('quiescent_check')
        try:
            per, bal_default, ut_default, keys = self.read(h)
        except Exception as e:
            txt = '%s: %s' % (type(e).__name__, str(e)[:200])
            del e
            self.viol(K_UTXOS_STRIP if ('_sa_instance_state' in txt and self.kept and which == 'operating') else None,
                      '%s handle: reading balance/utxos/keys raised %s' % (which, txt), txt, None)
            return None
        ut = [u for a in self.accounts for u in per[a][1]]
        su = sum(u['value'] for u in ut)
        lib_set = {(u['txid'], u['output_n']): u['value'] for u in ut}
        kb = sum(int(k.balance or 0) for k in keys)
        res = {'bal': sum(per[a][0] for a in self.accounts), 'su': su, 'kb': kb, 'set': lib_set}
        checks = [('account %d' % a, per[a][0], sum(u['value'] for u in per[a][1])) for a in self.accounts]
        checks.append(('default', bal_default, sum(u['value'] for u in ut_default)))
        for label, bal, su_a in checks:
            if bal != su_a:
                key = K_BAL_STALE if (which == 'operating' and su_a == 0 and bal > 0) else None
                self.viol(key, 'I1 %s handle (%s): balance() %s != sum(utxos()) %s' % (which, label, bal, su_a), {'balance': bal, 'sum_utxos': su_a}, 'equal')
        if kb != su:
            res['kb_bad'] = True
        # I2b WalletKey.balance() of up to 3 funded keys
        per_key = {}
        for u in ut:
            per_key[u['key_id']] = per_key.get(u['key_id'], 0) + u['value']
        for kid in sorted(per_key)[:3]:
            try:
                wkb = h.key(kid).balance()
            except Exception as e:
                wkb = 'EXC %r' % (e,)
            if wkb != per_key[kid]:
                res.setdefault('wk_bad', []).append((kid, wkb, per_key[kid]))
        # I4
        for op_ in lib_set:
            if op_ in self.S:
                self.viol(None, 'I4 %s handle: outpoint %s:%d consumed by a sent transaction is listed as unspent' % (which, op_[0][:12], op_[1]), op_, 'not listed')
        # I3
        if self.sync and lib_set != self.E:
            extra = sorted(set(lib_set) - set(self.E))[:3]
            missing = sorted(set(self.E) - set(lib_set))[:3]
            self.viol(None, 'I3 %s handle: unspent set differs from the model (extra %d, missing %d)' % (which, len(set(lib_set) - set(self.E)), len(set(self.E) - set(lib_set))),
                      {'extra': extra, 'missing': missing}, 'equal sets')
        return res

    def check_rows(self, expect_su):
        try:
            con = sqlite3.connect('file:%s?mode=ro' % self.db, uri=True)
            try:
                wid = con.execute('select id from wallets where name=?', (self.ctx.name,)).fetchone()[0]
                su = con.execute('select coalesce(sum(o.value),0) from transaction_outputs o join transactions t on o.transaction_id=t.id '
                                 'where t.wallet_id=? and o.spent=0 and o.key_id is not null', (wid,)).fetchone()[0]
                kb = con.execute('select coalesce(sum(balance),0) from keys where wallet_id=?', (wid,)).fetchone()[0]
                ntx = con.execute('select count(*) from transactions where wallet_id=?', (wid,)).fetchone()[0]
                nkeys = con.execute('select count(*) from keys where wallet_id=?', (wid,)).fetchone()[0]
            finally:
                con.close()
        except Exception as e:
            self.col.note_inconclusive('sqlite row check failed: %r' % (e,))
            return None
        self.col.probe('row_check')
        if su != expect_su:
            self.viol(None, 'rows: sum of unspent transaction_outputs %d != sum(utxos()) of a fresh handle %d' % (su, expect_su), su, expect_su)
        if kb != expect_su:
            self.viol(None, 'rows: sum of keys.balance %d != sum(utxos()) of a fresh handle %d' % (kb, expect_su), kb, expect_su)
        return ntx, nkeys

    def check_all(self):
        op = self.check_handle(self.ctx.w, 'operating')
        fresh = None
        try:
            fh = self.ctx.fresh()
            fresh = self.check_handle(fh, 'fresh')
        except Exception as e:
            txt = '%s: %s' % (type(e).__name__, str(e)[:200])
            del e
            self.viol(None, 'opening a fresh handle raised %s' % txt, txt, None)
            fh = None
        # I2 with attribution: per-key balances
        for which, r in (('operating', op), ('fresh', fresh)):
            if not r:
                continue
            if r.get('kb_bad'):
                key = None
                if which == 'operating' and fresh and not fresh.get('kb_bad') and fresh['su'] == r['su']:
                    key = K_KEYBAL_STALE   # narrow: the same DB read through a fresh handle is consistent
                self.viol(key, 'I2 %s handle: sum(keys()[*].balance) %s != sum(utxos()) %s' % (which, r['kb'], r['su']), {'keys': r['kb'], 'utxos': r['su']}, 'equal')
            for kid, got, want in r.get('wk_bad', []):
                self.viol(None, 'I2 %s handle: WalletKey(%s).balance() %s != sum of its utxos %s' % (which, kid, got, want), got, want)
        rows = None
        if fresh:
            rows = self.check_rows(fresh['su'])
        # I5 reload of stored transactions
        if fh is not None and self.sent:
            for txid in sorted(self.sent)[-2:]:
                self.col.probe('reload_check')
                raw = self.sent[txid]
                p = rtx.parse(raw)
                try:
                    t = fh.transaction(txid)
                except Exception as e:
                    txt = '%s: %s' % (type(e).__name__, str(e)[:200])
                    del e
                    self.viol(None, 'I5 reloading transaction %s raised %s' % (txid[:12], txt), txt, None)
                    continue
                if t is None:
                    self.viol(None, 'I5 sent transaction %s is not stored' % txid[:12], None, txid)
                    continue
                ins = [(bytes(i.prev_txid).hex(), i.output_n_int) for i in t.inputs]
                outs = [(int(o.value), bytes(o.lock_script)) for o in t.outputs]
                if t.txid != txid or ins != [(i['txid'][::-1].hex(), i['n']) for i in p['ins']] or outs != [(o['value'], o['script']) for o in p['outs']]:
                    self.viol(None, 'I5 reloaded transaction %s differs in id/inputs/outputs' % txid[:12], {'txid': t.txid, 'ins': ins[:3]}, txid)
                else:
                    try:
                        r2 = t.raw()
                    except Exception as e:
                        r2 = b'EXC ' + repr(e).encode()
                    if r2 != raw:
                        key = None
                        try:
                            p2 = rtx.parse(r2)
                            same_but_scriptsig = (len(p2['ins']) == len(p['ins']) and p2['outs'] == p['outs'] and
                                                  all(a['wit'] == b['wit'] and a['txid'] == b['txid'] and a['n'] == b['n'] and a['seq'] == b['seq']
                                                      for a, b in zip(p2['ins'], p['ins'])))
                            nested = all(len(b['script']) == 35 and b['script'][:3] == b'\x22\x00\x20' and a['script'][:3] == b['script'][:3]
                                         for a, b in zip(p2['ins'], p['ins']) if a['script'] != b['script'])
                            if same_but_scriptsig and nested and self.case['kind'] == 'multisig' and self.case['wt'] == 'p2sh-segwit':
                                key = K_RELOAD_P2SH_P2WSH   # narrow: only the witness-program push of nested P2WSH inputs differs
                        except Exception:
                            pass
                        self.viol(key, 'I5 reloaded transaction %s serialises differently' % txid[:12], r2.hex()[:400], raw.hex()[:400])
        if fresh:
            st = (len(fresh['set']), len(self.S), rows[1] if rows else -1, rows[0] if rows else -1)
            self.states.add(st)
        try:
            if fh is not None:
                fh.session.close()
        except Exception:
            pass


def run_history(case, col):
    try:
        H = History(case, col)
    except Exception as e:
        col.violation(None, 'creating the wallet raised %r' % (e,), case, repr(e), None)
        return
    ops = case.get('ops')
    if ops is None:
        ops = []
        r = random.Random('c08-ops-%s' % case['wseed'])
        ops.append('fund_update')
        if case['kind'] == 'hd' and r.random() < 0.5:
            ops += ['new_account', 'fund_update']
        for _ in range(case['n_ops'] - len(ops)):
            ops.append(r.choice(OPS))
    for op in ops:
        H.step(op)
    sends = sum(1 for b in H.sent) + 0
    has_reopen = 'reopen' in ops
    nontriv = ('hist', case['kind'], case['wt'], tuple(ops)) if (H.sent or any(o in ('send', 'sweep') for o in ops)) and has_reopen else None
    col.case('history/%s/%s' % (case['kind'], case['wt']), nontrivial=nontriv,
             sample={'wallet': {k: case[k] for k in ('kind', 'wt', 'network', 'wseed')}, 'ops': ops, 'sent': len(H.sent), 'final_unspent': len(H.E)})
    col.probe('operations', len(ops))
    col.probe('broadcast_sends', len(H.sent))
    col.extra.setdefault('abstract_states', set()).update(H.states)
    try:
        H.ctx.w.session.close()
    except Exception:
        pass


def run_cross_account_scenario(col, spec):
    """Fixed witness scenario for K_CROSS_ACCOUNT (kept out of the random histories so that it cannot absorb anything else)."""
    from vf import chain_model
    case = {'wseed': 'xacc-%d' % spec['seed'], 'kind': 'hd', 'wt': 'segwit', 'network': 'bitcoinlib_test', 'n_ops': 0, 'cross_account': True,
            'ops': []}
    try:
        H = History(case, col)
    except Exception as e:
        col.violation(None, 'creating the wallet raised %r' % (e,), case, repr(e), None)
        return
    CH = chain_model.CHAIN
    w = H.ctx.w
    for op in ('new_account',):
        H.step(op)
    a0 = sorted(a for a, acc in H.addr_acc.items() if acc == 0)[0]
    a1 = sorted(a for a, acc in H.addr_acc.items() if acc == 1)[0]
    CH.fund(a1, 100083, case['network'])                 # account 1 key also has an output of its own transaction
    op1 = CH.fund(a0, 70000, case['network'])
    CH.fund(a1, 5000, case['network'], same_tx_as=op1)   # ... and one in a transaction that pays account 0 first
    H.ops.append('fund_two_accounts_one_tx')
    for a_ in H.accounts:
        w.utxos_update(account_id=a_)
    H.E = H.model_unspent_known()
    H.sync = False     # which account lists the outputs is exactly what is wrong here
    H.check_all()
    col.case('history/cross-account-scenario', nontrivial=('xacc',), sample={'scenario': 'one funding tx pays account 0 and account 1'})


def replay(case, col):
    if not selfcheck(col):
        return
    from vf import chain_model
    chain_model.install()
    case = dict(case)
    run_history(case, col)


def selfcheck(col):
    try:
        ec.selfcheck(); codec.selfcheck(); rchain.selfcheck(); rtx.selfcheck(); bip32.selfcheck()
        return True
    except Exception as e:
        col.note_inconclusive('reference self-check failed: %r' % (e,))
        return False


def plan(tier, seed, scale=1.0):
    thorough = tier == 'thorough'
    nshard = 16
    nh = int((1280 if thorough else 64) * scale)
    return [{'shard': i, 'nshard': nshard, 'n_hist': max(1, nh // nshard), 'max_ops': 45 if thorough else 22} for i in range(nshard)]


def run_shard(spec, col):
    if not selfcheck(col):
        return
    from vf import chain_model
    chain_model.install()
    col.require('quiescent_check', 10)
    col.require('row_check', 5)
    rnd = random.Random('%s-%d-%d' % (ID, spec['seed'], spec['shard']))
    for k in range(spec['n_hist']):
        kind = ['hd', 'single', 'multisig', 'hd'][(k + spec['shard']) % 4]
        network = rnd.choice(['bitcoinlib_test', 'bitcoin', 'testnet', 'litecoin'])
        wt = rnd.choice(['legacy', 'p2sh-segwit', 'segwit'])
        case = {'wseed': '%d-%d-%d' % (spec['seed'], spec['shard'], k), 'kind': kind, 'wt': wt, 'network': network,
                'n_ops': rnd.randint(12, spec['max_ops'])}
        if kind == 'single' and rnd.random() < 0.5:
            case['wt'] = 'legacy'
            case['uncompressed'] = True     # wallet around an old-style uncompressed WIF key
        run_history(case, col)
    # dedicated class per shard: two outputs of one funding transaction are spent by two different sent transactions, then
    # one of them is deleted (only the outpoint it consumed may come back)
    kind = ['hd', 'single', 'multisig', 'hd'][spec['shard'] % 4]
    case = {'wseed': '%d-%d-pair' % (spec['seed'], spec['shard']), 'kind': kind, 'wt': rnd.choice(['legacy', 'p2sh-segwit', 'segwit']),
            'network': rnd.choice(['bitcoinlib_test', 'bitcoin', 'testnet', 'litecoin']), 'n_ops': 8, 'force_minconf': 1,
            'ops': ['fund_pair', 'send', 'send', 'delete', 'update', 'reopen', 'send', 'delete']}
    run_history(case, col)
    if spec['shard'] == 0:
        run_cross_account_scenario(col, spec)
    st = col.extra.get('abstract_states')
    if st is not None:
        col.extra['abstract_states'] = len(st)
