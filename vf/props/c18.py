"""C18 - wire primitives (CompactSize, script numbers, pushes) are canonical and round-trip; script
parse -> serialize reproduces bytes and items.

Monitor shape: postconditions (icontract) on the real functions called directly by the harness, against the
protocol definitions in vf.refs.codec.  Violations are recorded, never raised into library code.
"""
import io
import random

from vf.refs import codec

ID = 'C18'
LEVEL = 'exploration'
ANCHORS = ['bitcoinlib/encoding.py', 'bitcoinlib/scripts.py']
DEPS = ('icontract',)
RULE = ('cases: CompactSize integers (exhaustive 0..70000 + every boundary to 2^64-1 + random), script numbers '
        '(exhaustive +-70000 + sign-bit edges to +-2^31 + random), push lengths 0..520 and 65535, varstr lengths '
        '0..300 incl. the byte 00, scripts = random opcode/data item sequences serialised by the reference with '
        'minimal pushes (total lengths deliberately incl. 33, 64, 65, 69..74); non-trivial = distinct '
        '(primitive, size class / boundary class / item-shape) tuples')
TRUSTED_BASE = ['vf/refs/codec.py (CompactSize, CScriptNum, push selection, GetOp tokeniser; self-checked on protocol vectors)']
ASSUMPTIONS = ['OP_1..OP_16/OP_1NEGATE substitution for small numbers (MINIMALDATA policy) is not demanded, only push-length selection',
               'an empty data item and OP_0 are the same item; a nested command list is the same item as the data push of its serialisation']
EXHAUSTIVE = ['CompactSize 0..70000', 'script numbers -70000..70000', 'push lengths 0..520', 'varstr lengths 0..300']

K_CS_BOUNDARY = 'C18/compactsize/upper-boundary-exclusive'
K_VARSTR_ZERO = 'C18/varstr/single-zero-byte'
K_SUBSCRIPT = 'C18/script-parse/data-item-reparsed-as-subscript'
K_WHOLELEN = 'C18/script-parse/whole-length-heuristic'
K_PARSE_HALF = 'C18/script-parse/bytes-length-halved'

OPS = [0x4f] + list(range(0x50, 0xba))


class PostBroken(Exception):
    pass


_wrapped = {}


def _contracts():
    """icontract postconditions on the real primitives (harness-side wrappers; the library is not edited)."""
    if _wrapped:
        return _wrapped
    import icontract
    from bitcoinlib import encoding, scripts

    def cs_is_protocol(inp, result):
        return result == codec.compact_size(inp)

    def num_is_protocol(num, result):
        return result == codec.scriptnum_encode(num)

    def dec_is_protocol(encoded, result):
        return result == codec.scriptnum_decode(encoded)

    def push_is_minimal(data, result):
        return result == codec.push_data(data)

    _wrapped['int_to_varbyteint'] = icontract.ensure(cs_is_protocol, error=PostBroken)(encoding.int_to_varbyteint)
    _wrapped['encode_num'] = icontract.ensure(num_is_protocol, error=PostBroken)(scripts.encode_num)
    _wrapped['decode_num'] = icontract.ensure(dec_is_protocol, error=PostBroken)(scripts.decode_num)
    _wrapped['data_pack'] = icontract.ensure(push_is_minimal, error=PostBroken)(scripts.data_pack)
    return _wrapped


def _size_class(n):
    for lim, name in ((0xfc, 'u8'), (0xffff, 'u16'), (0xffffffff, 'u32'), (2 ** 64 - 1, 'u64')):
        if n <= lim:
            edge = n in (0, 0xfc, 0xfd, 0xfe, 0xff, 0x100, 0xfffe, 0xffff, 0x10000, 0xfffffffe, 0xffffffff, 2 ** 32, 2 ** 64 - 1)
            return name + ('-edge' if edge else '')


# ------------------------------------------------------------------ checkers
def chk_compact(n, col):
    from bitcoinlib import encoding
    w = _contracts()
    exp = codec.compact_size(n)
    cls = 'compact/' + _size_class(n)
    col.case(cls, nontrivial=('compact', _size_class(n), n % 7), sample={'kind': 'compact', 'n': n})
    case = {'kind': 'compact', 'n': n}
    col.probe('int_to_varbyteint')
    got = None
    try:
        got = w['int_to_varbyteint'](n)
    except PostBroken:
        got = encoding.int_to_varbyteint(n)
        key = None
        if n in (0xffff, 0xffffffff) and got == (b'\xfe' + n.to_bytes(4, 'little') if n == 0xffff else b'\xff' + n.to_bytes(8, 'little')):
            key = K_CS_BOUNDARY
        col.violation(key, 'int_to_varbyteint(%#x) is not the CompactSize encoding' % n, case, got, exp)
    except Exception as e:
        col.violation(None, 'int_to_varbyteint(%#x) raised %r' % (n, e), case, repr(e), exp)
    # decoders are judged on the protocol encoding, independent of the encoder
    col.probe('varbyteint_to_int')
    for name, fn in (('varbyteint_to_int', lambda b: encoding.varbyteint_to_int(b)),
                     ('varbyteint_to_int+tail', lambda b: encoding.varbyteint_to_int(b + b'\xaa\xbb')),
                     ('read_varbyteint', lambda b: _read_stream(encoding.read_varbyteint, b)),
                     ('read_varbyteint_return', lambda b: _read_stream(encoding.read_varbyteint_return, b))):
        try:
            r = fn(exp)
        except Exception as e:
            col.violation(None, '%s raised %r on %s' % (name, e, exp.hex()), case, repr(e), n)
            continue
        if name.startswith('varbyteint_to_int'):
            ok = r == (n, len(exp))
        elif name == 'read_varbyteint':
            ok = r == (n, len(exp))
        else:
            ok = r == ((n, exp), len(exp))
        if not ok:
            col.violation(None, '%s(%s) wrong value/size/stream position' % (name, exp.hex()), case, r, (n, len(exp)))


def _read_stream(fn, b):
    s = io.BytesIO(b + b'\x01\x02\x03\x04\x05\x06\x07\x08\x09')
    v = fn(s)
    return v, s.tell()


def _num_class(n):
    a = abs(n)
    nb = (a.bit_length() + 7) // 8
    edge = a in (0, 1, 0x7f, 0x80, 0xff, 0x100, 0x7fff, 0x8000, 0xffff, 0x10000, 0x7fffff, 0x800000, 0xffffff, 0x1000000,
                 0x7fffffff, 0x80000000)
    return '%s%db%s' % ('neg' if n < 0 else 'pos', nb, '-edge' if edge else '')


def chk_num(n, col):
    from bitcoinlib import scripts
    w = _contracts()
    exp = codec.scriptnum_encode(n)
    col.case('scriptnum/' + _num_class(n), nontrivial=('num', _num_class(n), n % 5), sample={'kind': 'num', 'n': n})
    case = {'kind': 'num', 'n': n}
    col.probe('encode_num')
    try:
        w['encode_num'](n)
    except PostBroken:
        col.violation(None, 'encode_num(%d) is not the CScriptNum serialisation' % n, case, scripts.encode_num(n), exp)
    except Exception as e:
        col.violation(None, 'encode_num(%d) raised %r' % (n, e), case, repr(e), exp)
    col.probe('decode_num')
    try:
        w['decode_num'](exp)
    except PostBroken:
        col.violation(None, 'decode_num(%s) != %d' % (exp.hex(), n), case, scripts.decode_num(exp), n)
    except Exception as e:
        col.violation(None, 'decode_num(%s) raised %r' % (exp.hex(), e), case, repr(e), n)


def chk_push(length, fill, col):
    from bitcoinlib import scripts
    w = _contracts()
    data = bytes([fill]) * length
    exp = codec.push_data(data)
    cls = 'push/' + ('direct' if length < 76 else 'pushdata1' if length < 256 else 'pushdata2')
    col.case(cls, nontrivial=('push', length), sample={'kind': 'push', 'length': length, 'fill': fill})
    case = {'kind': 'push', 'length': length, 'fill': fill}
    col.probe('data_pack')
    try:
        w['data_pack'](data)
    except PostBroken:
        col.violation(None, 'data_pack(len %d) is not the minimal push' % length, case, scripts.data_pack(data)[:4], exp[:4])
    except Exception as e:
        col.violation(None, 'data_pack(len %d) raised %r' % (length, e), case, repr(e), exp[:4])
    # the push must come back as one item
    try:
        s = scripts.Script.parse_bytes(_ser_items(_safe([data])), strict=False)   # OP_NOPs keep whole-length heuristics out
        items = _flatten(s.commands)
        if [i for i in items if i != 0x61] != [_norm(data)]:
            col.violation(_classify_script([0x61, data, 0x61], col), 'push of %d bytes does not parse back to one item' % length, case, _short(items), [length, 0x61])
    except Exception as e:
        col.violation(None, 'parse of a %d byte push raised %r' % (length, e), case, repr(e), None)


def chk_varstr(data, col):
    from bitcoinlib import encoding
    exp = codec.compact_size(len(data)) + data
    col.case('varstr/' + ('zero-byte' if data == b'\0' else _size_class(len(data))), nontrivial=('varstr', len(data), data[:1]),
             sample={'kind': 'varstr', 'data': data.hex()})
    col.probe('varstr')
    case = {'kind': 'varstr', 'data': data.hex()}
    try:
        got = encoding.varstr(data)
    except Exception as e:
        col.violation(None, 'varstr raised %r' % (e,), case, repr(e), exp)
        return
    if got != exp:
        key = K_VARSTR_ZERO if (data == b'\0' and got == b'\0') else None
        if len(data) == 0xffff and got == b'\xfe' + len(data).to_bytes(4, 'little') + data:
            key = K_CS_BOUNDARY
        col.violation(key, 'varstr(%s...) is not length-prefixed data' % data[:8].hex(), case, got[:12], exp[:12])


# ------------------------------------------------------------------ scripts
def _norm(x):
    if isinstance(x, (bytes, bytearray)):
        return 0 if len(x) == 0 else bytes(x)
    return x


def _ser_items(items):
    return b''.join(bytes([i]) if isinstance(i, int) else codec.push_data(i) for i in items)


def _flatten(cmds):
    """Library command list -> item list; a nested list counts as the data item of its own serialisation."""
    out = []
    for c in cmds:
        if isinstance(c, list):
            try:
                out.append(_norm(_ser_items([_norm_nested(x) for x in c])))
            except Exception:
                out.append(('nested', repr(c)[:80]))
        else:
            out.append(_norm(c))
    return out


def _norm_nested(x):
    if isinstance(x, list):
        return _ser_items([_norm_nested(y) for y in x])
    return x


def _short(items):
    return [i if isinstance(i, int) else ('data%d' % len(i) if isinstance(i, bytes) else i) for i in items]


PARSERS = ('parse_bytes', 'parse_hex', 'parse')


def _run_parser(name, raw, strict):
    from bitcoinlib.scripts import Script
    if name == 'parse_bytes':
        return Script.parse_bytes(raw, strict=strict)
    if name == 'parse_hex':
        return Script.parse_hex(raw.hex(), strict=strict)
    return Script.parse(raw, strict=strict)


def _script_ok(items, parser, strict):
    """-> (ok, symptom, observed). Raising under strict=True is a documented refusal (ok)."""
    raw = _ser_items(items)
    try:
        s = _run_parser(parser, raw, strict)
    except Exception as e:
        if strict:
            return True, 'refused', None
        return False, 'parse-raised', repr(e)[:200]
    try:
        got_items = _flatten(s.commands)
    except Exception as e:
        got_items = ['EXC %r' % (e,)]
    try:
        out = s.serialize()
    except Exception as e:
        return False, 'serialize-raised', repr(e)[:200]
    if out != raw:
        return False, 'bytes-differ', out.hex()[:200]
    if got_items != [_norm(i) for i in items]:
        return False, 'items-differ', _short(got_items)
    return True, '', None


def _is_neutral(d):
    """data items the library types as key/hash/number and never re-parses as a script"""
    return len(d) in (20, 32) or 1 <= len(d) <= 4


_TRIG = {33, 64, 65, 69, 70, 71, 72, 73, 74}


def _safe(items):
    """Prepend OP_NOP and pad with OP_NOPs so that neither the total length nor its half hits a whole-length trigger."""
    out = [0x61] + list(items)
    while len(_ser_items(out)) in _TRIG or len(_ser_items(out)) // 2 in _TRIG:
        out.append(0x61)
    return out


def _triggers(n, first):
    return n == 64 or (n in (33, 65) and first in (2, 3, 4)) or (69 <= n <= 74 and first == 0x30)


def _classify_script(items, col, parser='parse_bytes', strict=False):
    """Feature ablation: which single neutralisation heals the case?"""
    raw = _ser_items(items)
    # (a) whole-length heuristics: same items, different total length / first byte
    ok, _, _ = _script_ok(_safe(items), parser, strict)
    if ok:
        if parser == 'parse' and _triggers(len(raw) // 2, raw[0]):
            return K_PARSE_HALF
        if _triggers(len(raw), raw[0]):
            return K_WHOLELEN
    # (b) data items typed 'other' re-parsed as scripts: replace them by 20-byte items
    neutral = [(b'\x11' * 20 if (isinstance(i, bytes) and not _is_neutral(i)) else i) for i in items]
    if neutral != list(items):
        nraw = _ser_items(neutral)
        plain = not (_triggers(len(nraw), nraw[0]) or _triggers(len(nraw) // 2, nraw[0]))
        ok2, _, _ = _script_ok(neutral if plain else _safe(neutral), parser, strict)
        if ok2:
            return K_SUBSCRIPT
    return None


def chk_script(items, col):
    raw = _ser_items(items)
    shape = tuple('op' if isinstance(i, int) else ('d%d' % len(i)) for i in items)
    datalens = sorted({len(i) for i in items if isinstance(i, bytes)})
    cls = 'script/len%s' % ('33' if len(raw) == 33 else '64' if len(raw) == 64 else '65' if len(raw) == 65 else
                            '69-74' if 69 <= len(raw) <= 74 else 'other')
    col.case(cls, nontrivial=('script', shape), sample={'kind': 'script', 'items': [i if isinstance(i, int) else i.hex() for i in items]})
    case = {'kind': 'script', 'items': [i if isinstance(i, int) else i.hex() for i in items]}
    for parser in PARSERS:
        for strict in (False, True):
            col.probe('script_roundtrip')
            ok, symptom, obs = _script_ok(items, parser, strict)
            if symptom == 'refused':
                col.probe('strict_refusals')
            if not ok:
                key = _classify_script(items, col, parser, strict)
                col.violation(key, 'Script.%s(strict=%s) of %d-byte script %s: %s' % (parser, strict, len(raw), _short(items), symptom),
                              dict(case, parser=parser, strict=strict), obs, {'raw': raw.hex()[:200], 'items': _short(items)})


def gen_script(rnd, maxlen):
    n = rnd.randint(1, maxlen)
    items = []
    for _ in range(n):
        r = rnd.random()
        if r < 0.45:
            items.append(rnd.choice(OPS))
        elif r < 0.5:
            items.append(0)
        else:
            L = rnd.choice([1, 1, 2, 3, 4, 5, 8, 20, 20, 32, 32, 33, 64, 65, 70, 71, 72, 73, 75, 76, 80, 255, 256, 520])
            d = rnd.randbytes(L)
            if L in (33, 65) and rnd.random() < 0.5:
                d = bytes([rnd.choice([2, 3]) if L == 33 else 4]) + d[1:]
            if 69 <= L <= 74 and rnd.random() < 0.5:
                d = b'\x30' + d[1:]
            items.append(d)
    return items


def gen_script_total(rnd, total):
    """A script of exactly `total` bytes whose first byte is one of the heuristic triggers."""
    first = rnd.choice([0x02, 0x03, 0x04, 0x30, 0x51, 0x76])
    items = []
    if first <= 75:
        items.append(rnd.randbytes(first))
        used = 1 + first
    else:
        items.append(first)
        used = 1
    while used < total:
        rem = total - used
        if rem >= 22 and rnd.random() < 0.5:
            items.append(rnd.randbytes(20))
            used += 21
        elif rem >= 3 and rnd.random() < 0.3:
            items.append(rnd.randbytes(2))
            used += 3
        else:
            items.append(rnd.choice(OPS))
            used += 1
    return items


# ------------------------------------------------------------------ plan / shards / replay
def run_case(case, col):
    k = case['kind']
    if k == 'compact':
        chk_compact(int(case['n']), col)
    elif k == 'num':
        chk_num(int(case['n']), col)
    elif k == 'push':
        chk_push(case['length'], case.get('fill', 0x42), col)
    elif k == 'varstr':
        chk_varstr(bytes.fromhex(case['data']), col)
    elif k == 'script':
        chk_script([i if isinstance(i, int) else bytes.fromhex(i) for i in case['items']], col)


def replay(case, col):
    codec.selfcheck()
    run_case(case, col)


def plan(tier, seed, scale=1.0):
    thorough = tier == 'thorough'
    nshard = 16 if thorough else 8
    specs = []
    for i in range(nshard):
        specs.append({'part': 'mixed', 'shard': i, 'nshard': nshard,
                      'n_random': int((600000 if thorough else 6000) * scale),
                      'n_scripts': int((40000 if thorough else 1500) * scale),
                      'maxlen': 40 if thorough else 12,
                      'exh_hi': 70000})
    return specs


def run_shard(spec, col):
    try:
        codec.selfcheck()
    except Exception as e:
        col.note_inconclusive('reference self-check failed: %r' % (e,))
        return
    for p in ('int_to_varbyteint', 'varbyteint_to_int', 'encode_num', 'decode_num', 'data_pack', 'varstr', 'script_roundtrip'):
        col.require(p)
    rnd = random.Random('%s-%d-%d' % (ID, spec['seed'], spec['shard']))
    sh, ns = spec['shard'], spec['nshard']
    hi = spec['exh_hi']
    # exhaustive windows, striped over shards
    for n in range(sh, hi + 1, ns):
        chk_compact(n, col)
    for n in range(-hi + sh, hi + 1, ns):
        chk_num(n, col)
    for L in range(sh, 521, ns):
        chk_push(L, 0x42, col)
    for L in range(sh, 301, ns):
        chk_varstr(bytes([0x41]) * L, col)
        chk_varstr(bytes(L), col)
    if sh == 0:
        chk_push(65535, 0x42, col)
        chk_varstr(b'\0', col)
        chk_varstr(b'\x01', col)
        for e in (8, 16, 32, 64):
            for d in (-2, -1, 0, 1, 2):
                v = 2 ** e + d
                if 0 <= v < 2 ** 64:
                    chk_compact(v, col)
        for v in (0xfc, 0xfd, 0xfe, 0xff, 2 ** 63, 2 ** 64 - 1):
            chk_compact(v, col)
        for e in (7, 8, 15, 16, 23, 24, 31):
            for d in (-1, 0, 1):
                for sgn in (1, -1):
                    v = sgn * (2 ** e + d)
                    if abs(v) <= 2 ** 31:
                        chk_num(v, col)
        chk_varstr(b'\x07' * 0xffff, col)
        chk_varstr(b'\x07' * 0x10000, col)
    for _ in range(spec['n_random']):
        r = rnd.random()
        if r < 0.5:
            chk_compact(rnd.choice([rnd.getrandbits(16), rnd.getrandbits(32), rnd.getrandbits(64), rnd.getrandbits(24)]), col)
        else:
            chk_num(rnd.choice([1, -1]) * rnd.getrandbits(rnd.choice([8, 16, 24, 31])), col)
    totals = [33, 64, 65] + list(range(69, 75))
    for k in range(spec['n_scripts']):
        if k % 5 == 4:
            chk_script(gen_script_total(rnd, rnd.choice(totals)), col)
        else:
            chk_script(gen_script(rnd, spec['maxlen']), col)
