"""C14 - BIP39 in every bundled language: sentence for an entropy, round trip, seed (NFKD on both inputs), and
rejection of sentences with a bad checksum or an out-of-list word.

Monitor shape: reference-model comparator (vf.refs.bip39, written from the BIP) on the real `Mnemonic` methods and
`HDKey.from_passphrase`, driven directly by the harness. The word lists are data: the reference reads the same
files as the library; golden/wordlists.sha256 pins their digests (change detector) and the reference checks their
structure (2048 unique NFKD words). Violations are recorded, never raised into library code.
"""
import os
import random
import hashlib
import unicodedata

from vf.refs import bip39 as ref
from vf.refs import bip32 as ref32
from vf.refs import secp256k1 as ec

ID = 'C14'
LEVEL = 'exploration'
ANCHORS = ['bitcoinlib/mnemonic.py', 'bitcoinlib/encoding.py', 'bitcoinlib/keys.py']
DEPS = ()
RULE = ('cases: (a) entropy cases = language x entropy size 16/20/24/28/32 x pattern (1..15 leading zero bytes, all-zero, '
        'all-ones, >= curve order, repeated byte, random) x input form (bytes, hex) x passphrase class (none, ASCII, '
        'composed/decomposed accents, compatibility characters, CJK, emoji) x sentence spelling (NFKD, NFC, ideographic '
        'space); each runs to_mnemonic, to_entropy, to_seed and HDKey.from_passphrase against the reference; (b) every '
        'single-word substitution (2047 alternatives) at a position of a sampled valid sentence plus out-of-list words, '
        'the reference deciding which keep a valid checksum; (c) generate(); (d) word-list digests/structure; (e) sequences '
        'of 7-16 operations on ONE Mnemonic object of language A: sentences of another language B are handed to to_seed / '
        'to_entropy / sanitize_mnemonic / detect_language before, between and after the own-language services (to_mnemonic, '
        'generate, word, wordlist, to_entropy, to_seed), four orders, all ordered language pairs reachable; (f) corrupted '
        'sentences of language B (word substituted, two words swapped, wrong last/first word, duplicated neighbour; all words '
        'in B\'s list, the reference decides over all nine lists whether any still validates it) handed to to_seed / to_entropy '
        'of instances of OTHER languages and to HDKey.from_passphrase; '
        'non-trivial = distinct (kind, language, size, pattern, form, passphrase class, spelling) tuples, and for (b) '
        'distinct (language, size, position, verdict class, word bucket) tuples, for (e) distinct (A, B, operation list), for (f) distinct (B, corruption, verdict, instances, length)')
TRUSTED_BASE = ['vf/refs/bip39.py (self-checked: TREZOR English vectors, Japanese NFKD vector, repo tests/mnemonics_tests.json)',
                'vf/refs/bip32.py master key (BIP32 vectors) for HDKey.from_passphrase',
                'golden/wordlists.sha256: digests pinned from tree 074a788 (english.txt equals the published BIP39 list digest); '
                'an edited list is detected as a change, the original content of the non-English lists is not judged',
                'hashlib.pbkdf2_hmac, unicodedata (Unicode tables of this interpreter are shared with the library)']
ASSUMPTIONS = ['a refusal is any raised exception; to_mnemonic refusing entropy 0 and >= secp256k1 order with the default '
               'check_on_curve=True is by design: those patterns are judged with check_on_curve=False',
               'sentences are written with U+0020 (library style); U+3000 separators are judged only as an input spelling',
               'Mnemonic(lang) is used with the language of the sentence; HDKey.from_passphrase has no language parameter',
               'only checksummed sentences (add_checksum/includes_checksum defaults) are judged']
EXHAUSTIVE = ['all 2047 single-word substitutions at each sampled (sentence, position): quick = all 12 positions of one '
              'sentence (plus every 4th alternative at 4 positions in other languages); thorough = all positions of 12 sentences']

K_PASS_NFKD = 'C14/to_seed/passphrase-not-nfkd'
K_FROMPASS_LANG = 'C14/from_passphrase/non-english-sentence-refused'
K_BYTES_HEX = 'C14/checksum/entropy-bytes-unhexlified'

N = ec.N
_PASS = [
    ('none', ''),
    ('ascii', 'TREZOR'),
    ('ascii', 'correct horse battery staple'),
    ('accent-composed', 'caf\u00e9 \u00e5ngstr\u00f6m'),
    ('accent-decomposed', 'cafe\u0301 a\u030angstro\u0308m'),
    ('compat', '\uff21\ufb01\u00b5\u2460\u3392'),          # fullwidth A, fi ligature, micro sign, circled 1, square MHz
    ('cjk', '\u5341\u4eba\u5341\u8272 \u5bc6\u7801'),
    ('jp-compat', ref._JP_PASS),
    ('hangul-composed', '\ud55c\uae00 \ube44\ubc00'),
    ('emoji', '\U0001f511\U0001f4a9 \u2764\ufe0f'),
    ('ascii', ' leading and trailing '),
]


# ------------------------------------------------------------------------------------------------ word lists
_lists = {}


def _wl_dir():
    from vf import env as venv
    return os.path.join(venv.repo_dir(), 'bitcoinlib', 'wordlist')


def _golden():
    from vf import env as venv
    out = {}
    with open(os.path.join(venv.VERIF_DIR, 'golden', 'wordlists.sha256')) as f:
        for line in f:
            line = line.strip()
            if line and not line.startswith('#'):
                h, name = line.split()
                out[name.lstrip('*')] = h
    return out


def languages():
    return sorted(n[:-4] for n in _golden())


def wordlist(lang):
    if lang not in _lists:
        with open(os.path.join(_wl_dir(), lang + '.txt'), 'rb') as f:
            _lists[lang] = ref.parse_wordlist(f.read())
    return _lists[lang]


def chk_wordlists(col):
    """Pinned digests + structure + the library sees the same words (kind 'wordlist')."""
    gold = _golden()
    present = sorted(n for n in os.listdir(_wl_dir()) if n.endswith('.txt'))
    case = {'kind': 'wordlist'}
    col.probe('wordlist_digest')
    if present != sorted(gold):
        col.violation(None, 'bundled word lists differ from the nine pinned ones', case, present, sorted(gold))
    for name in sorted(gold):
        lang = name[:-4]
        col.case('wordlist/' + lang, nontrivial=('wordlist', lang), sample={'kind': 'wordlist', 'lang': lang})
        path = os.path.join(_wl_dir(), name)
        if not os.path.exists(path):
            continue
        raw = open(path, 'rb').read()
        col.probe('wordlist_digest')
        h = hashlib.sha256(raw).hexdigest()
        if h != gold[name]:
            col.violation(None, 'word list %s changed (digest differs from golden/wordlists.sha256)' % name, dict(case, lang=lang), h, gold[name])
        probs = ref.wordlist_problems(ref.parse_wordlist(raw))
        if probs:
            col.violation(None, 'word list %s is not a BIP39 list: %s' % (name, '; '.join(probs)), dict(case, lang=lang), probs, [])
        try:
            from bitcoinlib.mnemonic import Mnemonic
            lw = [unicodedata.normalize('NFKD', w) for w in Mnemonic(lang).wordlist()]
            if lw != ref.parse_wordlist(raw):
                col.violation(None, 'Mnemonic(%s).wordlist() is not the content of %s' % (lang, name), dict(case, lang=lang), len(lw), 2048)
        except Exception as e:
            col.violation(None, 'Mnemonic(%r) raised %r' % (lang, e), dict(case, lang=lang), repr(e), None)


# ------------------------------------------------------------------------------------------------- entropy cases
def _pattern_entropy(rnd, nbytes, pattern):
    if pattern.startswith('lz'):
        k = min(int(pattern[2:]), nbytes - 1)
        body = rnd.randbytes(nbytes - k)
        if body[0] == 0:
            body = b'\x01' + body[1:]
        return bytes(k) + body
    if pattern == 'zero':
        return bytes(nbytes)
    if pattern == 'ones':
        return b'\xff' * nbytes
    if pattern == 'one':
        return bytes(nbytes - 1) + b'\x01'
    if pattern == 'order':
        d = rnd.choice([-1, 0, 1, 2 ** 64])
        return (N + d).to_bytes(32, 'big')
    if pattern == 'repeat':
        return bytes([rnd.choice([0x01, 0x7f, 0x80, 0xaa, 0x55, 0xfe])]) * nbytes
    if pattern == 'asciihex':
        return bytes(rnd.choice(b'0123456789abcdefABCDEF') for _ in range(nbytes))
    if pattern == 'highbit':
        b = rnd.randbytes(nbytes)
        return bytes([b[0] | 0x80]) + b[1:]
    return rnd.randbytes(nbytes)


def _patterns(nbytes):
    p = ['lz%d' % k for k in range(1, 16)] + ['zero', 'ones', 'one', 'repeat', 'highbit', 'asciihex'] + ['random'] * 12
    if nbytes == 32:
        p += ['order', 'order']
    return p


def _spell(sentence, spelling):
    if spelling == 'nfc':
        return unicodedata.normalize('NFC', sentence)
    if spelling == 'ideographic-space':
        return sentence.replace(' ', '\u3000')
    if spelling == 'nfc+ideographic-space':
        return unicodedata.normalize('NFC', sentence).replace(' ', '\u3000')
    return sentence


def _raw_seed(sentence, passphrase):
    """What an implementation computes that normalises the sentence but not the passphrase (recogniser only)."""
    return hashlib.pbkdf2_hmac('sha512', ref.nfkd(sentence).encode('utf-8'), b'mnemonic' + passphrase.encode('utf-8'), 2048, 64)


def _refuse_by_design(ent):
    v = int.from_bytes(ent, 'big')
    return v == 0 or v >= N


def chk_entropy(case, col):
    from bitcoinlib.mnemonic import Mnemonic
    from bitcoinlib.keys import HDKey
    lang, ent, form = case['lang'], bytes.fromhex(case['ent']), case.get('form', 'bytes')
    passphrase, pcls = case.get('pass', ''), case.get('pcls', 'none')
    spelling, pattern = case.get('spelling', 'nfkd'), case.get('pattern', 'random')
    words = wordlist(lang)
    exp_sentence = ref.to_mnemonic(ent, words)
    exp_seed = ref.to_seed(exp_sentence, passphrase)
    col.case('entropy/%s/%d/%s' % (lang, len(ent), 'lz' if pattern.startswith('lz') else pattern),
             nontrivial=('entropy', lang, len(ent), pattern, form, pcls, spelling), sample=case)
    try:
        m = Mnemonic(lang)
    except Exception as e:
        col.violation(None, 'Mnemonic(%r) raised %r' % (lang, e), case, repr(e), None)
        return

    # -- entropy -> sentence
    arg = ent if form == 'bytes' else ent.hex()
    col.probe('to_mnemonic')
    got = None
    try:
        got = m.to_mnemonic(arg)
    except Exception as e:
        if _refuse_by_design(ent):
            col.probe('to_mnemonic_refused_by_design')
            try:
                got = m.to_mnemonic(arg, check_on_curve=False)
            except Exception as e2:
                col.violation(None, 'to_mnemonic(check_on_curve=False) raised %r' % (e2,), case, repr(e2), exp_sentence)
        else:
            col.violation(_bytes_hex_key(m, ent, words), 'to_mnemonic refused a valid entropy: %r' % (e,), case, repr(e), exp_sentence)
    if got is not None and got != exp_sentence:
        col.violation(_bytes_hex_key(m, ent, words),
                      'to_mnemonic(%s, %d-byte %s entropy) is not the BIP39 sentence' % (lang, len(ent), pattern), case, got, exp_sentence)

    # -- sentence -> entropy (judged on the reference sentence, independent of the encoder)
    sent_in = _spell(exp_sentence, spelling)
    col.probe('to_entropy')
    try:
        back = m.to_entropy(sent_in)
        if bytes(back) != ent:
            col.violation(None, 'to_entropy(%s sentence, %s) returned another entropy' % (lang, spelling), case, back, ent)
    except Exception as e:
        col.violation(_asciihex_key(m, ent, e, words), 'to_entropy refused a valid %s sentence (%s spelling): %r' % (lang, spelling, e), case, repr(e), ent)

    # -- seed
    col.probe('to_seed')
    try:
        seed = m.to_seed(sent_in, passphrase) if passphrase != '' or case.get('explicit_empty') else m.to_seed(sent_in)
        if bytes(seed) != exp_seed:
            key = None
            if passphrase != ref.nfkd(passphrase) and bytes(seed) == _raw_seed(exp_sentence, passphrase):
                key = K_PASS_NFKD
            col.violation(key, 'to_seed(%s sentence [%s], passphrase class %s) is not the BIP39 seed' % (lang, spelling, pcls), case, seed, exp_seed)
    except Exception as e:
        col.violation(_asciihex_key(m, ent, e, words), 'to_seed refused a valid %s sentence: %r' % (lang, e), case, repr(e), exp_seed)

    # -- HDKey.from_passphrase: master key of the BIP39 seed
    if case.get('hd', True) and not _asciihex(ent):     # (validation of such entropy fails by K_BYTES_HEX, judged above)
        col.probe('from_passphrase')
        try:
            xm = ref32.master(exp_seed)
        except ValueError:
            xm = None
        try:
            k = HDKey.from_passphrase(sent_in, passphrase)
            got_k = (k.private_byte, k.chain)
            if xm is not None and got_k != (xm.secret.to_bytes(32, 'big'), xm.chain):
                key = None
                if passphrase != ref.nfkd(passphrase):
                    xr = ref32.master(_raw_seed(exp_sentence, passphrase))
                    if got_k == (xr.secret.to_bytes(32, 'big'), xr.chain):
                        key = K_PASS_NFKD
                col.violation(key, 'HDKey.from_passphrase(%s sentence, passphrase class %s) is not the master key of the BIP39 seed' % (lang, pcls),
                              case, [got_k[0].hex(), got_k[1].hex()], [xm.secret.to_bytes(32, 'big').hex(), xm.chain.hex()])
        except Exception as e:
            key = None
            # narrow recogniser: the sentence is not English, the default (English) instance cannot index its words,
            # and the same sentence is accepted by the instance of its own language (ablation of the language feature)
            if lang != 'english' and isinstance(e, ValueError) and 'is not in list' in str(e) and _seed_ok_own_language(m, sent_in, passphrase, exp_seed, exp_sentence):
                key = K_FROMPASS_LANG
            if xm is not None or key:
                col.violation(key, 'HDKey.from_passphrase refused a valid %s sentence: %r' % (lang, e), case, repr(e), 'master key of the BIP39 seed')


def _asciihex(ent):
    return all(c in b'0123456789abcdefABCDEF' for c in ent)


def _asciihex_key(m, ent, exc, words):
    """Refusal of a valid sentence whose entropy bytes spell hexadecimal digits: Mnemonic.checksum() un-hexlifies them.
    Recognised by the feature, the shape of the refusal, and ablation (the sentence of the neighbouring entropy whose
    first byte is not a hex digit is accepted)."""
    if not _asciihex(ent) or not isinstance(exc, ValueError):
        return None
    if not (str(exc).startswith('Invalid checksum') or 'divisible by 32' in str(exc)):
        return None
    ent2 = bytes([ent[0] ^ 0x80]) + ent[1:]
    try:
        healed = bytes(m.to_entropy(ref.to_mnemonic(ent2, words))) == ent2
    except Exception:
        healed = False
    return K_BYTES_HEX if healed else None


def _bytes_hex_key(m, ent, words):
    """Same mechanism seen from to_mnemonic (wrong sentence or 'divisible by 32' refusal), for the bytes and the hex
    form alike (checksum() un-hexlifies the decoded bytes once more). Feature ablation: the neighbouring entropy whose
    first byte is not a hex digit gives the reference sentence."""
    if not _asciihex(ent):
        return None
    ent2 = bytes([ent[0] ^ 0x80]) + ent[1:]
    try:
        healed = m.to_mnemonic(ent2, check_on_curve=False) == ref.to_mnemonic(ent2, words)
    except Exception:
        healed = False
    return K_BYTES_HEX if healed else None


def _seed_ok_own_language(m, sent_in, passphrase, exp_seed, exp_sentence):
    try:
        s = bytes(m.to_seed(sent_in, passphrase))
    except Exception:
        return False
    return s == exp_seed or s == _raw_seed(exp_sentence, passphrase)


# ------------------------------------------------------------------------------------------------- substitutions
def _bucket(i):
    return i >> 7


def chk_subst_one(lang, ent, pos, word, col, m=None, count=True, widx=None, also_seed=False):
    """One sentence with the word at `pos` replaced by `word`; the reference decides."""
    from bitcoinlib.mnemonic import Mnemonic
    words = wordlist(lang)
    base = ref.to_mnemonic(ent, words).split(' ')
    toks = list(base)
    toks[pos] = word
    sentence = ' '.join(toks)
    try:
        exp = ref.to_entropy(sentence, words)
        verdict = 'valid'
    except ref.Bip39Error as e:
        exp = None
        verdict = 'outside' if 'word' in str(e) or 'sentence' in str(e) else 'badsum'
    case = {'kind': 'subst1', 'lang': lang, 'ent': ent.hex(), 'pos': pos, 'word': word}
    if count:
        col.case('subst/%s/%d/%s' % (lang, len(ent), verdict),
                 nontrivial=('subst', lang, len(ent), pos, verdict, _bucket(widx) if widx is not None else word), sample=case)
    if m is None:
        m = Mnemonic(lang)
    col.probe('subst_to_entropy')
    col.probe('subst_' + verdict)
    try:
        got = m.to_entropy(sentence)
    except Exception as e:
        if exp is not None:
            col.violation(None, 'to_entropy refused a substituted %s sentence whose checksum is valid: %r' % (lang, e), case, repr(e), exp)
        got = None
    else:
        if exp is None:
            col.violation(None, 'to_entropy accepted a %s sentence with %s (position %d)' % (lang, 'an out-of-list word' if verdict == 'outside' else 'a wrong checksum', pos),
                          case, got, 'refusal')
        elif bytes(got) != exp:
            col.violation(None, 'to_entropy returned a wrong entropy for a substituted valid %s sentence' % lang, case, got, exp)
    if also_seed:
        col.probe('subst_to_seed')
        try:
            s = m.to_seed(sentence)
        except Exception as e:
            if exp is not None:
                col.violation(None, 'to_seed refused a substituted valid %s sentence: %r' % (lang, e), case, repr(e), 'seed')
        else:
            if exp is None:
                col.violation(None, 'to_seed (validate=True) accepted a %s sentence with %s' % (lang, 'an out-of-list word' if verdict == 'outside' else 'a wrong checksum'),
                              case, s, 'refusal')
            elif bytes(s) != ref.to_seed(sentence):
                col.violation(None, 'to_seed of a substituted valid sentence is not the BIP39 seed', case, s, ref.to_seed(sentence))


def _outside_words(lang, rnd, base_word):
    """Words that are not in the list of `lang`."""
    words = wordlist(lang)
    ws = set(words)
    out = []
    others = [l for l in languages() if l != lang]
    for l in rnd.sample(others, 3):
        cand = [w for w in wordlist(l) if w not in ws]
        out.append(rnd.choice(cand))
    out += [base_word + 'x', base_word[:-1] if len(base_word) > 1 and base_word[:-1] not in ws else base_word + 'q',
            base_word.upper() if base_word.upper() != base_word else base_word + base_word, 'xyzzyq', '0', base_word + '\u0301']
    return [w for w in out if ref.nfkd(w) not in ws and ' ' not in w and w]


def chk_subst_position(lang, ent, pos, col, rnd, seed_every=97, step=1):
    from bitcoinlib.mnemonic import Mnemonic
    words = wordlist(lang)
    base = ref.to_mnemonic(ent, words).split(' ')
    m = Mnemonic(lang)
    for i, w in enumerate(words):
        if w == base[pos] or (step > 1 and i % step != pos % step):
            continue
        chk_subst_one(lang, ent, pos, w, col, m=m, widx=i, also_seed=(i % seed_every == pos))
    for w in _outside_words(lang, rnd, base[pos]):
        chk_subst_one(lang, ent, pos, w, col, m=m, also_seed=True)


# ------------------------------------------------------------------------------- corrupted sentences, other instance
CORRUPTIONS = ('substitute', 'swap', 'last-word', 'first-word', 'duplicate-neighbour')


def _valid_somewhere(sentence):
    """The bundled lists under which the sentence is a valid BIP39 sentence (the seed does not depend on the language, so a
    sentence that is valid under any list may be accepted)."""
    return [l for l in languages() if ref.is_valid(sentence, wordlist(l))]


def _corrupt(rnd, toks, words, how):
    toks = list(toks)
    n = len(toks)
    if how == 'substitute':
        i = rnd.randrange(n)
        toks[i] = rnd.choice([w for w in words if w != toks[i]])
    elif how == 'swap':
        i, j = rnd.sample(range(n), 2)
        toks[i], toks[j] = toks[j], toks[i]
    elif how == 'last-word':
        toks[-1] = rnd.choice([w for w in words if w != toks[-1]])
    elif how == 'first-word':
        toks[0] = rnd.choice([w for w in words if w != toks[0]])
    else:
        i = rnd.randrange(n - 1)
        toks[i] = toks[i + 1]
    return toks


def chk_cross(case, col):
    """A sentence of language B whose words are all in B's list (corrupted: the reference decides whether any bundled list
    still validates it) is handed to instances of OTHER languages and to HDKey.from_passphrase (always the default
    instance): a sentence no list validates must be refused by to_seed / to_entropy / from_passphrase everywhere; one
    that is still valid must give its BIP39 seed where a seed is returned."""
    from bitcoinlib.mnemonic import Mnemonic
    from bitcoinlib.keys import HDKey
    B, sentence, how = case['lang'], case['sentence'], case['how']
    valid_in = _valid_somewhere(sentence)
    verdict = 'still-valid' if valid_in else 'invalid'
    col.case('cross/%s/%s/%s' % (B, how, verdict), nontrivial=('cross', B, how, verdict, tuple(case['through']), len(sentence.split(' '))), sample=case)
    pw = case.get('pass', '')
    exp_seed = ref.to_seed(sentence, pw)
    calls = [('Mnemonic(%s).to_seed' % A, A, 'to_seed') for A in case['through']]
    calls += [('Mnemonic(%s).to_entropy' % case['through'][0], case['through'][0], 'to_entropy'), ('HDKey.from_passphrase', None, 'hd')]
    for label, A, op in calls:
        col.probe('cross_' + op)
        col.probe('cross_' + verdict)
        try:
            if op == 'to_seed':
                got = bytes(Mnemonic(A).to_seed(sentence, pw))
            elif op == 'to_entropy':
                got = bytes(Mnemonic(A).to_entropy(sentence))
            else:
                k = HDKey.from_passphrase(sentence, pw)
                got = (bytes(k.private_byte), bytes(k.chain))
        except Exception as e:
            if valid_in and op != 'to_entropy' and (op == 'to_seed' and A in valid_in):
                col.violation(None, '%s refused a %s sentence that is valid under its own list: %r' % (label, B, e), case, repr(e), exp_seed)
            continue
        if not valid_in:
            col.violation(None, '%s accepted a %s sentence (%s) whose checksum no bundled list validates' % (label, B, how), case,
                          got if isinstance(got, bytes) else [g.hex() for g in got], 'refusal')
        elif op == 'to_seed' and got != exp_seed:
            col.violation(None, '%s: seed of a still-valid %s sentence is not its BIP39 seed' % (label, B), case, got, exp_seed)
        elif op == 'hd':
            xm = ref32.master(exp_seed)
            if got != (xm.secret.to_bytes(32, 'big'), xm.chain):
                col.violation(None, 'HDKey.from_passphrase: key of a still-valid %s sentence is not the master key of its seed' % B, case, got[0], xm.secret)
        elif op == 'to_entropy' and not any(got == ref.to_entropy(sentence, wordlist(l)) for l in valid_in):
            col.violation(None, '%s returned an entropy that no reading of the sentence gives' % label, case, got, None)


def gen_cross(rnd, g, langs):
    B = langs[g % len(langs)]
    others = [l for l in langs if l != B]
    through = [others[(g // len(langs)) % len(others)]]
    if B != 'english' and 'english' not in through and g % 2:
        through.append('english')
    words = wordlist(B)
    nbytes = ref.ENT_BYTES[(g // 2) % 5]
    toks = ref.to_mnemonic(rnd.randbytes(nbytes), words).split(' ')
    how = CORRUPTIONS[(g // 3) % len(CORRUPTIONS)]
    return {'kind': 'cross', 'lang': B, 'how': how, 'through': through, 'sentence': ' '.join(_corrupt(rnd, toks, words, how)),
            'pass': rnd.choice(['', 'TREZOR'])}


# ------------------------------------------------------------------------------------------------- sequences
FOREIGN_OPS = ('to_seed', 'to_entropy', 'sanitize', 'detect', 'to_seed_novalidate')
OWN_OPS = ('to_mnemonic', 'word', 'wordlist', 'generate', 'to_entropy', 'to_seed')


def chk_sequence(case, col):
    """Several operations on ONE Mnemonic object: the object is made for language A; it is handed sentences written in
    another bundled language B (to_seed / to_entropy / sanitize_mnemonic / detect_language) and, before and after that,
    asked for its own-language services. Whatever it has parsed, to_mnemonic / generate / word / wordlist / to_entropy /
    to_seed of the object must stay those of language A (judged by the reference over A's list), and a seed it returns
    for the B sentence must be the BIP39 seed of that sentence. `ops` is the exact operation list (replayable)."""
    from bitcoinlib.mnemonic import Mnemonic
    A, B = case['lang'], case['other']
    ent_a, ent_b = bytes.fromhex(case['ent']), bytes.fromhex(case['ent_other'])
    wa, wb = wordlist(A), wordlist(B)
    sent_a, sent_b = ref.to_mnemonic(ent_a, wa), ref.to_mnemonic(ent_b, wb)
    ops = case['ops']
    col.case('sequence/%s' % A, nontrivial=('sequence', A, B, tuple(ops)), sample=case)
    try:
        m = Mnemonic(A)
    except Exception as e:
        col.violation(None, 'Mnemonic(%r) raised %r' % (A, e), case, repr(e), None)
        return
    done = []
    for n, op in enumerate(ops):
        who, name = op.split(':')
        hist = ' after [%s]' % ', '.join(done) if done else ''
        where = 'Mnemonic(%s) step %d %s%s' % (A, n + 1, op, hist)
        col.probe('seq_' + who)
        try:
            if who == 'foreign':
                # a foreign sentence may be refused (any exception); what is returned must be right
                try:
                    if name == 'to_seed':
                        got = bytes(m.to_seed(sent_b, case.get('pass', '')))
                        if got != ref.to_seed(sent_b, case.get('pass', '')):
                            col.violation(None, '%s: seed of the %s sentence is not its BIP39 seed' % (where, B), case, got, ref.to_seed(sent_b, case.get('pass', '')))
                    elif name == 'to_seed_novalidate':
                        got = bytes(m.to_seed(sent_b, case.get('pass', ''), validate=False))
                        if got != ref.to_seed(sent_b, case.get('pass', '')):
                            col.violation(None, '%s: seed of the %s sentence is not its BIP39 seed' % (where, B), case, got, ref.to_seed(sent_b, case.get('pass', '')))
                    elif name == 'to_entropy':
                        got = bytes(m.to_entropy(sent_b))
                        ok = [ent_b]
                        try:
                            ok.append(ref.to_entropy(sent_b, wa))      # the sentence may also be a valid A sentence
                        except ref.Bip39Error:
                            pass
                        if got not in ok:
                            col.violation(None, '%s: returned an entropy that belongs to neither reading of the sentence' % where, case, got, ent_b)
                    elif name == 'sanitize':
                        got = m.sanitize_mnemonic(sent_b)
                        if got != sent_b:
                            col.violation(None, '%s: sanitize_mnemonic changed a normalised sentence' % where, case, got, sent_b)
                    elif name == 'detect':
                        got = m.detect_language(sent_b)
                        if got != B and not all(w in wordlist(got) for w in sent_b.split(' ')):
                            col.violation(None, '%s: detect_language named a list that does not contain the words' % where, case, got, B)
                except Exception:
                    col.probe('seq_foreign_refused')
            else:
                if name == 'to_mnemonic':
                    got = m.to_mnemonic(ent_a, check_on_curve=False)
                    if got != sent_a:
                        col.violation(None, '%s: to_mnemonic is not the %s sentence of the entropy' % (where, A), case, got, sent_a)
                elif name == 'word':
                    idx = [0, 1, 2047, int.from_bytes(ent_a[:2], 'big') % 2048]
                    got = [unicodedata.normalize('NFKD', m.word(i)) for i in idx]
                    if got != [wa[i] for i in idx]:
                        col.violation(None, '%s: word(i) is not word i of the %s list' % (where, A), case, got, [wa[i] for i in idx])
                elif name == 'wordlist':
                    got = [unicodedata.normalize('NFKD', w) for w in m.wordlist()]
                    if got != wa:
                        col.violation(None, '%s: wordlist() is not the %s list' % (where, A), case, got[:3] + got[-1:], wa[:3] + wa[-1:])
                elif name == 'generate':
                    got = m.generate(len(ent_a) * 8)
                    try:
                        e = ref.to_entropy(got, wa)
                        if got != ref.to_mnemonic(e, wa) or len(e) != len(ent_a):
                            raise ref.Bip39Error('size/spelling')
                    except ref.Bip39Error as ex:
                        col.violation(None, '%s: generate() did not return a valid %s sentence (%s)' % (where, A, ex), case, got, 'valid %s sentence' % A)
                elif name == 'to_entropy':
                    got = bytes(m.to_entropy(sent_a))
                    if got != ent_a:
                        col.violation(None, '%s: to_entropy of an own-language sentence is wrong' % where, case, got, ent_a)
                elif name == 'to_seed':
                    got = bytes(m.to_seed(sent_a, case.get('pass', '')))
                    if got != ref.to_seed(sent_a, case.get('pass', '')):
                        col.violation(None, '%s: to_seed of an own-language sentence is wrong' % where, case, got, ref.to_seed(sent_a, case.get('pass', '')))
        except Exception as e:
            col.violation(_asciihex_key(m, ent_a, e, wa) if name in ('to_entropy', 'to_seed') else None,
                          '%s raised %r' % (where, e), case, repr(e), 'own-language service of a Mnemonic(%s) object' % A)
        done.append(op)


def gen_sequence(rnd, g, langs):
    A = langs[g % len(langs)]
    B = langs[(g + 1 + (g // len(langs)) % (len(langs) - 1)) % len(langs)]
    nbytes = ref.ENT_BYTES[(g // 3) % 5]
    shape = g % 4
    f = ['foreign:' + FOREIGN_OPS[(g // 4 + k) % len(FOREIGN_OPS)] for k in range(2)]
    own = ['own:' + o for o in rnd.sample(OWN_OPS, len(OWN_OPS))]
    if shape == 0:          # foreign parse first, then every own service
        ops = f[:1] + own
    elif shape == 1:        # own services, foreign parse, own services again
        ops = own[:3] + f[:1] + own
    elif shape == 2:        # two different foreign operations interleaved with own services
        ops = own[:2] + f[:1] + own[2:4] + f[1:] + own
    else:                   # own-language parse directly after a foreign parse, then generation
        ops = f[:1] + ['own:to_entropy', 'own:to_seed', 'foreign:to_seed', 'own:to_mnemonic', 'own:generate', 'own:word', 'own:wordlist']
    while True:
        ent = rnd.randbytes(nbytes)
        if not _asciihex(ent):
            break
    return {'kind': 'sequence', 'lang': A, 'other': B, 'ent': ent.hex(), 'ent_other': rnd.randbytes(rnd.choice(ref.ENT_BYTES)).hex(),
            'pass': rnd.choice(['', 'TREZOR']), 'ops': ops}


def chk_generate(lang, strength, col):
    from bitcoinlib.mnemonic import Mnemonic
    case = {'kind': 'generate', 'lang': lang, 'strength': strength}
    col.case('generate/%s/%d' % (lang, strength), nontrivial=('generate', lang, strength), sample=case)
    col.probe('generate')
    try:
        m = Mnemonic(lang)
        s = m.generate(strength)
        e = ref.to_entropy(s, wordlist(lang))
        if len(e) * 8 != strength or s != ref.to_mnemonic(e, wordlist(lang)):
            col.violation(None, 'generate(%d) sentence has the wrong size or spelling' % strength, dict(case, sentence=s), len(e) * 8, strength)
        if bytes(m.to_entropy(s)) != e:
            col.violation(None, 'generated sentence does not convert back to its entropy', dict(case, sentence=s), None, e)
    except Exception as ex:
        col.violation(None, 'generate(%d)/%s: %r' % (strength, lang, ex), case, repr(ex), 'valid BIP39 sentence')


# ------------------------------------------------------------------------------------------ plan / shards / replay
def _selfcheck(col, with_repo_vectors=True):
    import json
    from vf import env as venv
    try:
        rv = None
        p = os.path.join(venv.repo_dir(), 'tests', 'mnemonics_tests.json')
        if with_repo_vectors and os.path.exists(p):
            rv = json.load(open(p))
        ref.selfcheck(wordlist('english'), wordlist('japanese'), rv)
        ref32.selfcheck()
        return True
    except Exception as e:
        col.note_inconclusive('reference self-check failed: %r' % (e,))
        return False


def run_case(case, col):
    k = case['kind']
    if k == 'entropy':
        chk_entropy(case, col)
    elif k == 'subst1':
        chk_subst_one(case['lang'], bytes.fromhex(case['ent']), case['pos'], case['word'], col, also_seed=True)
    elif k == 'generate':
        chk_generate(case['lang'], case['strength'], col)
    elif k == 'wordlist':
        chk_wordlists(col)
    elif k == 'sequence':
        chk_sequence(case, col)
    elif k == 'cross':
        chk_cross(case, col)


def replay(case, col):
    if _selfcheck(col):
        run_case(case, col)


def plan(tier, seed, scale=1.0):
    thorough = tier == 'thorough'
    nshard = 16
    n_ent = int((20000 if thorough else 560) * scale)
    n_sent = max(1, int((12 if thorough else 1) * scale))
    extra_units = 0 if thorough else 4
    specs = []
    for i in range(nshard):
        specs.append({'shard': i, 'nshard': nshard, 'n_entropy': max(9, n_ent // nshard), 'n_sentences': n_sent,
                      'extra_units': extra_units, 'n_sequences': max(3, int((150 if thorough else 6) * scale)),
                      'n_cross': max(3, int((200 if thorough else 5) * scale))})
    return specs


def _subst_units(spec):
    """Deterministic (per seed) list of (lang, entropy, pos, step) units, identical in every shard; striped by index.
    step 1 = all 2047 alternatives, step 4 = every fourth alternative (quick-tier extras in other languages)."""
    rnd = random.Random('%s-%d-units' % (ID, spec['seed']))
    langs = languages()
    rnd.shuffle(langs)
    units = []
    for j in range(spec['n_sentences']):
        lang = langs[j % len(langs)]
        nbytes = 16 if j % 3 != 2 else rnd.choice([20, 24, 28, 32])
        ent = rnd.randbytes(nbytes)
        nwords = nbytes * 3 // 4
        positions = list(range(nwords)) if nwords == 12 else sorted(rnd.sample(range(nwords), 11) + [nwords - 1])[:12]
        positions = sorted(set(positions))
        for p in positions:
            units.append((lang, ent, p, 1))
    for j in range(spec['extra_units']):
        lang = langs[(spec['n_sentences'] + j) % len(langs)]
        nbytes = [16, 32, 20, 24][j % 4]
        ent = rnd.randbytes(nbytes)
        nwords = nbytes * 3 // 4
        units.append((lang, ent, [nwords - 1, 0, rnd.randrange(nwords), rnd.randrange(nwords)][j % 4], 4))
    return units


def run_shard(spec, col):
    if not _selfcheck(col):
        return
    for p in ('to_mnemonic', 'to_entropy', 'to_seed', 'from_passphrase', 'subst_to_entropy', 'subst_valid', 'subst_badsum',
              'subst_outside', 'wordlist_digest', 'seq_foreign', 'seq_own', 'cross_to_seed', 'cross_hd', 'cross_invalid'):
        col.require(p)
    rnd = random.Random('%s-%d-%d' % (ID, spec['seed'], spec['shard']))
    sh, ns = spec['shard'], spec['nshard']
    if sh == 0:
        chk_wordlists(col)
    langs = languages()
    # -- entropy cases: every shard walks all languages and sizes; patterns/passphrases rotate with the case index
    for i in range(spec['n_entropy']):
        g = i * ns + sh
        lang = langs[g % len(langs)]
        nbytes = ref.ENT_BYTES[(g // len(langs)) % 5]
        pattern = rnd.choice(_patterns(nbytes))
        form = 'bytes' if rnd.random() < 0.5 else 'hex'
        ent = _pattern_entropy(rnd, nbytes, pattern)
        pcls, pw = _PASS[rnd.randrange(len(_PASS))]
        if pcls == 'ascii' and rnd.random() < 0.3:
            pw = ''.join(rnd.choice('abcXYZ 0189!$') for _ in range(rnd.randint(1, 40)))
        spellings = ['nfkd', 'nfkd', 'nfc']
        if lang == 'japanese':
            spellings += ['ideographic-space', 'nfc+ideographic-space']
        case = {'kind': 'entropy', 'lang': lang, 'ent': ent.hex(), 'form': form, 'pass': pw, 'pcls': pcls,
                'spelling': rnd.choice(spellings), 'pattern': pattern, 'hd': True}
        chk_entropy(case, col)
    # -- corrupted sentences judged through instances of other languages and HDKey.from_passphrase
    for i in range(spec.get('n_cross', 5)):
        chk_cross(gen_cross(rnd, spec['seed'] * 7919 + i * ns + sh, langs), col)
    # -- sequences on one object across languages
    for i in range(spec.get('n_sequences', 6)):
        chk_sequence(gen_sequence(rnd, spec['seed'] * 7919 + i * ns + sh, langs), col)
    chk_generate(langs[sh % len(langs)], [128, 160, 192, 224, 256][(sh // len(langs) + spec['seed']) % 5], col)
    # -- substitution units striped over shards
    units = _subst_units(spec)
    for u, (lang, ent, pos, step) in enumerate(units):
        if u % ns == sh:
            chk_subst_position(lang, ent, pos, col, rnd, step=step)
