"""C01 - the digest the library signs/checks for input i is the consensus sighash (legacy SIGHASH_ALL, BIP143).

Monitors
  (1) postcondition probe on the real Transaction.signature_hash (every call made by sign()/verify() in the
      workload, and direct harness calls for all hash types on segwit inputs): digest must be byte-equal to the
      reference digest computed from a snapshot of the object's fields + the harness's prevout registry;
  (2) the final raw() bytes are parsed by the independent parser and every input the harness signed with the
      right keys must be a valid spend of its registered prevout under the consensus-style verifier
      (hash commitments + ECDSA over the reference digest, CHECKMULTISIG order);
  (3) the parsed raw bytes carry exactly the requested fields (outpoints, sequences, outputs, locktime, version).
"""
import random

from vf.refs import secp256k1 as ec
from vf.refs import tx as rtx
from vf.refs import chain, codec, bip32
from vf.gen import txgen

ID = 'C01'
LEVEL = 'exploration'
ANCHORS = ['bitcoinlib/transactions.py', 'bitcoinlib/scripts.py', 'bitcoinlib/encoding.py']
RULE = ('random transactions built and signed through the library API: 1-6 inputs (boundary runs with 253/300 inputs '
        'and 252/253/300 outputs) mixing P2PKH (compressed/uncompressed), P2PK, P2SH m-of-n, P2WPKH, P2WSH m-of-n, '
        'P2SH-P2WPKH, P2SH-P2WSH m-of-n; versions, locktimes, sequences, values up to 21e14, seven output kinds, 11 '
        'networks; three signing flows (all at once / per index / one key per call); half of the cases are built a second '
        'time (add_input or Input/Output objects), signed, changed through set_locktime_*/set_locktime_relative_*/shuffle/'
        'merge_transaction/save+load/sign_and_update and signed again. Non-trivial = distinct '
        '(input-kind multiset, n_in, n_out, flow, network class) with >= 1 input at index > 0 or >= 1 non-P2PKH input')
TRUSTED_BASE = ['vf/refs/tx.py (serializer, legacy + BIP143 sighash, spend verifier; self-checked on BIP143 vectors and a mainnet spend)',
                'vf/refs/secp256k1.py', 'vf/refs/chain.py + golden/chainparams.json']
ASSUMPTIONS = ['bare multisig inputs are not a library input type (parse side is covered by C06)',
               'signing with non-ALL hash types is refused by the library; digests for them are observed through direct calls only',
               'legacy digests for non-ALL hash types are not demanded by the statement']

K_SEGWIT_NONE_SINGLE = 'C01/bip143/hashoutputs-none-single-swapped'
K_P2PK_RESIGN = 'C01/resign/p2pk-scriptsig-not-refreshed'
K_NESTED_LOCKING = 'C01/input/p2sh-prevout-script-hash-taken-as-key-hash'   # fixed in the repository; kept for the record

REG = {}          # (txid display hex, n) -> prevout dict
STATE = {'armed': True, 'col': None}
HASH_TYPES = [1, 2, 3, 0x81, 0x82, 0x83]


def snapshot_tx(t):
    ins = []
    for i in t.inputs:
        ins.append({'txid': bytes(i.prev_txid)[::-1], 'n': i.output_n_int, 'script': b'', 'seq': i.sequence, 'wit': []})
    outs = [{'value': int(o.value), 'script': bytes(o.lock_script)} for o in t.outputs]
    return rtx.tx(int.from_bytes(t.version, 'big'), ins, outs, t.locktime)


def reference_digest(t, sign_id, hash_type):
    """-> (digest or None, why). None when the registry does not know the outpoint."""
    inp = t.inputs[sign_id]
    po = REG.get((bytes(inp.prev_txid).hex(), inp.output_n_int))
    if po is None:
        return None, 'unregistered'
    if not inp.keys and not inp.signatures:
        # an input declared by address only whose key has not arrived yet: nothing can be signed or checked with this
        # digest (sign() computes it before it notices that there is no key)
        return None, 'no-key-yet'
    snap = snapshot_tx(t)
    if po['segwit']:
        return rtx.sighash_bip143(snap, sign_id, po['script_code'], po['amount'], hash_type), 'bip143'
    if hash_type != 1:
        return None, 'legacy-non-all'
    return rtx.sighash_legacy(snap, sign_id, po['script_code'], hash_type), 'legacy'


def install_digest_probe():
    from bitcoinlib.transactions import Transaction
    if getattr(Transaction.signature_hash, '_vf_probe', False):
        return
    real = Transaction.signature_hash

    def signature_hash(self, sign_id=None, hash_type=1, witness_type=None, as_hex=False):
        res = real(self, sign_id, hash_type, witness_type, as_hex)
        col = STATE['col']
        if sign_id is None or not STATE['armed'] or col is None:
            return res
        try:
            exp, why = reference_digest(self, sign_id, hash_type)
            if exp is None:
                col.probe('digest_probe_skipped_' + why)
                return res
            col.probe('digest_probe')
            col.probe('digest_probe_' + why)
            got = bytes.fromhex(res) if as_hex else res
            if got != exp:
                key = _classify_digest(self, sign_id, hash_type, got)
                col.violation(key, 'signature_hash(input %d, hash_type %#x, %s) differs from the consensus %s digest'
                              % (sign_id, hash_type, witness_type, why),
                              STATE.get('case'), got.hex(), exp.hex())
        except Exception as e:   # never raise into library code
            col.note_inconclusive('digest probe failed: %r' % (e,))
        return res

    signature_hash._vf_probe = True
    Transaction.signature_hash = signature_hash


def _classify_digest(t, sign_id, hash_type, got):
    """Narrow predicate: the observed digest is exactly BIP143 with the NONE and SINGLE treatment of hashOutputs
    exchanged (NONE hashes output[sign_id], SINGLE uses zeros)."""
    base = hash_type & 0x1f
    if base not in (2, 3):
        return None
    inp = t.inputs[sign_id]
    po = REG.get((bytes(inp.prev_txid).hex(), inp.output_n_int))
    if not po or not po['segwit']:
        return None
    snap = snapshot_tx(t)
    swapped = (hash_type & 0x80) | (5 - base)
    import struct
    # digest with hashOutputs computed as for the other type but the hash_type field itself unchanged
    alt = _bip143_with_outputs_rule(snap, sign_id, po['script_code'], po['amount'], hash_type, 5 - base)
    return K_SEGWIT_NONE_SINGLE if alt == got else None


def _bip143_with_outputs_rule(t, idx, script_code, amount, hashtype, outputs_rule):
    import struct
    from vf.refs.codec import compact_size as cs
    base = hashtype & 0x1f
    acp = bool(hashtype & 0x80)
    zero = b'\0' * 32
    hp = zero if acp else ec.dsha256(b''.join(i['txid'] + struct.pack('<I', i['n']) for i in t['ins']))
    hs = zero if (acp or base in (2, 3)) else ec.dsha256(b''.join(struct.pack('<I', i['seq']) for i in t['ins']))
    if outputs_rule == 3 and idx < len(t['outs']):
        ho = ec.dsha256(rtx.ser_out(t['outs'][idx]))
    else:
        ho = zero
    i = t['ins'][idx]
    pre = (struct.pack('<I', t['version'] & 0xffffffff) + hp + hs + i['txid'] + struct.pack('<I', i['n']) + cs(len(script_code)) +
           script_code + struct.pack('<q', amount) + struct.pack('<I', i['seq']) + ho + struct.pack('<I', t['locktime']) +
           struct.pack('<I', hashtype))
    return ec.dsha256(pre)


# ------------------------------------------------------------------ one case
FLOWS = ['all', 'per_index', 'per_key']


def register(spec):
    for inp in spec['ins']:
        REG[(inp['txid'], inp['n'])] = txgen.prevout_of(inp)


def sign_flow(t, spec, flow, rnd):
    """Sign with all required keys. Returns list of per-input signer secrets used."""
    network = spec['network']
    if flow == 'all':
        t.sign()
    elif flow == 'per_index':
        order = list(range(len(spec['ins'])))
        rnd.shuffle(order)
        for idx in order:
            keys = txgen.lib_keys(spec['ins'][idx], network)
            t.sign(keys, index_n=idx)
    else:
        jobs = [(idx, k) for idx, inp in enumerate(spec['ins']) for k in txgen.lib_keys(inp, network)]
        rnd.shuffle(jobs)
        for idx, k in jobs:
            t.sign([k], index_n=idx)


def run_case(case, col):
    spec = case['spec']
    flow = case['flow']
    rnd = random.Random(case.get('rseed', 0))
    STATE['col'] = col
    STATE['case'] = case
    STATE['armed'] = True
    install_digest_probe()
    register(spec)
    kinds = sorted(i['kind'] for i in spec['ins'])
    nontriv = None
    if len(kinds) > 1 or kinds[0] != 'p2pkh':
        nontriv = (tuple(kinds), len(spec['outs']), flow, spec['network'])
    big = len(spec['ins']) > 100 or len(spec['outs']) > 100
    col.case('tx/%s/%s%s' % (flow, 'mixed' if len(set(kinds)) > 1 else kinds[0], '/big' if big else ''), nontrivial=nontriv,
             sample=None if big else case)
    try:
        t = txgen.build(spec, private_in_inputs=(flow == 'all'))
        sign_flow(t, spec, flow, rnd)
        raw = t.raw()
        # the library's own verifier runs too, so its signature_hash calls are observed by the probe
        libv = t.verify()
    except Exception as e:
        if spec.get('tx_witness_type') == 'legacy' and any(i['kind'] in txgen.SEGWIT_KINDS for i in spec['ins']):
            # a transaction declared legacy cannot carry witness inputs: refusing (the library asserts) is legitimate,
            # signing them with any digest other than BIP143 is not
            col.probe('legacy_tx_with_segwit_input_refused')
            STATE['armed'] = False
            return
        col.violation(None, 'building/signing a standard transaction raised %r' % (e,), case, repr(e), 'signed transaction')
        return
    col.probe('raw_spend_check')
    try:
        p = rtx.parse(raw)
    except Exception as e:
        col.violation(None, 'independent parser cannot read raw(): %r' % (e,), case, raw.hex()[:400], None)
        return
    # (3) requested fields
    want = txgen.reference_tx(spec)
    diffs = []
    if p['version'] != (2 if txgen.version_bump_expected(spec) else spec['version']):
        diffs.append(('version', p['version'], spec['version']))
    if p['locktime'] != spec['locktime']:
        diffs.append(('locktime', p['locktime'], spec['locktime']))
    if len(p['ins']) != len(want['ins']) or len(p['outs']) != len(want['outs']):
        diffs.append(('counts', (len(p['ins']), len(p['outs'])), (len(want['ins']), len(want['outs']))))
    else:
        for k, (a, b) in enumerate(zip(p['ins'], want['ins'])):
            if (a['txid'], a['n'], a['seq']) != (b['txid'], b['n'], b['seq']):
                diffs.append(('input %d outpoint/sequence' % k, (a['txid'][::-1].hex(), a['n'], a['seq']), (b['txid'][::-1].hex(), b['n'], b['seq'])))
        for k, (a, b) in enumerate(zip(p['outs'], want['outs'])):
            if (a['value'], a['script']) != (b['value'], b['script']):
                diffs.append(('output %d' % k, (a['value'], a['script'].hex()), (b['value'], b['script'].hex())))
    for d in diffs[:3]:
        col.violation(None, 'raw() does not carry the requested %s' % d[0], case, d[1], d[2])
    # (2) consensus-style validity of every input
    for idx, inp in enumerate(spec['ins']):
        po = REG[(inp['txid'], inp['n'])]
        col.probe('input_spend_check')
        r = rtx.verify_input(p, idx, po['spk'], po['amount'])
        if not r.ok:
            col.violation(None, 'input %d (%s, %d-of-%d) signed by the library is not a valid spend of its prevout: %s'
                          % (idx, inp['kind'], inp['m'], len(inp['secrets']), r.reason), case,
                          {'raw': raw.hex()[:2000], 'lib_verify': libv}, 'valid spend of %s' % po['spk'].hex())
    if not libv:
        col.violation(None, 'library verify() is False for a transaction it signed with the right keys', case, libv, True)
    # (4) change committed fields on the SAME object and sign again: every digest must follow the new field values
    #     (state kept between signing passes - caches, stale scripts - shows up here)
    if not big:
        case2 = dict(case, _first_scripts={k: i['script'] for k, i in enumerate(p['ins'])})
        resign_after_modification(t, spec, flow, rnd, col, case2)
    # (5) other construction route + the library's in-place methods, signed again
    if not big and case.get('ops'):
        api_sequence(spec, flow, rnd, col, case)
    # (1b) direct digests for all hash types on every input (legacy: ALL only)
    for idx, inp in enumerate(spec['ins'][:8]):
        po = REG[(inp['txid'], inp['n'])]
        for ht in (HASH_TYPES if po['segwit'] else [1]):
            try:
                t.signature_hash(idx, ht, t.inputs[idx].witness_type)
                col.probe('hashtype_probe')
            except Exception as e:
                col.violation(None, 'signature_hash(%d, %#x) raised %r' % (idx, ht, e), case, repr(e), None)
    STATE['armed'] = False


def resign_after_modification(t, spec, flow, rnd, col, case):
    network = spec['network']
    mods = ['out_value', 'locktime', 'sequence', 'out_script']
    rnd.shuffle(mods)
    for mod in mods[:2]:
        try:
            if mod == 'out_value':
                k = rnd.randrange(len(t.outputs))
                t.outputs[k].value = t.outputs[k].value - 1 if t.outputs[k].value > 0 else t.outputs[k].value + 1
            elif mod == 'locktime':
                t.locktime = (t.locktime + 1) & 0xffffffff
            elif mod == 'sequence':
                k = rnd.randrange(len(t.inputs))
                t.inputs[k].sequence = (t.inputs[k].sequence ^ 2) & 0xffffffff
            else:
                k = rnd.randrange(len(t.outputs))
                ls = bytearray(t.outputs[k].lock_script)
                if len(ls) > 3:
                    ls[-2] ^= 1
                    t.outputs[k].lock_script = bytes(ls)
            if flow == 'all' and rnd.random() < 0.5:
                t.sign(replace_signatures=True)
            else:
                for idx, inp in enumerate(spec['ins']):
                    t.sign(txgen.lib_keys(inp, network), index_n=idx, replace_signatures=True)
            raw = t.raw()
            libv = t.verify()
        except Exception as e:
            col.violation(None, 're-signing after changing %s raised %r' % (mod, e), dict(case, mod=mod), repr(e), 'signed transaction')
            return
        col.probe('resign_check')
        try:
            p = rtx.parse(raw)
        except Exception as e:
            col.violation(None, 'independent parser cannot read raw() after re-signing: %r' % (e,), dict(case, mod=mod), raw.hex()[:400], None)
            return
        for idx, inp in enumerate(spec['ins']):
            po = REG[(inp['txid'], inp['n'])]
            r = rtx.verify_input(p, idx, po['spk'], po['amount'])
            if not r.ok:
                # narrow: only P2PK inputs, and the scriptSig still holds exactly the signature of the first signing pass
                key = K_P2PK_RESIGN if (inp['kind'] == 'p2pk' and p['ins'][idx]['script'] == case.get('_first_scripts', {}).get(idx)) else None
                col.violation(key, 'after changing %s and signing again, input %d (%s) is not a valid spend of its prevout: %s (library verify()=%s)'
                              % (mod, idx, inp['kind'], r.reason, libv), {k: v for k, v in dict(case, mod=mod).items() if not k.startswith('_')},
                              {'raw': raw.hex()[:1500]}, 'valid spend')
                if key is None:
                    break


def gen_ops(rnd, spec, max_n=3):
    """In-place API operations applied to a built (and usually signed) transaction; JSON-able for replay."""
    ops = []
    for _ in range(rnd.choice([1, 1, 2, 3])):
        k = rnd.choice(['locktime_blocks', 'locktime_time', 'rel_blocks', 'rel_time', 'shuffle', 'sign_and_update', 'save_load', 'merge'])
        if k == 'locktime_blocks':
            ops.append([k, rnd.choice([1, 2, 499999999, rnd.randrange(1, 500000000)])])
        elif k == 'locktime_time':
            ops.append([k, rnd.choice([500000001, 0xfffffffe, rnd.randrange(500000001, 0xfffffffe)])])
        elif k == 'rel_blocks':
            ops.append([k, rnd.choice([1, 0xffff, rnd.randrange(1, 0x10000)]), rnd.randrange(len(spec['ins']))])
        elif k == 'rel_time':
            ops.append([k, rnd.choice([1, 512, 513, 33553920, rnd.randrange(512, 33553920)]), rnd.randrange(len(spec['ins']))])
        elif k == 'merge':
            if any(o[0] == 'merge' for o in ops):
                continue
            other = txgen.gen_spec(rnd, network=spec['network'], n_in=rnd.randint(1, 2), n_out=rnd.randint(1, 2), max_n=max_n)
            for i in other['ins']:
                i.pop('addr_only', None)     # the merged transaction arrives unsigned: its inputs must carry their keys
            have = {(i['txid'], i['n']) for i in spec['ins']}
            if any((i['txid'], i['n']) in have for i in other['ins']):
                continue
            ops.append([k, other])
        else:
            ops.append([k])
    return ops


def api_sequence(spec, flow, rnd, col, case):
    """(5) the same transaction built again (route: add_input or Input/Output objects), signed, then changed through the
    library's own in-place methods (absolute / relative lock time setters, shuffle, merge_transaction, save + load,
    sign_and_update) and signed again: every digest computed on the way is judged by the probe, the final raw bytes
    must spend every prevout (inputs matched by outpoint), and the documented field effects must be there."""
    import os
    from vf import wallet_env
    from bitcoinlib.transactions import Transaction
    network = spec['network']
    ops = case['ops']
    label = '%s + %s' % (case.get('route', 'add_input'), ','.join(o[0] for o in ops))
    by_op = {(i['txid'], i['n']): i for i in spec['ins']}
    exp_seq = {(i['txid'], i['n']): i['seq'] for i in spec['ins']}
    exp_outs = [(o['value'], txgen.out_script(o, network)) for o in spec['outs']]
    exp_locktime = spec['locktime']
    need_v2 = False
    self_signed = False
    try:
        t = txgen.build(spec, private_in_inputs=(flow == 'all'), route=case.get('route', 'add_input'))
        if case.get('sign_first', True) or any(i.get('addr_only') for i in spec['ins']):
            # (inputs declared by address only get their keys with sign(); the in-place methods refuse before that)
            sign_flow(t, spec, flow, rnd)
        for op in ops:
            wallet_env.reseed(case.get('rseed', 0) & 0xffff)
            self_signed = False
            if op[0] == 'locktime_blocks':
                t.set_locktime_blocks(op[1])
                exp_locktime = op[1]
                exp_seq = {k: (0xfffffffe if v == 0xffffffff else v) for k, v in exp_seq.items()}
                self_signed = True
            elif op[0] == 'locktime_time':
                t.set_locktime_time(op[1])
                exp_locktime = op[1]
                exp_seq = {k: (0xfffffffe if v == 0xffffffff else v) for k, v in exp_seq.items()}
                self_signed = True
            elif op[0] in ('rel_blocks', 'rel_time'):
                tgt = t.inputs[op[2] % len(t.inputs)]
                okey = (bytes(tgt.prev_txid).hex(), tgt.output_n_int)
                if op[0] == 'rel_blocks':
                    t.set_locktime_relative_blocks(op[1], op[2] % len(t.inputs))
                    exp_seq[okey] = op[1]
                else:
                    t.set_locktime_relative_time(op[1], op[2] % len(t.inputs))
                    exp_seq[okey] = max(op[1], 512) // 512 + (1 << 22)
                need_v2 = True
            elif op[0] == 'shuffle':
                t.shuffle()
            elif op[0] == 'sign_and_update':
                t.sign_and_update()
                self_signed = True
            elif op[0] == 'save_load':
                fn = os.path.join(os.environ['BCL_DATA_DIR'], 'c01_%d_%d.tx' % (os.getpid(), case.get('rseed', 0) & 0xffffff))
                t.save(fn)
                t = Transaction.load(filename=fn)
                os.remove(fn)
            elif op[0] == 'merge':
                other = op[1]
                register(other)
                t2 = txgen.build(other, private_in_inputs=(flow == 'all'))
                t.merge_transaction(t2)
                for i in other['ins']:
                    by_op[(i['txid'], i['n'])] = i
                    exp_seq[(i['txid'], i['n'])] = i['seq']
                exp_outs += [(o['value'], txgen.out_script(o, network)) for o in other['outs']]
                self_signed = True
        if not (flow == 'all' and self_signed):
            # the caller signs again after changing the transaction (keys are not inside the inputs, or the last method
            # does not promise to re-sign everything)
            for k, li in enumerate(t.inputs):
                inp = by_op[(bytes(li.prev_txid).hex(), li.output_n_int)]
                t.sign(txgen.lib_keys(inp, network), index_n=k, replace_signatures=True)
        raw = t.raw()
        libv = t.verify()
    except Exception as e:
        col.violation(None, 'API sequence [%s] raised %r' % (label, e), {k: v for k, v in case.items() if not k.startswith('_')}, repr(e), 'signed transaction')
        return
    col.probe('api_sequence_check')
    pub_case = {k: v for k, v in case.items() if not k.startswith('_')}
    col.case('api/%s/%s/%s' % (case.get('route', 'add_input'), ops[-1][0], 'self-signed' if (flow == 'all' and self_signed) else 'signed-by-caller'),
             nontrivial=(case.get('route'), tuple(o[0] for o in ops), flow, bool(case.get('sign_first', True)), len(t.inputs) > 1))
    try:
        p = rtx.parse(raw)
    except Exception as e:
        col.violation(None, 'independent parser cannot read raw() after [%s]: %r' % (label, e), pub_case, raw.hex()[:400], None)
        return
    got_ops = [(i['txid'][::-1].hex(), i['n']) for i in p['ins']]
    if sorted(got_ops) != sorted(by_op):
        col.violation(None, 'after [%s] the serialised inputs are not the requested outpoints' % label, pub_case, sorted(got_ops)[:4], sorted(by_op)[:4])
        return
    if sorted((o['value'], o['script']) for o in p['outs']) != sorted(exp_outs):
        col.violation(None, 'after [%s] the serialised outputs are not the requested outputs' % label, pub_case,
                      [(o['value'], o['script'].hex()) for o in p['outs']][:4], [(v, sc.hex()) for v, sc in exp_outs][:4])
    if p['locktime'] != exp_locktime:
        col.violation(None, 'after [%s] the serialised locktime is %d, expected %d' % (label, p['locktime'], exp_locktime), pub_case, p['locktime'], exp_locktime)
    if need_v2 and p['version'] < 2:
        col.violation(None, 'after [%s] a relative lock time is set but the version is %d' % (label, p['version']), pub_case, p['version'], '>= 2')
    for idx, i in enumerate(p['ins']):
        okey = got_ops[idx]
        if i['seq'] != exp_seq[okey]:
            col.violation(None, 'after [%s] input %d carries sequence %#x, expected %#x' % (label, idx, i['seq'], exp_seq[okey]), pub_case, i['seq'], exp_seq[okey])
        po = REG[okey]
        r = rtx.verify_input(p, idx, po['spk'], po['amount'])
        if not r.ok:
            col.violation(None, 'after [%s] input %d (%s) is not a valid spend of its prevout: %s (library verify()=%s, signed by %s)'
                          % (label, idx, by_op[okey]['kind'], r.reason, libv, 'the method itself' if (flow == 'all' and self_signed) else 'an explicit sign() of every input'),
                          pub_case, {'raw': raw.hex()[:1500]}, 'valid spend')
            break
    else:
        if not libv:
            col.violation(None, 'after [%s] every input is a valid spend but library verify() is False' % label, pub_case, libv, True)


def replay(case, col):
    selfcheck(col)
    run_case(case, col)


def selfcheck(col):
    try:
        ec.selfcheck(); codec.selfcheck(); chain.selfcheck(); rtx.selfcheck()
        return True
    except Exception as e:
        col.note_inconclusive('reference self-check failed: %r' % (e,))
        return False


def plan(tier, seed, scale=1.0):
    thorough = tier == 'thorough'
    nshard = 16
    n = int((80000 if thorough else 1600) * scale)
    return [{'shard': i, 'nshard': nshard, 'n_tx': n // nshard, 'max_n': 15 if thorough else 4,
             'big': (i < 12) if thorough else (i < 3)} for i in range(nshard)]


def run_shard(spec, col):
    if not selfcheck(col):
        return
    col.require('digest_probe', 10)
    col.require('digest_probe_bip143', 1)
    col.require('digest_probe_legacy', 1)
    col.require('input_spend_check', 10)
    col.require('hashtype_probe', 10)
    col.require('resign_check', 5)
    col.require('api_sequence_check', 5)
    rnd = random.Random('%s-%d-%d' % (ID, spec['seed'], spec['shard']))
    for k in range(spec['n_tx']):
        max_n = spec['max_n'] if rnd.random() < 0.15 else 4
        s = txgen.gen_spec(rnd, max_n=max_n)
        for o in s['outs']:
            if o['kind'] == 'nulldata':
                o['value'] = 0
        case = {'spec': s, 'flow': FLOWS[k % 3], 'rseed': rnd.getrandbits(32)}
        if rnd.random() < 0.12:
            s['tx_witness_type'] = 'legacy'      # the Transaction object itself is declared legacy
        if rnd.random() < 0.5 and 'tx_witness_type' not in s:
            case['route'] = rnd.choice(['add_input', 'objects'])
            if sum(i['value'] for i in s['ins']) <= sum(o['value'] for o in s['outs']):
                case['route'] = 'add_input'   # the constructor refuses inputs < outputs (policy); add_input does not look
            case['sign_first'] = rnd.random() < 0.8
            case['ops'] = gen_ops(rnd, s)
        run_case(case, col)
    if spec.get('big'):
        sh = spec['shard']
        variants = [(253, 2, ['p2pkh']), (2, 253, ['p2wpkh', 'p2pkh']), (1, 300, ['p2sh_p2wsh_ms']), (300, 252, ['p2wpkh', 'p2pkh']),
                    (254, 1, ['p2sh_p2wpkh']), (252, 254, ['p2pkh_u', 'p2wsh_ms']), (2, 253, ['p2sh_p2wpkh']), (1, 300, ['p2sh_ms'])]
        n_in, n_out, kinds = variants[sh % len(variants)]
        s = txgen.gen_spec(rnd, n_in=n_in, n_out=n_out, kinds=kinds, max_n=2, out_kinds=['p2pkh', 'p2wpkh', 'p2sh', 'p2wsh'])
        run_case({'spec': s, 'flow': 'all', 'rseed': 1}, col)
