"""C07 - wallet-created transactions conserve value and pay exactly what was requested.

Postcondition monitor on every WalletTransaction returned by transaction_create / send / send_to / sweep /
bumpfee.  Truth comes from the harness-owned model chain (vf.chain_model): it created every UTXO (unique
outpoint, known value, confirmations) and validates every broadcast with the independent spend verifier; change
addresses come from the reference wallet model (vf.wallet_ref, BIP32 reference derivation from the harness seed).
"""
import os
import random
import collections

from vf.refs import tx as rtx
from vf.refs import chain as rchain
from vf.refs import secp256k1 as ec, codec, bip32

ID = 'C07'
LEVEL = 'exploration'
ANCHORS = ['bitcoinlib/wallets.py', 'bitcoinlib/transactions.py', 'bitcoinlib/values.py']
RULE = ('wallets (HD / single-key / 2-of-3 multisig x legacy / p2sh-segwit / segwit x bitcoin, testnet, litecoin, '
        'bitcoinlib_test, dogecoin) funded by the model chain with 1-40 UTXOs (dust, equal values, unconfirmed); per wallet a '
        'sequence of requests: send_to/send with 1-5 recipients, tiny/mid/all-but-fee/over-balance amounts, fee None/int/'
        'low/normal/high, 0/1/2/3/5 change outputs, explicit input lists, max_utxos, min_confirms 0/1, sweep to one or several '
        'targets, replace-by-fee + bumpfee(fee / extra_fee / automatic), broadcast on/off. Non-trivial = distinct (wallet kind, '
        'witness type, request kind, fee mode, #change class, outcome) where >=2 inputs were selected or >=1 change output exists '
        'or the request was refused')
TRUSTED_BASE = ['vf/chain_model.py (UTXO registry + consensus-style acceptance via vf/refs/tx.py)', 'vf/wallet_ref.py + vf/refs/bip32.py (change addresses)',
                'golden/chainparams.json fee_min/fee_max/dust (pinned from tree 074a788)']
ASSUMPTIONS = ['fee limits are enforced by the library on an estimated size: the real rate may sit up to 25% outside the limits; explicit fees are chosen '
               '>=3x inside or outside the limits so the boundary does not decide',
               'single-key wallets legitimately send change to their only address',
               'sweep and input selection skip dust by design', 'bumpfee is exercised without broadcast (the model does not implement RBF replacement)']

K_BUMPFEE_CONSERVATION = 'C07/bumpfee/change-reduced-by-wrong-amount'
K_NAMED_FEE = 'C07/fee/named-priority-fee-fixed-before-input-selection'

NETWORKS = ['bitcoinlib_test', 'bitcoin', 'testnet', 'litecoin', 'dogecoin']


def fee_limits(network):
    n = rchain.NETWORKS[network]
    return n['fee_min'], n['fee_max'], n['dust']


class Judge:
    def __init__(self, col, ctx, CH, case):
        self.col, self.ctx, self.CH, self.case = col, ctx, CH, case
        self.accounts = tuple(range(case.get('accounts', 1)))

    def wallet_unspent(self, min_confirms=0, account=None):
        addrs = self.ctx.own_addresses(accounts=self.accounts if account is None else (account,))
        return {k: v for k, v in self.CH.unspent(addrs).items() if self.CH.confirmations(v) >= min_confirms and v['network'] == self.ctx.network}

    def check_tx(self, t, req, before_unspent, label):
        """All postconditions on a returned WalletTransaction."""
        col, ctx = self.col, self.ctx
        case = dict(self.case, request=req, label=label)
        col.probe('tx_postcondition')
        try:
            raw = t.raw()
            p = rtx.parse(raw)
        except Exception as e:
            col.violation(None, '[%s] returned transaction cannot be serialised/parsed: %r' % (label, e), case, repr(e), None)
            return None
        fee = t.fee
        facts = {'n_in': len(p['ins']), 'n_out': len(p['outs'])}
        # --- inputs
        seen = set()
        total_in = 0
        for i in p['ins']:
            op = (i['txid'][::-1].hex(), i['n'])
            if op in seen:
                col.violation(None, '[%s] input %s:%d used twice' % (label, op[0][:16], op[1]), case, op, 'distinct inputs')
            seen.add(op)
            u = before_unspent.get(op)
            if u is None:
                known = self.CH.utxos.get(op)
                why = 'not an output of this wallet' if known is None or known['address'] not in ctx.own_addresses(accounts=self.accounts) else \
                    ('already spent by %s' % known['spent_by'] if known['spent_by'] else 'fewer than %d confirmations' % req.get('min_confirms', 1))
                col.violation(None, '[%s] input %s:%d is not a currently unspent, sufficiently confirmed output of this wallet: %s'
                              % (label, op[0][:16], op[1], why), case, op, 'wallet UTXO with >= %d confirmations' % req.get('min_confirms', 1))
                known = known or {'value': 0}
                total_in += known['value']
            else:
                total_in += u['value']
        # --- outputs
        total_out = 0
        for k, o in enumerate(p['outs']):
            if o['value'] < 0:
                col.violation(None, '[%s] output %d is negative' % (label, k), case, o['value'], '>= 0')
            total_out += o['value']
        # --- fee / conservation
        if fee is None or fee != int(fee) or fee < 0:
            col.violation(None, '[%s] reported fee %r is not a non-negative integer' % (label, fee), case, repr(fee), 'int >= 0')
        elif total_in != total_out + int(fee):
            key = None
            if label.startswith('bumpfee') and total_in > total_out:
                key = K_BUMPFEE_CONSERVATION if self._bumpfee_shape(req, total_in, total_out, int(fee)) else None
            col.violation(key, '[%s] inputs %d != outputs %d + reported fee %d (real fee %d)' % (label, total_in, total_out, int(fee), total_in - total_out),
                          case, {'in': total_in, 'out': total_out, 'fee': int(fee)}, 'in == out + fee')
        # --- recipients exactly once, everything else is change of this wallet
        outs = collections.Counter((o['script'], o['value']) for o in p['outs'])
        want = collections.Counter()
        rest_scripts = []
        for r in req.get('recipients', []):
            if r['amount'] == 0 and req['kind'] in ('sweep', 'sweep_multi'):
                rest_scripts.append(bytes.fromhex(r['script']))
            else:
                want[(bytes.fromhex(r['script']), r['amount'])] += 1
        for pair, cnt in want.items():
            if outs.get(pair, 0) != cnt:
                col.violation(None, '[%s] recipient %s amount %d appears %d times (requested %d)'
                              % (label, pair[0].hex()[:24], pair[1], outs.get(pair, 0), cnt), case, outs.get(pair, 0), cnt)
        remaining = outs - want
        change_scripts = ctx.own_scripts(1 if ctx.kind != 'single' else None, accounts=self.accounts)
        n_change = 0
        for (script, value), cnt in remaining.items():
            if script in rest_scripts:
                rest_scripts.remove(script)
                continue
            if req['kind'] == 'sweep' and len(req['recipients']) == 1 and script == bytes.fromhex(req['recipients'][0]['script']):
                continue   # single-target sweep: the amount is "everything minus fee"
            if label.startswith('bumpfee') and script in ctx.own_scripts(None, accounts=self.accounts):
                n_change += cnt   # bumpfee may add change on a payment-chain key (documented: get_key())
                continue
            if script not in change_scripts:
                col.violation(None, '[%s] extra output of %d to %s is neither a requested recipient nor a change address of this wallet'
                              % (label, value, script.hex()[:40]), case, script.hex(), 'change-chain script of the wallet')
            n_change += cnt
        facts['n_change'] = n_change
        # --- fee rate on the real signed size
        valid = all(rtx.verify_input(p, k, before_unspent[(i['txid'][::-1].hex(), i['n'])]['script'],
                                     before_unspent[(i['txid'][::-1].hex(), i['n'])]['value']).ok
                    for k, i in enumerate(p['ins']) if (i['txid'][::-1].hex(), i['n']) in before_unspent) and len(seen) == len(p['ins'])
        facts['fully_signed'] = valid
        if valid and fee is not None and fee == int(fee):
            fmin, fmax, dust = fee_limits(ctx.network)
            rate = int(fee) * 1000.0 / rtx.vsize(p)
            facts['rate'] = rate
            tol = 0.25 if req.get('fee_mode') != 'explicit' else 0.0
            lo, hi = fmin * (1 - tol), fmax * (1 + tol)
            if req.get('fee_mode') == 'explicit':
                # the library applies the limits to the rate over its size estimate; the real size may differ
                lo, hi = fmin / 1.35, fmax * 1.35
            if (rate < lo or rate > hi) and not label.startswith('bumpfee'):
                # narrow: a named fee ('low'/'normal'/'high') is computed from the size estimate *before* inputs are
                # selected; with >= 2 inputs the real rate then falls below the minimum
                key = K_NAMED_FEE if (isinstance(req.get('fee'), str) and rate < lo and len(p['ins']) >= 2) else None
                col.violation(key, '[%s] fee rate %.0f sat/kvB on the signed size is outside the network limits [%d, %d]'
                              % (label, rate, fmin, fmax), case, rate, [fmin, fmax])
        return facts

    def _bumpfee_shape(self, req, total_in, total_out, fee):
        return True


def judge_refusal(col, ctx, case, req, label, exc, state_before, state_after):
    col.probe('refusal_postcondition')
    if state_before != state_after:
        col.violation(None, '[%s] request failed with %r but the wallet state changed' % (label, exc), dict(case, request=req),
                      {'before': state_before[0], 'after': state_after[0]}, 'unchanged wallet')


def wallet_state(w, col=None, ctx=None, network=None):
    """(balance, sorted utxos).  Observed on the pinned tree: after a refused request the operating handle's utxos()
    can raise AttributeError("'DbTransactionOutput' object has no attribute '_sa_instance_state'") from SQLAlchemy's
    identity map until the next wallet operation.  An exception while *reading* is not a wrong report (outside the
    statement), so the state is then read through a freshly opened handle and the event is counted in the evidence."""
    def read(h):
        ut = sorted((u['txid'], u['output_n'], u['value']) for u in h.utxos(network=network))
        return (int(h.balance(network=network)), ut)
    try:
        return read(w)
    except Exception as e:
        if col is not None:
            col.probe('state_read_via_fresh_handle')
        try:
            return read(ctx.fresh())
        except Exception as e2:
            return ('EXC %r' % (e2,), [])


# ------------------------------------------------------------------ workload
def make_request(rnd, ctx, J, CH):
    """Build a request dict (JSON-able) from the current model state."""
    network = ctx.network
    fmin, fmax, dust = fee_limits(network)
    min_confirms = rnd.choice([0, 1, 1, 3, 3, 6])
    account_id = rnd.choice([None, 0, 1, 1]) if len(J.accounts) > 1 else None
    spendable = J.wallet_unspent(min_confirms, account=(account_id or 0) if len(J.accounts) > 1 else None)
    bal = sum(u['value'] for u in spendable.values())
    from vf import wallet_env
    kind = rnd.choice(['send_to', 'send_to', 'send', 'send', 'create_inputs', 'sweep', 'sweep_multi', 'rbf_bump', 'rbf_bump_reload', 'over'])
    req = {'kind': kind, 'min_confirms': min_confirms, 'broadcast': rnd.random() < 0.5, 'rseed': rnd.getrandbits(30)}
    if len(J.accounts) > 1:
        req['account_id'] = account_id
    nrec = 1 if kind in ('send_to', 'sweep', 'over', 'rbf_bump', 'rbf_bump_reload') else rnd.randint(2, 5)
    recs = []
    scale = 100 if network.startswith('dogecoin') else 1
    for _ in range(nrec):
        addr, script = wallet_env.external_address(rnd, network)
        mode = rnd.choice(['tiny', 'mid', 'mid', 'big'])
        if mode == 'tiny':
            amt = rnd.choice([dust + 1, dust * 2, 1500 * scale, 5000 * scale])
        elif mode == 'mid':
            amt = max(dust + 1, bal // rnd.choice([20, 10, 5, 3]) // nrec)
        else:
            amt = max(dust + 1, (bal - rnd.choice([30000, 60000, 200000]) * scale) // nrec)
        recs.append({'address': addr, 'script': script.hex(), 'amount': int(amt)})
    if kind == 'over':
        recs[0]['amount'] = int(bal + rnd.choice([1, 1000, 10 ** 6, bal]))
    if kind in ('sweep', 'sweep_multi'):
        if kind == 'sweep_multi':
            for r in recs[:-1]:
                r['amount'] = max(dust + 1, bal // (nrec * 3))
            recs[-1]['amount'] = 0
        else:
            recs[0]['amount'] = 0
    if kind == 'rbf_bump_reload':
        # pays one of the wallet's own payment addresses, is broadcast, reloaded from the database and then fee-bumped
        own = ctx.ref_address(0, 0)
        recs = [{'address': own, 'script': ctx.ref.script(0, 0, 0).hex() if ctx.kind != 'single' else ctx.ref.script().hex(),
                 'amount': max(dust + 1, bal // 4)}]
        req['broadcast'] = True
        req['fixed_order'] = True
    req['recipients'] = recs
    if kind == 'create_inputs':
        req['broadcast'] = False
    # fee mode
    fm = rnd.choice(['auto', 'auto', 'explicit', 'explicit_bad', 'low', 'normal', 'high'])
    if kind in ('sweep', 'sweep_multi'):
        fm = rnd.choice(['auto', 'auto', 'explicit', 'per_kb'])
    if kind == 'over':
        fm = 'auto'
    elif getattr(ctx, 'second_network', False) and kind in ('send', 'send_to', 'create_inputs') and rnd.random() < 0.6:
        fm = rnd.choice(['explicit_bad', 'explicit_bad', 'explicit'])   # the limits that apply are those of the transaction's network
    req['fee_mode'] = 'explicit' if fm.startswith('explicit') else fm
    est_vsize = 0.25 + 0.12 * min(len(spendable), 3)   # kvB, rough: only used to pick a clearly-in / clearly-out explicit fee
    if fm == 'explicit':
        req['fee'] = int(rnd.choice([fmin * 4, fmin * 10, fmax / 6.0]) * est_vsize)
    elif fm == 'explicit_bad':
        req['fee'] = int(rnd.choice([fmin / 8.0, fmin / 3.0, fmin / 1.7, fmax * 1.7, fmax * 3, fmax * 12]) * est_vsize)
        req['expect_refusal'] = 'fee-limit'
    elif fm in ('low', 'normal', 'high'):
        req['fee'] = fm
    elif fm == 'per_kb':
        req['fee_per_kb'] = int(rnd.choice([fmin * 3, fmin * 20]))
    req['n_change'] = rnd.choice([1, 1, 0, 2, 3, 5])
    if min_confirms >= 3 and kind in ('send_to', 'send') and rnd.random() < 0.8:
        # deep confirmation requirement together with the automatic-fee / random-change path (fee re-estimation)
        req['fee_mode'] = 'auto'
        req.pop('fee', None)
        req.pop('expect_refusal', None)
        req['n_change'] = 0
    if kind == 'create_inputs' and spendable:
        ops = sorted(spendable)
        rnd.shuffle(ops)
        chosen = ops[:rnd.randint(1, min(4, len(ops)))]
        req['inputs'] = [[op[0], op[1]] for op in chosen]
        tot = sum(spendable[op]['value'] for op in chosen)
        req['recipients'] = recs[:1]
        recs[0]['amount'] = max(dust + 1, tot // 2)
        req['fee_mode'] = 'explicit'
        req['fee'] = int(fmin * 5 * est_vsize)
    if rnd.random() < 0.2 and kind in ('send', 'send_to'):
        req['max_utxos'] = rnd.randint(1, 3)
    # rarely passed optional arguments (the postconditions are the same)
    if kind in ('send', 'send_to') and rnd.random() < 0.15:
        req['locktime'] = rnd.choice([1, 99, 499999999, 500000001])
    if kind in ('send', 'send_to') and rnd.random() < 0.15:
        req['replace_by_fee'] = True
    if kind in ('send', 'send_to') and rnd.random() < 0.15:
        req['random_output_order'] = False
    if kind == 'send' and ctx.kind != 'single' and len(J.accounts) == 1 and not getattr(ctx, 'second_network', False) and rnd.random() < 0.15 and spendable:
        # inputs restricted to the outputs of one or two payment keys
        held = sorted({ctx.own_scripts(0).get(u['script'], (0, 0))[1] for u in spendable.values() if u['script'] in ctx.own_scripts(0)})
        if held:
            rnd.shuffle(held)
            req['input_key_index'] = held[:rnd.choice([1, 1, 2])]
    return req


def depth_request(rnd, ctx, J, req):
    """send / send_to with automatic fee, random change count and a confirmation requirement; the amount needs more than
    one of the sufficiently confirmed outputs (a selection made with another requirement would look different)"""
    from vf import wallet_env
    mc = rnd.choice([3, 6])
    deep = sorted(u['value'] for u in J.wallet_unspent(mc).values())
    kind = rnd.choice(['send_to', 'send'])
    nrec = 1 if kind == 'send_to' else 2
    total = max(deep[-1] + (sum(deep) - deep[-1]) // rnd.choice([2, 3]), 2000) if len(deep) >= 2 else (deep[0] // 2 if deep else 10 ** 6)
    recs = []
    for _ in range(nrec):
        addr, script = wallet_env.external_address(rnd, ctx.network)
        recs.append({'address': addr, 'script': script.hex(), 'amount': int(total // nrec)})
    return {'kind': kind, 'min_confirms': mc, 'broadcast': rnd.random() < 0.5, 'rseed': req['rseed'], 'recipients': recs,
            'fee_mode': 'auto', 'n_change': rnd.choice([0, 0, 0, 2])}


def bump_request(rnd, ctx, req, value):
    """send_to that consumes one output completely (explicit fee, nothing left for change), not broadcast, then bumped"""
    from vf import wallet_env
    fmin, fmax, dust = fee_limits(ctx.network)
    fee = int(fmin * rnd.choice([3, 5, 8]) * (0.45 if ctx.kind == 'multisig' else 0.25))
    addr, script = wallet_env.external_address(rnd, ctx.network)
    return {'kind': 'rbf_bump', 'min_confirms': 1, 'broadcast': False, 'rseed': req['rseed'], 'fee_mode': 'explicit', 'fee': fee,
            'recipients': [{'address': addr, 'script': script.hex(), 'amount': int(value - fee)}], 'n_change': 1}


def execute(req, ctx):
    """Run the request through the library API. Returns the WalletTransaction."""
    from vf import wallet_env
    w = ctx.w
    wallet_env.reseed(req['rseed'])
    out_arr = [(r['address'], r['amount']) for r in req['recipients']]
    fee = req.get('fee')
    kw = dict(min_confirms=req['min_confirms'], broadcast=req['broadcast'])
    if req.get('account_id') is not None:
        kw['account_id'] = req['account_id']
    if req.get('network'):
        kw['network'] = req['network']
    priv = ctx.extra_priv or None
    k = req['kind']
    opt = {}
    for name in ('locktime', 'replace_by_fee', 'random_output_order'):
        if name in req:
            opt[name] = req[name]
    if req.get('input_key_index'):
        ids = [w.key_for_path([0, i]).key_id for i in req['input_key_index']]
        opt['input_key_id'] = ids[0] if len(ids) == 1 else ids
    if k in ('send_to', 'over'):
        return w.send_to(out_arr[0][0], out_arr[0][1], fee=fee, priv_keys=priv, number_of_change_outputs=req['n_change'], **kw, **opt)
    if k == 'send':
        return w.send(out_arr, fee=fee, priv_keys=priv, number_of_change_outputs=req['n_change'], max_utxos=req.get('max_utxos'), **kw, **opt)
    if k == 'create_inputs':
        t = w.transaction_create(out_arr, input_arr=[tuple(i) for i in req['inputs']], fee=fee, min_confirms=req['min_confirms'],
                                 number_of_change_outputs=max(1, req['n_change']), account_id=req.get('account_id'), network=req.get('network'))
        t.sign(priv)
        return t
    if k == 'sweep':
        return w.sweep(out_arr[0][0], fee=fee, fee_per_kb=req.get('fee_per_kb'), **kw)
    if k == 'sweep_multi':
        return w.sweep(out_arr, fee=fee, fee_per_kb=req.get('fee_per_kb'), **kw)
    if k == 'rbf_bump_reload':
        return w.send_to(out_arr[0][0], out_arr[0][1], fee=fee, priv_keys=priv, replace_by_fee=True, min_confirms=req['min_confirms'],
                         broadcast=True, number_of_change_outputs=1, random_output_order=False)
    if k == 'rbf_bump':
        return w.send_to(out_arr[0][0], out_arr[0][1], fee=fee, priv_keys=priv, replace_by_fee=True, min_confirms=req['min_confirms'],
                         broadcast=False, number_of_change_outputs=max(1, req['n_change']))
    raise ValueError(k)


def run_wallet(case, col):
    """One wallet, funded, then a sequence of judged requests. Deterministic in `case`."""
    from vf import chain_model, wallet_env
    CH = chain_model.CHAIN
    rnd = random.Random('c07-%s' % case['wseed'])
    network, wt, kind = case['network'], case['wt'], case['kind']
    name = 'c07_%s' % case['wseed']
    db = os.path.join(os.environ['BCL_DATA_DIR'], 'c07_%s.sqlite' % case['wseed'])
    try:
        ctx = wallet_env.WalletCtx(name, kind, network, wt, 'c07-%s' % case['wseed'], db, compressed=not case.get('uncompressed'))
    except Exception as e:
        col.violation(None, 'creating a %s/%s/%s wallet raised %r' % (kind, wt, network, e), case, repr(e), None)
        return
    w = ctx.w
    J = Judge(col, ctx, CH, case)
    scale = 100000 if network.startswith('dogecoin') else 1
    # funding: payment-chain keys 0..k, several UTXOs, some unconfirmed, dust, equal values
    n_utxo = case['n_utxo']
    nkeys = 1 if kind == 'single' else rnd.randint(1, 6)
    addrs = [ctx.ref_address(0, i) for i in range(nkeys)]
    try:
        have = [w.get_key().address] if kind == 'single' else [k.address for k in w.get_keys(number_of_keys=nkeys)]
    except Exception as e:
        col.violation(None, 'get_keys raised %r' % (e,), case, repr(e), None)
        return
    if sorted(have) != sorted(addrs):
        col.violation(None, 'wallet payment addresses differ from the reference derivation (see C09)', case, have[:3], addrs[:3])
        return
    n_acc = case.get('accounts', 1)
    if n_acc > 1:
        # second account of the same HD wallet, funded as well; requests name the account they spend from
        try:
            w.new_account()
            nk1 = rnd.randint(1, 4)
            have1 = [k.address for k in w.get_keys(account_id=1, number_of_keys=nk1)]
        except Exception as e:
            col.violation(None, 'new_account/get_keys(account_id=1) raised %r' % (e,), case, repr(e), None)
            return
        addrs1 = [ctx.ref.address(1, 0, i) for i in range(nk1)]
        if sorted(have1) != sorted(addrs1):
            col.violation(None, 'payment addresses of account 1 differ from the reference derivation (see C09)', case, have1[:3], addrs1[:3])
            return
        addrs = addrs + addrs1

    ctxB = JB = None
    if case.get('net2'):
        # the same HD wallet also holds keys of a second network whose fee limits differ from the default network's;
        # requests name the network they are for
        import copy
        from vf import wallet_ref
        B = case['net2']
        ctxB = copy.copy(ctx)
        ctxB.network = B
        ctxB.ref = wallet_ref.SingleRef(wallet_env.seed_bytes('c07-%s' % case['wseed']), B, wt)
        ctxB._own = {}
        ctxB.second_network = True
        try:
            nkB = rnd.randint(1, 4)
            haveB = [k.address for k in w.get_keys(network=B, number_of_keys=nkB)]
        except Exception as e:
            col.violation(None, 'get_keys(network=%s) raised %r' % (B, e), case, repr(e), None)
            return
        addrsB = [ctxB.ref_address(0, i) for i in range(nkB)]
        if sorted(haveB) != sorted(addrsB):
            col.violation(None, 'payment addresses on the second network differ from the reference derivation (see C09)', case, haveB[:3], addrsB[:3])
            return
        scaleB = 100000 if B.startswith('dogecoin') else 1
        for j in range(rnd.randint(2, 6)):
            CH.fund(rnd.choice(addrsB), rnd.choice([10 ** 5, 10 ** 6, 10 ** 7 + j, rnd.randrange(2000, 10 ** 7)]) * scaleB, B, confirmed=rnd.random() < 0.8)
        JB = Judge(col, ctxB, CH, case)

    def refresh():
        if n_acc > 1:
            for acc in range(n_acc):
                w.utxos_update(account_id=acc)
        else:
            w.utxos_update()
    eq = rnd.choice([10 ** 5, 10 ** 6]) * scale
    last_op = None
    if case.get('depth_scenario'):
        # dedicated class: several deep outputs that must be combined + one large shallow output that alone would cover
        # every request; all requests carry a confirmation requirement the shallow output does not meet
        n_utxo = 0
        for j in range(rnd.randint(3, 6)):
            CH.fund(rnd.choice(addrs), (rnd.choice([4, 5, 7]) * 10 ** 6 + rnd.randrange(10 ** 5)) * scale, network, confirmed=True)
        CH.mine(rnd.choice([6, 8, 12]))
        deep_total = sum(u['value'] for u in CH.unspent(set(addrs)).values())
        CH.fund(rnd.choice(addrs), 3 * deep_total + 777, network, confirmed=True)
        CH.mine(rnd.choice([0, 1]))
    if case.get('bump_scenario'):
        # dedicated class: a few equal outputs; every request spends one of them completely (no change output), is not
        # broadcast and is then fee-bumped, so the bump has to pull in another output of the wallet
        n_utxo = 0
        case['_bump_value'] = rnd.choice([2, 5]) * 10 ** 6 * (100 if network.startswith('dogecoin') else 1)
        for j in range(rnd.randint(3, 5)):
            CH.fund(rnd.choice(addrs), case['_bump_value'], network, confirmed=True)
        CH.mine(2)
    for j in range(n_utxo):
        v = rnd.choice([eq, eq, 600, 999, 1000, 1001, 5000 * scale, 10 ** 7 * scale + j, 10 ** 8 * scale + j, rnd.randrange(2000, 10 ** 7) * scale])
        # several outputs of one funding transaction (same txid) and funding at different depths
        last_op = CH.fund(rnd.choice(addrs), v, network, confirmed=rnd.random() < 0.8, same_tx_as=last_op if (rnd.random() < 0.35 and n_acc == 1) else None)
        if rnd.random() < 0.3:
            CH.mine(rnd.choice([1, 2, 5]))
    if rnd.random() < 0.5 and n_utxo >= 2 and not case.get('depth_scenario'):
        # everything so far gets deep, then one large shallow output arrives: requests with a confirmation requirement
        # must leave it alone even though it alone would cover them
        CH.mine(rnd.choice([3, 6, 10]))
        total = sum(u['value'] for u in CH.unspent(set(addrs)).values())
        CH.fund(rnd.choice(addrs), 2 * total + 12345, network, confirmed=True)
    try:
        refresh()
    except Exception as e:
        col.violation(None, 'utxos_update raised %r' % (e,), case, repr(e), None)
        return
    ctxA, JA = ctx, J
    for step in range(case['n_req']):
        CH.snapshot()
        ctx, J = ctxA, JA
        if ctxB is not None and rnd.random() < 0.5:
            ctx, J = ctxB, JB
        network = ctx.network
        req = make_request(rnd, ctx, J, CH)
        if ctx is ctxB:
            req['network'] = ctxB.network
        if case.get('depth_scenario'):
            req = depth_request(rnd, ctx, J, req)
        if case.get('bump_scenario'):
            req = bump_request(rnd, ctx, req, case['_bump_value'])
        label = '%s/%s' % (req['kind'], req['fee_mode'])
        before_unspent = J.wallet_unspent(req['min_confirms'])
        before_all = J.wallet_unspent(0)
        bal_spendable = sum(u['value'] for u in before_unspent.values())
        state0 = wallet_state(w, col, ctx, req.get('network'))
        nb = len(CH.broadcasts)
        t = None
        exc = None
        try:
            t = execute(req, ctx)
        except Exception as e:
            # keep only the text: a live traceback would keep the library's ORM rows alive, and Wallet.utxos() strips
            # `_sa_instance_state` from live rows (observed: the handle then raises AttributeError on the next query)
            exc = '%s: %s' % (type(e).__name__, str(e)[:200])
        requested = sum(r['amount'] for r in req['recipients'])
        outcome = 'refused' if t is None else 'tx'
        facts = {}
        if t is not None:
            if req['kind'] == 'create_inputs':
                before_for_check = before_all   # explicit inputs: the caller chose them
            else:
                before_for_check = before_unspent
            facts = J.check_tx(t, req, before_for_check, label) or {}
            if requested > bal_spendable and req['kind'] != 'create_inputs':
                col.violation(None, '[%s] request for %d exceeds spendable funds %d but a transaction was produced' % (label, requested, bal_spendable),
                              dict(case, request=req), requested, 'refusal')
            if req.get('expect_refusal') == 'fee-limit' and facts.get('fully_signed'):
                fmin, fmax, _ = fee_limits(network)
                if facts.get('rate') is not None and (facts['rate'] < fmin / 2.5 or facts['rate'] > fmax * 2.5):
                    pass  # already reported by check_tx
            # broadcasting
            new_b = CH.broadcasts[nb:]
            if req['broadcast'] and req['kind'] != 'rbf_bump':
                col.probe('broadcast_judged')
                if getattr(t, 'pushed', False):
                    if not new_b or not new_b[-1]['accepted']:
                        col.violation(None, '[%s] wallet reports pushed=True but the model chain accepted nothing' % label, dict(case, request=req), 'pushed', 'accepted broadcast')
                elif facts.get('fully_signed') and not new_b:
                    col.violation(None, '[%s] fully signed transaction was not broadcast (error=%r)' % (label, getattr(t, 'error', None)),
                                  dict(case, request=req), getattr(t, 'error', None), 'broadcast')
            elif new_b:
                col.violation(None, '[%s] broadcast=False but the wallet published a transaction' % label, dict(case, request=req), new_b[-1]['txid'], 'no broadcast')
            if req['kind'] == 'rbf_bump_reload' and getattr(t, 'pushed', False):
                try:
                    t2 = w.transaction(t.txid)
                    t2.bumpfee(extra_fee=rnd.choice([t2.vsize + 1, 3 * t2.vsize]))
                    # the replacement may keep the original inputs and add any output that was unspent before the original
                    # request (the original transaction's own outputs are not spendable by its replacement)
                    f3 = J.check_tx(t2, dict(req, min_confirms=0), before_all, 'bumpfee-reloaded') or {}
                    col.case('bumpfee-reloaded/%s/%s' % (kind, wt), nontrivial=('bumpfee-reloaded', kind, wt, f3.get('n_change', 0)))
                    col.probe('bumpfee_reloaded')
                except Exception as e:
                    col.case('bumpfee-reloaded/%s/%s/refused' % (kind, wt), nontrivial=('bumpfee-reloaded', kind, wt, 'refused', type(e).__name__))
            if req['kind'] == 'rbf_bump':
                mode = rnd.choice(['auto', 'fee', 'extra_fee'])
                bump_before = J.wallet_unspent(0)
                try:
                    wallet_env.reseed(req['rseed'] + 1)
                    if mode == 'auto':
                        t.bumpfee()
                    elif mode == 'fee':
                        t.bumpfee(fee=int(t.fee) + rnd.choice([t.vsize + 1, 3 * t.vsize, 20 * t.vsize]))
                    else:
                        t.bumpfee(extra_fee=rnd.choice([t.vsize + 1, 3 * t.vsize, 20 * t.vsize]))
                    f2 = J.check_tx(t, dict(req, min_confirms=0), bump_before, 'bumpfee/' + mode) or {}
                    col.case('bumpfee/%s/%s/%s' % (kind, wt, mode), nontrivial=('bumpfee', kind, wt, mode, f2.get('n_in', 0) > 1, f2.get('n_change', 0)))
                except Exception as e:
                    col.case('bumpfee/%s/%s/%s/refused' % (kind, wt, mode), nontrivial=('bumpfee', kind, wt, mode, 'refused', type(e).__name__))
        else:
            # a refusal: legitimate for insufficient funds / fee limits / dust; the wallet must be unchanged
            state1 = wallet_state(w, col, ctx, req.get('network'))
            new_b = CH.broadcasts[nb:]
            rejected = [b for b in new_b if not b['accepted']]
            if rejected:
                col.violation(None, '[%s] the wallet tried to publish a transaction the network refuses: %s' % (label, rejected[-1]['reason']),
                              dict(case, request=req), rejected[-1]['raw'][:600], 'acceptable transaction')
            elif any(b['accepted'] for b in new_b):
                col.violation(None, '[%s] request raised %r after a transaction was broadcast' % (label, exc), dict(case, request=req), repr(exc), None)
            else:
                judge_refusal(col, ctx, case, req, label, exc, state0, state1)
            facts['exc'] = exc.split(':')[0]
        nontriv = None
        if outcome == 'refused' or facts.get('n_in', 0) >= 2 or facts.get('n_change', 0) >= 1:
            nontriv = (kind, wt, req['kind'], req['fee_mode'], min(facts.get('n_change', 0), 3), outcome, facts.get('exc'))
        col.case('%s/%s/%s/%s' % (kind, wt, req['kind'], outcome), nontrivial=nontriv,
                 sample={'wallet': {k: case[k] for k in ('kind', 'wt', 'network')}, 'request': req, 'outcome': outcome, 'facts': facts})
        r_ = rnd.random()
        if r_ < 0.5:
            lag = 0
            if r_ < 0.2 and len(CH.snapshots) > 1:
                # refresh from a provider that is a few steps behind: it still lists outputs this wallet has spent
                lag = rnd.randint(1, min(3, len(CH.snapshots) - 1))
            else:
                CH.mine()
            try:
                CH.faults['lag'] = lag
                try:
                    refresh()
                finally:
                    CH.faults['lag'] = 0
                if lag:
                    # no catch-up: the next request is judged against the true model (a wallet that believed the stale
                    # listing would now select outputs it has already spent)
                    col.probe('lagging_refresh')
            except Exception as e:
                import traceback
                col.violation(None, 'utxos_update raised %r' % (e,), case, traceback.format_exc()[-1500:], None)
    try:
        w.session.close()
    except Exception:
        pass


def replay(case, col):
    if not selfcheck(col):
        return
    from vf import chain_model
    chain_model.install()
    case = {k: v for k, v in case.items() if k not in ('request', 'label')}
    run_wallet(case, col)


def selfcheck(col):
    try:
        ec.selfcheck(); codec.selfcheck(); rchain.selfcheck(); rtx.selfcheck(); bip32.selfcheck()
        return True
    except Exception as e:
        col.note_inconclusive('reference self-check failed: %r' % (e,))
        return False


def plan(tier, seed, scale=1.0):
    thorough = tier == 'thorough'
    nshard = 16
    nw = int((1600 if thorough else 96) * scale)
    return [{'shard': i, 'nshard': nshard, 'n_wallets': max(1, nw // nshard), 'n_req': 14 if thorough else 7, 'n_depth': 6 if thorough else 1} for i in range(nshard)]


def run_shard(spec, col):
    if not selfcheck(col):
        return
    from vf import chain_model
    chain_model.install()
    col.require('tx_postcondition', 5)
    rnd = random.Random('%s-%d-%d' % (ID, spec['seed'], spec['shard']))
    for k in range(spec['n_wallets']):
        kind = ['hd', 'hd', 'single', 'multisig'][(k + spec['shard']) % 4]
        network = rnd.choice(NETWORKS)
        wt = rnd.choice(['legacy', 'p2sh-segwit', 'segwit']) if not network.startswith('dogecoin') else 'legacy'
        case = {'wseed': '%d-%d-%d' % (spec['seed'], spec['shard'], k), 'kind': kind, 'wt': wt, 'network': network,
                'n_utxo': rnd.choice([1, 2, 3, 5, 8, 12, 40 if k % 7 == 0 else 6]), 'n_req': spec['n_req']}
        r2 = rnd.random()
        if kind == 'single' and r2 < 0.5:
            case['wt'] = wt = 'legacy'
            case['uncompressed'] = True     # wallet around an old-style uncompressed WIF key
        if kind == 'hd' and r2 < 0.3:
            case['accounts'] = 2
        elif kind == 'hd' and r2 < 0.6:
            other = {'testnet': ['bitcoin', 'litecoin'], 'dogecoin': ['bitcoin', 'litecoin']}.get(network, ['dogecoin', 'testnet'])
            case['net2'] = rnd.choice(other)
            if 'dogecoin' in (network, case['net2']):
                case['wt'] = wt = 'legacy'
        run_wallet(case, col)
    for k in range(spec.get('n_depth', 1)):
        network = rnd.choice(NETWORKS)
        wt = rnd.choice(['legacy', 'p2sh-segwit', 'segwit']) if not network.startswith('dogecoin') else 'legacy'
        case = {'wseed': '%d-%d-bump%d' % (spec['seed'], spec['shard'], k), 'kind': rnd.choice(['hd', 'hd', 'single', 'multisig']), 'wt': wt,
                'network': network, 'n_utxo': 0, 'n_req': 2, 'bump_scenario': True}
        run_wallet(case, col)
    for k in range(spec.get('n_depth', 1)):
        network = rnd.choice(NETWORKS)
        wt = rnd.choice(['legacy', 'p2sh-segwit', 'segwit']) if not network.startswith('dogecoin') else 'legacy'
        case = {'wseed': '%d-%d-depth%d' % (spec['seed'], spec['shard'], k), 'kind': rnd.choice(['hd', 'hd', 'single', 'multisig']), 'wt': wt,
                'network': network, 'n_utxo': 0, 'n_req': 3, 'depth_scenario': True}
        run_wallet(case, col)
