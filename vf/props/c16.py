"""C16 - public views and default exports never contain private key material; encrypted DB fields at rest.

Monitor shape: invariant at a quiescent point.  The harness drives the real key / wallet code through call
histories, takes what the library presents as public (or the default dict / JSON / repr / printed form of a
private object) and scans it for every encoding of every secret involved (taint scan): complete object graph,
pickle bytes, unpickled graph, deepcopy graph, repr, str, as_dict(), as_json(), captured info() output, and the
raw bytes of the sqlite file written with field encryption on (every documented configuration).  The taint set is built by the harness
from the secret it chose (derived wallet keys via vf.refs.bip32), never from library output.
"""
import io
import os
import re
import gc
import copy
import types
import random
import pickle
import sqlite3
import contextlib
import inspect
import itertools

from vf.refs import secp256k1 as ec
from vf.refs import codec, chain, bip32

ID = 'C16'
LEVEL = 'exploration'
ANCHORS = ['bitcoinlib/keys.py', 'bitcoinlib/wallets.py', 'bitcoinlib/db.py']
DEPS = ()
ENC_KEY = '6b1d0c5e9f3a4277a1b2c3d4e5f60718293a4b5c6d7e8f90a1b2c3d4e5f60799'
REPLAY_ENV = {'DB_FIELD_ENCRYPTION_KEY': ENC_KEY}
ENC_PASSWORD = 'c16 harness field-encryption password'
# every documented way of switching field encryption on (docs/_static/manuals.sqlcipher.rst, data/config.ini); the variables
# are read when bitcoinlib.config is imported, so every configuration runs in a process of its own
ATREST_MODES = {
    'key': {'env': {'DB_FIELD_ENCRYPTION_KEY': ENC_KEY}},
    'password': {'env': {'DB_FIELD_ENCRYPTION_PASSWORD': ENC_PASSWORD}},
    'key+password': {'env': {'DB_FIELD_ENCRYPTION_KEY': ENC_KEY, 'DB_FIELD_ENCRYPTION_PASSWORD': ENC_PASSWORD}},
    'key+config': {'env': {'DB_FIELD_ENCRYPTION_KEY': ENC_KEY}, 'config': True},
    'password+config': {'env': {'DB_FIELD_ENCRYPTION_PASSWORD': ENC_PASSWORD}, 'config': True},
    'control': {'env': {}},
}
ENC_MODES = [m for m in ATREST_MODES if m != 'control']
RULE = ('a case = (private object kind + how it was imported + network/compression/witness type, HISTORY of prior '
        'calls on the private object, public view or default form taken afterwards); each case scans object graph, '
        'pickle bytes, unpickled + deep-copied graph, repr, str, as_dict, as_json, info() for all encodings of the '
        'object secret and of all keys derivable from it on the paths the library uses; wallets are created from every kind of key '
        'material (master xprv, ACCOUNT-level private extended key, account xpub, single key, multisig from master or account-level '
        'keys), exports are scanned on the operating and on a reopened handle; wallet cases add every key '
        'row of the wallet (derived independently from the seed), at-rest cases scan the raw sqlite file; '
        'non-trivial = distinct (object kind, import format, network, compressed, history op tuple, view) tuples')
TRUSTED_BASE = ['vf/refs/bip32.py, vf/refs/secp256k1.py (derivation of every wallet key from the harness seed; BIP32 vectors)',
                'vf/refs/chain.py + golden/chainparams.json (WIF bytes and extended-key versions of all networks)',
                'vf/refs/codec.py (Base58Check)',
                'taint scanner self-check: must find the secret in the private object, in its pickle and in include_private exports; '
                'the unencrypted control database must show every private row']
ASSUMPTIONS = ['private key material = the 256-bit scalar in the encodings named by the property (raw big/little endian bytes, hex any case, '
               'decimal, int, WIF for all network bytes x compression, extended private key for all version bytes, any Base58 string whose '
               'payload contains the raw scalar); BIP38-encrypted keys, chain codes, seeds and mnemonics are not counted',
               'SQLAlchemy Session/Engine objects and ORM relationships held by a view are database handles, not part of the view; '
               'plain column values loaded on ORM rows are scanned',
               'where an API has include_private / is_private / as_private only its default is scanned',
               'a signed Transaction object holds the private keys it was given and is not a public view: only its default dict/JSON/repr/info are scanned',
               'DB at rest: main sqlite file plus -journal/-wal/-shm after all sessions are closed; the log file is scanned for information only']
EXHAUSTIVE = ['optional arguments of the public-view methods (from inspect.signature): every single value and every pair of values of the per-argument tables (thinned for the slow methods)',
              'thorough: all call histories of length <= 3 over the Key op alphabet and over the HDKey op alphabet',
              'quick: all call histories of length <= 2 (BIP38 encrypt only at length <= 1)']

K_WIF_CACHE = 'C16/key-public/cached-private-wif-survives'
K_INFO_PRIV = 'C16/key-info/private-section-printed-by-default'
K_WK_REPR = 'C16/walletkey-repr/prints-private-wif'
K_DBKEY_REPR = 'C16/dbkey-repr/prints-private-wif'

_B58_RUN = re.compile(r'[1-9A-HJ-NP-Za-km-z]{40,}')
_B58_RUN_B = re.compile(rb'[1-9A-HJ-NP-Za-km-z]{40,}')
_B58_IDX = {c: i for i, c in enumerate('123456789ABCDEFGHJKLMNPQRSTUVWXYZabcdefghijkmnopqrstuvwxyz')}

WIF_BYTES = sorted({bytes.fromhex(v['wif']) for v in chain.NETWORKS.values()})
HD_VERSIONS = sorted({bytes.fromhex(h) for v in chain.NETWORKS.values() for ent in v['hd'].values()
                      for pair in ent.values() for h in pair})


def _b58_raw(s):
    """Base58 -> bytes without any checksum handling (generic detector)."""
    n = 0
    for c in s:
        n = n * 58 + _B58_IDX[c]
    pad = len(s) - len(s.lstrip('1'))
    return b'\0' * pad + n.to_bytes((n.bit_length() + 7) // 8, 'big')


# ------------------------------------------------------------------ taint set
class Taint:
    """All encodings of a set of secrets.  `add(label, secret, xkey)`; xkey (bip32.XKey) gives the extended forms."""

    def __init__(self):
        self.labels = {}       # secret int -> label
        self.raws = {}         # raw32 -> label
        self.spat = {}         # case-sensitive ASCII pattern -> (enc, label)
        self.hpat = {}         # lower-case hex pattern -> (enc, label)
        self.bpat = {}         # raw byte pattern -> (enc, label)
        self._ext_done = set()
        self._b58_memo = {}

    def add(self, label, secret, xkey=None):
        secret = int(secret)
        if secret not in self.labels:
            self.labels[secret] = label
            raw = secret.to_bytes(32, 'big')
            self.raws[raw] = label
            self.bpat[raw] = ('raw32-be', label)
            self.bpat[raw[::-1]] = ('raw32-le', label)
            if raw[0] == 0 and len(raw.lstrip(b'\0')) >= 24:
                self.bpat[raw.lstrip(b'\0')] = ('raw-minimal-be', label)
            self.hpat['%x' % secret] = ('hex', label)
            self.spat[str(secret)] = ('decimal', label)
            for wb in WIF_BYTES:
                for comp in (True, False):
                    w = codec.b58check_encode(wb + raw + (b'\x01' if comp else b''))
                    self.spat[w] = ('wif-%s-%s' % (wb.hex(), 'c' if comp else 'u'), label)
        else:
            label = self.labels[secret]
        if xkey is not None:
            ident = (secret, xkey.chain, xkey.depth, xkey.parent_fp, xkey.child)
            if ident not in self._ext_done:
                self._ext_done.add(ident)
                for ver in HD_VERSIONS:
                    self.spat[xkey.serialize(ver, private=True)] = ('extkey-%s' % ver.hex(), label)

    def merge(self, other):
        for a in ('labels', 'raws', 'spat', 'hpat', 'bpat'):
            getattr(self, a).update(getattr(other, a))
        self._ext_done |= other._ext_done

    # ---- primitive scans: return list of (enc, label)
    def scan_int(self, n):
        lab = self.labels.get(n)
        return [('int', lab)] if lab is not None else []

    def _scan_b58_tokens(self, tokens):
        out = []
        for tok in tokens:
            r = self._b58_memo.get(tok)
            if r is None:
                r = ()
                try:
                    dec = _b58_raw(tok)
                    r = tuple(lab for raw, lab in self.raws.items() if raw in dec)
                except Exception:
                    pass
                if len(self._b58_memo) < 50000:
                    self._b58_memo[tok] = r
            for lab in r:
                out.append(('base58-payload', lab))
        return out

    def scan_text(self, text):
        out = []
        if len(text) < 20:
            return out
        for p, (enc, lab) in self.spat.items():
            if p in text:
                out.append((enc, lab))
        low = text.lower()
        for p, (enc, lab) in self.hpat.items():
            if p in low:
                out.append((enc, lab))
        if not out:
            out.extend(self._scan_b58_tokens(set(_B58_RUN.findall(text))))
        return out

    def scan_bytes(self, blob):
        out = []
        if len(blob) < 20:
            return out
        for p, (enc, lab) in self.bpat.items():
            if p in blob:
                out.append((enc, lab))
        for p, (enc, lab) in self.spat.items():
            if p.encode() in blob:
                out.append((enc + '/ascii', lab))
        low = blob.lower()
        for p, (enc, lab) in self.hpat.items():
            if p.encode() in low:
                out.append((enc + '/ascii', lab))
        if not out:
            toks = set(t.decode() for t in _B58_RUN_B.findall(blob))
            out.extend((e + '/ascii', l) for e, l in self._scan_b58_tokens(toks))
        return out


# ------------------------------------------------------------------ object graph walker
_SKIP_TOP = {'sqlalchemy', 'logging', 'threading', '_thread', 'sqlite3', 'weakref', '_weakref', 'socket', 'ssl'}
_SKIP_TYPES = (type, types.ModuleType, types.FunctionType, types.BuiltinFunctionType, types.MethodType,
               types.CodeType, types.FrameType, types.GeneratorType, property, staticmethod, classmethod)


class Walk:
    def __init__(self):
        self.texts = []
        self.blobs = []
        self.ints = []
        self.nodes = 0
        self.skipped = 0
        self.truncated = 0


def walk(root, max_nodes=300000):
    """Cycle-safe walk over __dict__, __slots__, containers; returns the leaves with their access paths."""
    w = Walk()
    seen = {}
    stack = [(root, '$', 0)]
    while stack:
        obj, path, depth = stack.pop()
        if obj is None or obj is True or obj is False:
            continue
        if isinstance(obj, str):
            w.texts.append((path, obj))
            continue
        if isinstance(obj, (bytes, bytearray, memoryview)):
            w.blobs.append((path, bytes(obj)))
            continue
        if isinstance(obj, int):
            w.ints.append((path, int(obj)))
            continue
        if isinstance(obj, float):
            continue
        if id(obj) in seen:
            continue
        seen[id(obj)] = obj
        w.nodes += 1
        if w.nodes > max_nodes or depth > 60:
            w.truncated += 1
            continue
        if isinstance(obj, _SKIP_TYPES):
            continue
        mod = (type(obj).__module__ or '').split('.')[0]
        if mod == 'numpy' and hasattr(obj, '__index__'):
            try:
                w.ints.append((path, int(obj)))
            except Exception:
                pass
            continue
        if mod in _SKIP_TOP:
            w.skipped += 1
            continue
        handled = False
        if isinstance(obj, dict):
            handled = True
            for k, v in list(obj.items()):
                if not isinstance(k, (str, int)) or isinstance(k, bool):
                    stack.append((k, path + '{key}', depth + 1))
                elif isinstance(k, str) and len(k) >= 20:
                    w.texts.append((path + '{key}', k))
                elif isinstance(k, int) and not isinstance(k, bool):
                    w.ints.append((path + '{key}', k))
                stack.append((v, '%s[%r]' % (path, k if not isinstance(k, str) else k[:40]), depth + 1))
        elif isinstance(obj, (list, tuple, set, frozenset)):
            handled = True
            for i, v in enumerate(list(obj)):
                stack.append((v, '%s[%d]' % (path, i), depth + 1))
        orm = hasattr(obj, '_sa_instance_state')
        d = getattr(obj, '__dict__', None)
        if isinstance(d, dict):
            handled = True
            for k, v in list(d.items()):
                if k == '_sa_instance_state':
                    continue
                if orm and (hasattr(v, '_sa_instance_state') or (type(v).__module__ or '').startswith('sqlalchemy')):
                    w.skipped += 1       # relationship = database handle
                    continue
                stack.append((v, '%s.%s' % (path, k), depth + 1))
        for klass in type(obj).__mro__:
            sl = klass.__dict__.get('__slots__', ())
            if isinstance(sl, str):
                sl = (sl,)
            for name in sl:
                if name in ('__dict__', '__weakref__'):
                    continue
                handled = True
                try:
                    stack.append((getattr(obj, name), '%s.%s' % (path, name), depth + 1))
                except AttributeError:
                    pass
        if not handled:
            try:
                w.texts.append((path + '!repr', repr(obj)))
            except Exception:
                pass
    return w


def hits_from_walk(taint, w):
    hits = []
    for path, n in w.ints:
        for enc, lab in taint.scan_int(n):
            hits.append({'path': path, 'enc': enc, 'label': lab})
    if w.texts:
        if taint.scan_text('\n'.join(t for _, t in w.texts)):
            for path, t in w.texts:
                for enc, lab in taint.scan_text(t):
                    hits.append({'path': path, 'enc': enc, 'label': lab})
    if w.blobs:
        if taint.scan_bytes(b'\n\xff\n'.join(b for _, b in w.blobs)):
            for path, b in w.blobs:
                for enc, lab in taint.scan_bytes(b):
                    hits.append({'path': path, 'enc': enc, 'label': lab})
    return hits


def scan_graph(taint, root):
    """-> (hits, walk).  hit = {'path','enc','label'}"""
    w = walk(root)
    return hits_from_walk(taint, w), w


def scan_parts(taint, parts):
    """parts = [(where, root)] -> {where: hits}.  All leaves of all parts go through ONE combined pre-check (the same
    substring / equality tests on the de-duplicated leaves); the per-part scans run only when it fires."""
    walks = [(where, walk(root)) for where, root in parts]
    texts, blobs = set(), set()
    dirty = False
    for where, w in walks:
        for _, n in w.ints:
            if n in taint.labels:
                dirty = True
        texts.update(t for _, t in w.texts if len(t) >= 20)
        blobs.update(b for _, b in w.blobs if len(b) >= 20)
    if not dirty and texts and taint.scan_text('\n'.join(sorted(texts))):
        dirty = True
    if not dirty and blobs and taint.scan_bytes(b'\n\xff\n'.join(sorted(blobs))):
        dirty = True
    out = {}
    for where, w in walks:
        out.setdefault(where, [])
        if dirty:
            out[where] += _tag(hits_from_walk(taint, w), where)
    return out, walks


def _tag(hits, where):
    for h in hits:
        h['where'] = where
    return hits


def refused(col, probe, where, exc):
    """A raised exception shows nothing: counted, with a few distinct reasons kept for the evidence."""
    col.probe(probe)
    d = col.extra.setdefault('refusal_reasons', {})
    k = '%s: %s' % (where, type(exc).__name__)
    if k in d or len(d) < 40:
        d[k] = (repr(exc)[:160])


def capture(fn, *a, **kw):
    """Captured stdout of a printing method.  What was printed before an exception has been shown all the same, so it
    is returned (an exception with no output at all is re-raised = refusal)."""
    buf = io.StringIO()
    try:
        with contextlib.redirect_stdout(buf):
            fn(*a, **kw)
    except Exception:
        if not buf.getvalue():
            raise
    return buf.getvalue()


# ------------------------------------------------------------------ scanning a view / default forms
OBJECT_FORMS = ('graph', 'pickle', 'unpickled', 'deepcopy', 'copy', 'graph-after-calls')


def _is_sa(v):
    return hasattr(v, '_sa_instance_state') or (type(v).__module__ or '').split('.')[0] == 'sqlalchemy'


def _db_bound(view):
    d = getattr(view, '__dict__', None)
    return _is_sa(view) or (isinstance(d, dict) and any(_is_sa(v) for v in d.values()))


def object_parts(col, view):
    """Graph, pickle bytes, unpickled graph, deepcopy / copy graph of a public view -> [(where, root)]."""
    parts = [('graph', view)]
    col.probe('graph_scan')
    if _db_bound(view):
        # WalletKey / Wallet hold a live Session: they cannot be pickled or deep-copied (the attempt raises half-way and
        # disturbs SQLAlchemy's instrumentation); their picklable parts (HDKey objects) are scanned as views of their own
        col.probe('db_bound_view_not_copied')
        return parts
    try:
        blob = pickle.dumps(view)
    except Exception:
        col.probe('pickle_refused')
        blob = None
    if blob is not None:
        col.probe('pickle_scan')
        parts.append(('pickle', blob))
        try:
            parts.append(('unpickled', pickle.loads(blob)))
        except Exception:
            col.probe('unpickle_refused')
    try:
        parts.append(('deepcopy', copy.deepcopy(view)))
        col.probe('deepcopy_scan')
    except Exception:
        col.probe('deepcopy_refused')
    try:
        parts.append(('copy', copy.copy(view)))
    except Exception:
        pass
    return parts


def render_forms(col, obj, forms=('repr', 'str', 'as_dict', 'as_json', 'info', 'wif_default')):
    """-> {form: rendered value} of the DEFAULT rendering calls; a raising call is a refusal (nothing is shown)."""
    out = {}
    for form in forms:
        try:
            if form == 'repr':
                val = repr(obj)
            elif form == 'str':
                val = str(obj)
            elif form == 'as_dict':
                if not hasattr(obj, 'as_dict'):
                    continue
                val = obj.as_dict()
            elif form == 'as_json':
                if not hasattr(obj, 'as_json'):
                    continue
                val = obj.as_json()
            elif form == 'info':
                if not hasattr(obj, 'info'):
                    continue
                val = capture(obj.info)
            elif form == 'wif_default':
                # HDKey.wif(is_private=None) has an explicit privacy switch: only its default is a default export
                if not hasattr(obj, 'wif_public'):
                    continue
                val = obj.wif()
            elif form == 'export':
                if not hasattr(obj, 'export'):
                    continue
                val = obj.export()
            else:
                continue
        except Exception as e:
            refused(col, '%s_refused' % form, '%s.%s' % (type(obj).__name__, form), e)
            continue
        out[form] = val
    return out


def scan_rendered(col, taint, rendered):
    """-> {form: (hits, rendered)}"""
    out = {}
    for form, val in rendered.items():
        col.probe('%s_scan' % form)
        out[form] = (_tag(scan_graph(taint, val)[0], form), val)
    return out


def text_forms(col, taint, obj, forms=('repr', 'str', 'as_dict', 'as_json', 'info', 'wif_default')):
    return scan_rendered(col, taint, render_forms(col, obj, forms))


def _summ(hits):
    return sorted({'%s:%s:%s@%s' % (h['where'], h['enc'], h['label'], h['path']) for h in hits})[:12]


# ---- classifiers (narrow predicates / ablations)
def classify_keyview_object(view, hits, taint):
    """K_WIF_CACHE: the only tainted state of the view is its own attribute `_wif` holding a WIF of the secret;
    with that single attribute cleared the view (graph, pickle, copies) is clean."""
    w = getattr(view, '__dict__', {}).get('_wif')
    if not isinstance(w, str) or not hits:
        return None
    d = chain.wif_decode(w)
    if d is None or d[1] not in taint.raws:
        return None
    if not all(h['enc'].startswith('wif-') for h in hits):
        return None
    if not all(h['path'] == '$._wif' or (h.get('where') == 'pickle' and h['path'] == '$') for h in hits):
        return None
    try:
        c = copy.copy(view)
        c._wif = None
        rest = scan_graph(taint, c)[0] + [1 for _ in taint.scan_bytes(pickle.dumps(c))] + scan_graph(taint, copy.deepcopy(c))[0]
    except Exception:
        return None
    return K_WIF_CACHE if not rest else None


_INFO_PRIV_LABELS = (' Private Key (hex) ', ' Private Key (long) ', ' Private Key (wif) ', ' Extended Private Key (wif) ')


def classify_private_info(obj, text, taint):
    """K_INFO_PRIV: info() of a PRIVATE Key/HDKey prints its labelled SECRET EXPONENT / extended private lines
    and nothing private anywhere else."""
    if not getattr(obj, 'is_private', False) or 'SECRET EXPONENT' not in text:
        return None
    rest = '\n'.join(l for l in text.splitlines() if not l.startswith(_INFO_PRIV_LABELS))
    if rest == text:
        return None
    return K_INFO_PRIV if not taint.scan_text(rest) else None


_WK_REPR = re.compile(r"^<WalletKey\(key_id=\d+, name=.*, wif=([1-9A-HJ-NP-Za-km-z]+), path=[^,]*\)>$", re.S)
_DBKEY_REPR = re.compile(r"^<DbKey\(id='\d+', name='.*', wif='([1-9A-HJ-NP-Za-km-z]+)'>$", re.S)


def classify_repr_wif_field(text, taint, rx, key):
    """repr shows the row's private WIF in its `wif=` field and nothing private elsewhere."""
    m = rx.match(text)
    if not m or not taint.scan_text(m.group(1)):
        return None
    rest = text[:m.start(1)] + text[m.end(1):]
    return key if not taint.scan_text(rest) else None


def report(col, key, what, case, view, form, hits, expected='no encoding of any secret of the case'):
    c = dict(case)
    c['view'] = view
    c['form'] = form
    col.violation(key, '%s leaks private key material (%s)' % (what, ', '.join(sorted({h['enc'] for h in hits}))[:200]),
                  c, _summ(hits), expected)


def check_public_view(col, taint, case, view, vname):
    """Full scan of something the library presents as public."""
    parts = object_parts(col, view)
    rendered = render_forms(col, view)
    for form, val in rendered.items():
        col.probe('%s_scan' % form)
        parts.append((form, val))
    col.probe('graph_scan')
    parts.append(('graph-after-calls', view))
    res, walks = scan_parts(taint, parts)
    for where, w in walks:
        if w.truncated:
            col.note_inconclusive('object graph walk truncated at %d nodes' % w.nodes)
    hits = [h for where in OBJECT_FORMS for h in res.get(where, [])]
    if hits:
        report(col, classify_keyview_object(view, hits, taint), '%s object state' % vname, case, vname, 'object', hits)
    bad = bool(hits)
    for form in rendered:
        if res.get(form):
            bad = True
            report(col, None, '%s.%s' % (vname, form), case, vname, form, res[form])
    return bad


def check_default_forms(col, taint, case, obj, oname, forms=('repr', 'str', 'as_dict', 'as_json', 'info', 'wif_default'), keyer=None):
    """Default rendering of a (possibly private) object."""
    rendered = render_forms(col, obj, forms)
    for form in rendered:
        col.probe('%s_scan' % form)
    res, _ = scan_parts(taint, list(rendered.items()))
    for form, val in rendered.items():
        if res.get(form):
            key = keyer(obj, form, val, taint) if keyer else None
            report(col, key, 'default %s of %s' % (form, oname), case, oname, form, res[form])
    return rendered


def key_default_keyer(obj, form, val, taint):
    if form == 'info' and isinstance(val, str):
        return classify_private_info(obj, val, taint)
    return None


# ------------------------------------------------------------------ optional-argument sweep of public-view methods
# Optional parameters are read from the live signatures (inspect.signature), so an argument added later is picked up; a
# parameter name without an entry below cannot be exercised and makes the run INCONCLUSIVE instead of silently unscanned.
PRIVACY_FLAGS = {'is_private': (None, False), 'include_private': (False,), 'as_private': (False,), 'private': (False,)}


def _ver(network, wt, ms, private=False):
    try:
        return chain.hd_prefix(network, wt, ms, private)
    except Exception:
        return None


def _hd_version_values(obj):
    net = obj.network.name
    vals = [None]
    for wt, ms in (('legacy', False), ('segwit', False), ('p2sh-segwit', False), ('segwit', True), ('p2sh-segwit', True)):
        v = _ver(net, wt, ms)
        if v and v not in vals:
            vals.append(v)
    vals.append(bytes.fromhex('0488b21e'))
    vals.append('04b24746')          # SLIP-132 zpub as hex string
    vals.append('049d7cb2')          # ypub
    return [v for i, v in enumerate(vals) if v not in vals[:i]]


ARG_VALUES = {
    # (method name or None, parameter name) -> values or callable(obj) -> values
    ('wif', 'prefix'): _hd_version_values,
    ('wif_public', 'prefix'): _hd_version_values,
    ('address', 'prefix'): lambda o: [None, b'\x00', '05', o.network.prefix_address],
    ('address_uncompressed', 'prefix'): lambda o: [None, b'\x00', '05'],
    (None, 'witness_type'): [None, 'legacy', 'p2sh-segwit', 'segwit'],
    (None, 'multisig'): [None, False, True],
    (None, 'child_index'): [None, 7],
    (None, 'compressed'): [None, True, False],
    (None, 'script_type'): [None, 'p2pkh', 'p2sh', 'p2wpkh', 'p2wsh'],
    (None, 'encoding'): [None, 'base58', 'bech32'],
    (None, 'account_id'): lambda o: [None, 0, 1] if hasattr(o, 'wallet_id') else [0, 1],     # HDKey.public_master needs a number
    (None, 'purpose'): [None, 44, 49, 84],
    (None, 'network'): lambda o: [None, getattr(o.network, 'name', None)],
    (None, 'index'): [0, 1, 5],
    (None, 'name'): [None, 'c16 name'],
    (None, 'detail'): [0, 1, 2, 3, 4, 5],
    (None, 'as_string'): [False, True],
    (None, 'as_dict'): [True],
    # Wallet.keys filters (is_private is a row filter there, handled in WALLET_KEYS_FILTERS)
    (None, 'key_id'): [None],
    (None, 'change'): [None, 0, 1],
    (None, 'depth'): [None, 0, 3, 5],
    (None, 'used'): [None, False],
    (None, 'has_balance'): [None, False],
    (None, 'is_active'): [None, False],
}
EXPENSIVE = {'public_master': 14, 'public_master_multisig': 10, 'info': 8, 'keys': 40}


def optional_arg_table(col, obj, mname, fn, overrides=None):
    """-> {parameter: values} for every optional parameter of the live signature."""
    table = {}
    for prm in inspect.signature(fn).parameters.values():
        if prm.default is inspect.Parameter.empty or prm.kind not in (prm.POSITIONAL_OR_KEYWORD, prm.KEYWORD_ONLY):
            continue
        if overrides and prm.name in overrides:
            vals = overrides[prm.name]
        elif prm.name in PRIVACY_FLAGS:
            vals = PRIVACY_FLAGS[prm.name]
        else:
            vals = ARG_VALUES.get((mname, prm.name), ARG_VALUES.get((None, prm.name)))
            if callable(vals):
                vals = vals(obj)
        if vals is None:
            col.note_inconclusive('optional argument %s of %s.%s has no value table in C16: it was not exercised'
                                  % (prm.name, type(obj).__name__, mname))
            continue
        table[prm.name] = list(vals)
    return table


def arg_combinations(table, cap, tag):
    """{} + every single argument value + every pair of argument values (deterministically thinned to `cap`)."""
    names = sorted(table)
    combos = [{}]
    for n in names:
        combos += [{n: v} for v in table[n]]
    pairs = []
    for a, b in itertools.combinations(names, 2):
        pairs += [{a: va, b: vb} for va in table[a] for vb in table[b]]
    if len(combos) + len(pairs) > cap:
        random.Random('C16-args-%s' % tag).shuffle(pairs)
        pairs = pairs[:max(0, cap - len(combos))]
    return combos + pairs


def _kw_label(kw):
    return ', '.join('%s=%s' % (k, (v.hex() if isinstance(v, bytes) else repr(v))) for k, v in sorted(kw.items()))


def sweep_public_methods(col, taint, case, obj, oname, methods, fresh=None, overrides=None, fixed=None):
    """Call every listed public-view method of obj with its optional arguments varied (privacy switches only at their
    public values) and scan what comes back.  `fresh()` gives a pristine copy per call for methods that change the object."""
    n_viol = 0
    for mname in methods:
        fn0 = getattr(obj, mname, None)
        if fn0 is None:
            continue
        table = optional_arg_table(col, obj, mname, fn0, (overrides or {}).get(mname))
        fix = (fixed or {}).get(mname, {})        # arguments that select the public form of the method (e.g. keys(as_dict=True))
        for n in fix:
            table.pop(n, None)
        combos = [dict(c, **fix) for c in arg_combinations(table, EXPENSIVE.get(mname, 90), '%s.%s' % (type(obj).__name__, mname))]
        parts = []
        for kw in combos:
            target = fresh() if fresh else obj
            try:
                if mname == 'info':
                    val = capture(getattr(target, mname), **kw)
                else:
                    val = getattr(target, mname)(**kw)
                col.probe('optarg_call')
            except Exception as e:
                refused(col, 'optarg_call_refused', '%s.%s(%s)' % (type(obj).__name__, mname, ', '.join(sorted(kw))), e)
                continue
            parts.append(('%s(%s)' % (mname, _kw_label(kw)), val))
        if not parts:
            continue
        col.probe('optarg_scan')
        col.probe('optarg_scan/%s.%s' % (type(obj).__name__, mname))
        res, _ = scan_parts(taint, parts)
        for where, hits in res.items():
            if hits:
                n_viol += 1
                if n_viol <= 6:
                    report(col, None, '%s.%s' % (oname, where), case, oname, where, hits)
    return n_viol


KEY_VIEW_METHODS = ('public', 'as_dict', 'as_json', 'address', 'address_uncompressed', 'as_hex', 'as_bytes')
HD_VIEW_METHODS = ('wif', 'wif_public', 'public', 'public_master', 'public_master_multisig', 'child_public', 'as_dict', 'as_json',
                   'address', 'address_uncompressed', 'as_hex', 'as_bytes')


# ------------------------------------------------------------------ key cases
KEY_NETWORKS = ['bitcoin', 'testnet', 'litecoin', 'bitcoinlib_test', 'dogecoin', 'regtest', 'litecoin_testnet']
TXID = bytes.fromhex('9f3c1e5a7b2d4c6e8f0a1b3c5d7e9f00112233445566778899aabbccddeeff10')


def _tx_sign(k, ctx):
    from bitcoinlib.transactions import Transaction
    t = Transaction(network=k.network.name, witness_type='segwit' if getattr(k, 'witness_type', 'legacy') == 'segwit' else 'legacy')
    t.add_input(TXID, 0, keys=k.public_hex, value=120000, compressed=k.compressed)
    t.add_output(100000, k.address())
    t.sign(k)
    ctx.setdefault('txs', []).append(t)


def _sig(k, ctx):
    from bitcoinlib.keys import sign
    ctx.setdefault('sigs', []).append(sign(TXID, k))


KEY_OPS = {
    'wif': lambda k, c: k.wif(),
    'wif_prefix': lambda k, c: k.wif(prefix=b'\xef' if k.network.prefix_wif != b'\xef' else b'\x80'),
    'address': lambda k, c: k.address(),
    'address_uncompressed': lambda k, c: k.address_uncompressed(),
    'as_dict_private': lambda k, c: k.as_dict(include_private=True),
    'as_json_private': lambda k, c: k.as_json(include_private=True),
    'as_dict': lambda k, c: k.as_dict(),
    'info': lambda k, c: capture(k.info),
    'encrypt': lambda k, c: k.encrypt('correct horse'),
    'sign': _sig,
    'tx_sign': _tx_sign,
    'hash160': lambda k, c: k.hash160,
    'public_bytes': lambda k, c: (k.public_byte, k.public_uncompressed_byte, k.public_point(), bytes(k)),
    'int_hash_eq': lambda k, c: (int(k), hash(k), k == copy.copy(k)),
    'public': lambda k, c: k.public(),
}
HD_OPS = dict(KEY_OPS)
HD_OPS.update({
    'wif': lambda k, c: k.wif(),                       # HDKey.wif() defaults to the public extended key
    'wif_is_private': lambda k, c: k.wif(is_private=True),
    'wif_private': lambda k, c: k.wif_private(),
    'wif_key': lambda k, c: k.wif_key(),
    'wif_prefix': lambda k, c: k.wif_key(prefix=b'\xef' if k.network.prefix_wif != b'\xef' else b'\x80'),
    'wif_public': lambda k, c: k.wif_public(),
    'public_master': lambda k, c: k.public_master(),
    'public_master_multisig': lambda k, c: k.public_master_multisig(),
    'public_master_as_private': lambda k, c: k.public_master(as_private=True),
    'child_private': lambda k, c: (k.child_private(0), k.child_private(0, hardened=True)),
    'child_public': lambda k, c: k.child_public(0),
    'subkey_for_path': lambda k, c: k.subkey_for_path("m/0'/1"),
    'fingerprint_repr': lambda k, c: (k.fingerprint, repr(k)),
})
KEY_OP_NAMES = sorted(KEY_OPS)
HD_OP_NAMES = sorted(HD_OPS)
WIF_CACHING_OPS = {'wif', 'wif_prefix', 'as_dict_private', 'as_json_private', 'info', 'wif_key'}


def _hd_rel_paths(network):
    """Relative paths the library may derive below an HDKey during the history ops / public_master."""
    H = bip32.HARD
    coin = chain.NETWORKS[network]['bip44_cointype']
    paths = {(), (0,), (H,), (H, 1)}
    for purpose in (44, 49, 84, 86):
        paths |= {(purpose + H,), (purpose + H, coin + H), (purpose + H, coin + H, H), (purpose + H, coin + H, H + 1)}
    paths |= {(45 + H,)}
    for st in (1, 2):
        paths |= {(48 + H,), (48 + H, coin + H), (48 + H, coin + H, H), (48 + H, coin + H, H, st + H),
                  (48 + H, coin + H, H + 1), (48 + H, coin + H, H + 1, st + H)}
    return sorted(paths)


_taint_cache = {}


def key_taint(case):
    """Taint set of a key case + reference description of the object.  Cached per key identity."""
    ident = (case['cls'], case['how'], case.get('secret'), case.get('seed'), case.get('path'), case['network'])
    if ident in _taint_cache:
        return _taint_cache[ident]
    t = Taint()
    if case['cls'] == 'Key':
        secret = int(case['secret'], 16)
        t.add('key', secret)
        res = (t, secret, None)
    else:
        if case['how'] in ('seed', 'xprv', 'from_wif'):
            xk = bip32.derive(bip32.master(bytes.fromhex(case['seed'])), bip32.parse_path(case.get('path') or 'm'))
        else:
            secret = int(case['secret'], 16)
            xk = bip32.XKey(secret, ec.mul_g(secret), b'\0' * 32)
        t.add('key', xk.secret, xk)
        for rel in _hd_rel_paths(case['network']):
            if not rel:
                continue
            try:
                c = bip32.derive(xk, list(rel))
            except ValueError:
                continue
            t.add('child/' + '/'.join(str(i - bip32.HARD) + "'" if i >= bip32.HARD else str(i) for i in rel), c.secret, c)
        res = (t, xk.secret, xk)
    if len(_taint_cache) > 64:
        _taint_cache.clear()
    _taint_cache[ident] = res
    return res


def make_key(case):
    """Build the private library object described by the case (inputs are produced by the references)."""
    from bitcoinlib.keys import Key, HDKey
    net = case['network']
    comp = case.get('compressed', True)
    how = case['how']
    if case['cls'] == 'Key':
        raw = bytes.fromhex(case['secret'])
        if how == 'hex':
            return Key(raw.hex(), network=net, compressed=comp)
        if how == 'int':
            return Key(int.from_bytes(raw, 'big'), network=net, compressed=comp)
        if how == 'bytes':
            return Key(raw, network=net, compressed=comp)
        if how == 'wif':
            return Key(chain.wif_encode(net, raw, comp), network=net)
        raise ValueError(how)
    wt = case.get('witness_type', 'segwit')
    ms = case.get('multisig', False)
    if how == 'seed':
        return HDKey.from_seed(bytes.fromhex(case['seed']), network=net, witness_type=wt, multisig=ms)
    if how in ('xprv', 'from_wif'):
        xk = bip32.derive(bip32.master(bytes.fromhex(case['seed'])), bip32.parse_path(case.get('path') or 'm'))
        s = xk.serialize(chain.hd_prefix(net, wt, ms, True))
        if how == 'xprv':
            return HDKey(s, network=net)
        return HDKey.from_wif(s, network=net)
    if how == 'hexkey':
        return HDKey(case['secret'], network=net, witness_type=wt, multisig=ms, compressed=comp)
    raise ValueError(how)


def scanner_selfcheck(col):
    """The scanner must see the secret where it certainly is (private object, its pickle, include_private exports)."""
    case = {'cls': 'HDKey', 'how': 'seed', 'seed': '000102030405060708090a0b0c0d0e0f', 'network': 'bitcoin', 'witness_type': 'legacy',
            'history': []}
    taint, secret, xk = key_taint(case)
    k = make_key(case)
    ok = True
    g = {h['enc'] for h in scan_graph(taint, k)[0]}
    ok &= {'int', 'hex', 'raw32-be'} <= g
    ok &= any(e == 'raw32-be' for e, _ in taint.scan_bytes(pickle.dumps(k)))
    d = {h['enc'] for h in scan_graph(taint, k.as_dict(include_private=True))[0]}
    ok &= 'extkey-0488ade4' in d
    j = {h['enc'] for h in scan_graph(taint, capture(k.info))[0]}
    ok &= {'hex', 'decimal', 'wif-80-c', 'extkey-0488ade4'} <= j
    ok &= any(e == 'base58-payload' for e, _ in taint.scan_text('x ' + codec.b58check_encode(b'\x42' + secret.to_bytes(32, 'big') + b'zz') + ' y'))
    ok &= any(h['label'].startswith('child/44') for h in scan_graph(taint, k.public_master(as_private=True, witness_type='legacy'))[0])
    ok &= not scan_graph(taint, k.wif_public())[0] and not taint.scan_bytes(bytes(k))
    col.probe('scanner_selfcheck')
    if not ok:
        col.note_inconclusive('taint scanner self-check failed (scanner is blind or over-eager)')
    return ok


def run_key_case(case, col):
    from bitcoinlib.keys import HDKey
    taint, secret, xk = key_taint(case)
    try:
        k = make_key(case)
    except Exception as e:
        col.probe('construct_refused')
        return
    if k.secret != secret:
        col.note_inconclusive('harness/reference disagree on the secret of %r' % (case,))
        return
    hist = list(case['history'])
    ops = HD_OPS if case['cls'] == 'HDKey' else KEY_OPS
    ctx = {}
    for name in hist:
        try:
            ops[name](k, ctx)
            col.probe('history_op')
        except Exception as e:
            refused(col, 'history_op_refused', '%s history %s' % (case['cls'], name), e)
    fmt = '%s/%s' % (case['cls'], case['how'])
    ident = (case['cls'], case['how'], case['network'], bool(case.get('compressed', True)), case.get('witness_type'), tuple(hist))
    views = [('public()', lambda: k.public())]
    if case['cls'] == 'HDKey':
        views.append(('public_master()', lambda: k.public_master()))
        if case.get('more_views'):
            views.append(('public_master_multisig()', lambda: k.public_master_multisig()))
            views.append(('child_public(0)', lambda: k.child_public(0)))
    for vname, mk in views:
        try:
            v = mk()
        except Exception as e:
            refused(col, 'view_refused', '%s.%s' % (case['cls'], vname), e)
            continue
        col.case('%s/%s/hist%d' % (fmt, vname, len(hist)), nontrivial=ident + (vname,),
                 sample=dict(case, view=vname))
        check_public_view(col, taint, case, v, '%s.%s' % (case['cls'], vname))
        try:
            ao = getattr(v, '_address_obj', None) or (v.address() and v._address_obj)
        except Exception:
            ao = None
        if ao is not None:
            check_public_view(col, taint, case, ao, '%s.%s.address_obj' % (case['cls'], vname))
    # default forms of the private object itself, after the history
    col.case('%s/default-forms/hist%d' % (fmt, len(hist)), nontrivial=ident + ('defaults',), sample=dict(case, view='defaults'))
    check_default_forms(col, taint, case, k, 'private %s' % case['cls'], keyer=key_default_keyer)
    if case.get('sweep'):
        col.case('%s/optional-args/hist%d' % (fmt, len(hist)), nontrivial=ident + ('optargs',), sample=dict(case, view='optional-argument sweep'))
        methods = HD_VIEW_METHODS if case['cls'] == 'HDKey' else KEY_VIEW_METHODS
        sweep_public_methods(col, taint, case, k, 'private %s' % case['cls'], methods, fresh=lambda: copy.deepcopy(k))
        try:
            pv = k.public()
            sweep_public_methods(col, taint, case, pv, '%s.public()' % case['cls'], [m for m in methods if not m.startswith('public_master')],
                                 fresh=lambda: copy.deepcopy(pv))
        except Exception as e:
            refused(col, 'view_refused', '%s.public() for sweep' % case['cls'], e)
    for t in ctx.get('txs', [])[:2]:
        col.probe('tx_default_forms')
        check_default_forms(col, taint, case, t, 'signed Transaction')
        for i in t.inputs[:2]:
            check_default_forms(col, taint, case, i, 'Transaction.Input', forms=('repr', 'str', 'as_dict'))
        for o in t.outputs[:2]:
            check_default_forms(col, taint, case, o, 'Transaction.Output', forms=('repr', 'str', 'as_dict'))
    for s in ctx.get('sigs', [])[:1]:
        check_default_forms(col, taint, case, s, 'Signature', forms=('repr', 'str'))


def gen_secret(rnd):
    r = rnd.random()
    if r < 0.1:
        return rnd.randrange(2 ** 240, 2 ** 248)          # leading zero byte
    if r < 0.15:
        return rnd.randrange(2 ** 232, 2 ** 240)          # two leading zero bytes
    if r < 0.2:
        return (rnd.randrange(2 ** 247, 2 ** 248) << 8) | 1   # ends in 0x01
    return rnd.randrange(2 ** 248, ec.N)


def gen_key_case(rnd, cls=None):
    cls = cls or rnd.choice(['Key', 'HDKey'])
    net = rnd.choice(KEY_NETWORKS)
    if cls == 'Key':
        case = {'kind': 'key', 'cls': 'Key', 'how': rnd.choice(['hex', 'int', 'bytes', 'wif']), 'network': net,
                'secret': '%064x' % gen_secret(rnd), 'compressed': rnd.random() < 0.7}
        if case['how'] == 'wif' and case['secret'].endswith('01'):
            case['compressed'] = True      # uncompressed WIF of a secret ending in 01 is mis-imported (property C12, not judged here)
        return case
    how = rnd.choice(['seed', 'seed', 'xprv', 'from_wif', 'hexkey'])
    wts = sorted(chain.NETWORKS[net]['hd'])
    case = {'kind': 'key', 'cls': 'HDKey', 'how': how, 'network': net, 'witness_type': rnd.choice(wts), 'multisig': rnd.random() < 0.2}
    if how == 'hexkey':
        case['secret'] = '%064x' % gen_secret(rnd)
        case['compressed'] = True
    else:
        case['seed'] = rnd.randbytes(rnd.choice([16, 32, 64])).hex()
        case['path'] = rnd.choice(['m', 'm', 'm', "m/0'", "m/84'/0'/0'", "m/44'/1'/0'/0/5"]) if how != 'seed' else 'm'
    return case


# ------------------------------------------------------------------ wallet cases
WALLET_NETS = ['bitcoinlib_test', 'bitcoin', 'testnet', 'litecoin', 'bitcoinlib_test']
_uniq = itertools.count(1)


def _db_uri(path):
    return 'sqlite:///' + path


def _close_wallet(w):
    for x in list(getattr(w, 'cosigner', []) or []) + [w]:
        try:
            x.session.close()
        except Exception:
            pass
        try:
            if x._engine is not None:
                x._engine.dispose()
        except Exception:
            pass


def _close_all():
    try:
        from sqlalchemy.orm import session as sa_session
        sa_session.close_all_sessions()
    except Exception:
        pass
    gc.collect()


class Deriver:
    """Reference derivation with prefix cache: (seed, path tuple) -> XKey."""

    def __init__(self):
        self.cache = {}

    def get(self, seed, path):
        key = (seed, tuple(path))
        if key in self.cache:
            return self.cache[key]
        if not path:
            x = bip32.master(seed)
        else:
            x = bip32.ckd_priv(self.get(seed, path[:-1]), path[-1])
        self.cache[key] = x
        return x


def read_key_rows(db_path):
    con = sqlite3.connect('file:%s?mode=ro' % db_path, uri=True)
    try:
        rows = con.execute('SELECT id, wallet_id, path, public, is_private, key_type, depth FROM keys').fetchall()
    finally:
        con.close()
    return rows


def wallet_taint(col, db_path, seeds, singles, taint=None, deriver=None):
    """Taint set = every private key row of the database, derived by the reference from the harness seeds (matched on
    the row's public key), plus every key on the way from the master to it, plus the single / imported secrets."""
    taint = taint or Taint()
    deriver = deriver or Deriver()
    for i, s in enumerate(singles):
        taint.add('single%d' % i, s, bip32.XKey(s, ec.mul_g(s), b'\0' * 32))
    single_pubs = {ec.encode_pub(ec.mul_g(s), True) for s in singles} | {ec.encode_pub(ec.mul_g(s), False) for s in singles}
    unresolved = 0
    n_priv = 0
    for rid, wid, path, public, is_private, key_type, depth in read_key_rows(db_path):
        if not public:
            continue
        public = bytes(public)
        if public in single_pubs:
            n_priv += bool(is_private)
            continue
        try:
            p = bip32.parse_path(path or 'm')
        except Exception:
            p = None
        found = False
        if p is not None:
            for si, root in enumerate(seeds):
                # a root is a seed, or (seed, base path) when the wallet was created from a key below the master: the
                # library then stores paths relative to that key ('M/0/0')
                seed, base = root if isinstance(root, tuple) else (root, ())
                full = list(base) + list(p)
                try:
                    x = deriver.get(seed, full)
                except ValueError:
                    continue
                if ec.encode_pub(x.point, len(public) == 33) == public:
                    for j in range(len(full) + 1):
                        a = deriver.get(seed, full[:j])
                        taint.add('seed%d:%s' % (si, '/'.join(['m'] + [(str(i - bip32.HARD) + "'") if i >= bip32.HARD else str(i) for i in full[:j]])), a.secret, a)
                    found = True
                    break
        if is_private:
            n_priv += 1
            if not found:
                unresolved += 1
    if unresolved:
        col.note_inconclusive('%d private key rows could not be re-derived by the reference: taint set incomplete' % unresolved)
    return taint, n_priv


def account_path(network, witness_type, multisig):
    """Path of the account-level key (the 'public master' level) the library uses for this kind of wallet."""
    H = bip32.HARD
    coin = chain.NETWORKS[network]['bip44_cointype']
    if not multisig:
        return [{'legacy': 44, 'p2sh-segwit': 49, 'segwit': 84}[witness_type] + H, coin + H, H]
    if witness_type == 'legacy':
        return [45 + H]
    return [48 + H, coin + H, H, (1 if witness_type == 'p2sh-segwit' else 2) + H]


ACCOUNT_WTYPES = ('hd_account', 'watch_account', 'multisig_account')


def make_wallet(case, db_path, name):
    """Create the wallet of a case from reference-produced key strings: master private key, ACCOUNT-level private
    extended key, account-level public key (watch-only), single private key, multisig from a master key or from
    account-level keys."""
    from bitcoinlib.wallets import Wallet
    from bitcoinlib.keys import HDKey
    net, wt = case['network'], case['witness_type']
    seed = bytes.fromhex(case['seed'])
    uri = _db_uri(db_path)
    if case['wtype'] == 'hd':
        xprv = bip32.master(seed).serialize(chain.hd_prefix(net, wt, False, True))
        return Wallet.create(name, keys=xprv, network=net, witness_type=wt, db_uri=uri, anti_fee_sniping=False)
    if case['wtype'] in ('hd_account', 'watch_account'):
        acc = bip32.derive(bip32.master(seed), account_path(net, wt, False))
        private = case['wtype'] == 'hd_account'
        key = acc.serialize(chain.hd_prefix(net, wt, False, private), private=private)
        return Wallet.create(name, keys=key, network=net, witness_type=wt, db_uri=uri, anti_fee_sniping=False)
    if case['wtype'] == 'single':
        secret = int(case['single_secret'], 16)
        wif = chain.wif_encode(net, secret.to_bytes(32, 'big'), True)
        return Wallet.create(name, keys=HDKey(wif, network=net, witness_type=wt), network=net, witness_type=wt, scheme='single',
                             db_uri=uri, anti_fee_sniping=False)
    if case['wtype'] == 'multisig':
        own = HDKey.from_seed(seed, network=net, witness_type=wt, multisig=True)
        keys = [own]
        for cs in case['cosigner_seeds']:
            keys.append(HDKey.from_seed(bytes.fromhex(cs), network=net, witness_type=wt, multisig=True).public_master_multisig())
        return Wallet.create(name, keys=keys, sigs_required=case.get('sigs_required', 2), network=net, witness_type=wt, db_uri=uri,
                             anti_fee_sniping=False)
    if case['wtype'] == 'multisig_account':
        ap = account_path(net, wt, True)
        keys = [bip32.derive(bip32.master(seed), ap).serialize(chain.hd_prefix(net, wt, True, True), private=True)]
        for cs in case['cosigner_seeds']:
            keys.append(bip32.derive(bip32.master(bytes.fromhex(cs)), ap).serialize(chain.hd_prefix(net, wt, True, False), private=False))
        return Wallet.create(name, keys=keys, sigs_required=case.get('sigs_required', 2), network=net, witness_type=wt, db_uri=uri,
                             anti_fee_sniping=False)
    raise ValueError(case['wtype'])


def _w_send(w, ctx):
    k = w.get_key()
    n = next(_uniq)
    w.utxo_add(k.address, 150000 + n, '%064x' % (0xabc0000 + n), 0)
    to = w.get_key(change=1).address
    t = w.send_to(to, 40000 + n, fee=3000, broadcast=(w.network.name == 'bitcoinlib_test'), min_confirms=0)
    if ctx.get('store'):
        try:
            t.store()
        except Exception:
            pass
    # The default forms are rendered now and the object is released: a live WalletTransaction keeps ORM rows alive whose
    # instance state Wallet.utxos()/transactions(as_dict=True)/info() strip, which breaks later queries of that session
    # (a robustness problem of the library outside this property).
    col = ctx['col']
    forms = [('WalletTransaction', render_forms(col, t, ('repr', 'str', 'as_dict', 'as_json', 'info', 'export')))]
    for i in t.inputs[:2]:
        forms.append(('WalletTransaction.Input', render_forms(col, i, ('repr', 'str', 'as_dict'))))
    for o in t.outputs[:2]:
        forms.append(('WalletTransaction.Output', render_forms(col, o, ('repr', 'str', 'as_dict'))))
    ctx.setdefault('tx_forms', []).append(forms)
    del t
    gc.collect()


def _w_import(w, ctx):
    s = ctx['import_secret']
    w.import_key(chain.wif_encode(w.network.name, s.to_bytes(32, 'big'), True))
    ctx['imported'] = True


def _w_reopen(w, ctx):
    from bitcoinlib.wallets import Wallet
    ctx['reopened'] = Wallet(w.name, db_uri=w.db_uri)


W_OPS = {
    'get_key': lambda w, c: w.get_key(),
    'new_key': lambda w, c: w.new_key(),
    'new_key_change': lambda w, c: w.new_key_change(),
    'new_account': lambda w, c: w.new_account(),
    'wif_private': lambda w, c: w.wif(is_private=True),
    'public_master_as_private': lambda w, c: w.public_master(as_private=True),
    'as_dict_private': lambda w, c: w.as_dict(include_private=True),
    'keys_private': lambda w, c: w.keys(include_private=True, as_dict=True),
    'info': lambda w, c: capture(w.info),
    'send': _w_send,
    'main_key_private_calls': lambda w, c: [(x.main_key.key().wif_key(), x.main_key.key().wif_private(), x.main_key.as_dict(include_private=True))
                                             for x in [w] + list(w.cosigner or []) if x.main_key and x.main_key.is_private],
    'key_objects': lambda w, c: [w.key(r.id).key() for r in w.keys()[:4]],
    'import_key': _w_import,
    'balance': lambda w, c: w.balance(),
    'reopen': _w_reopen,
}
W_OP_NAMES = sorted(W_OPS)


def run_wallet_history(w, case, ctx, col):
    for name in case['history']:
        try:
            W_OPS[name](w, ctx)
            col.probe('wallet_history_op')
        except Exception as e:
            refused(col, 'wallet_history_op_refused', '%s wallet history %s' % (case['wtype'], name), e)
        if ctx.get('reopened') is not None:
            w = ctx.pop('reopened')
    return w


def _is_repr_form(obj, form):
    # str() of a class without __str__ is its __repr__: same mechanism, same text
    return form == 'repr' or (form == 'str' and type(obj).__str__ is object.__str__)


def walletkey_keyer(obj, form, val, taint):
    if _is_repr_form(obj, form) and isinstance(val, str) and getattr(obj, 'is_private', False):
        return classify_repr_wif_field(val, taint, _WK_REPR, K_WK_REPR)
    return None


def dbkey_keyer(obj, form, val, taint):
    if _is_repr_form(obj, form) and isinstance(val, str) and getattr(obj, 'is_private', False):
        return classify_repr_wif_field(val, taint, _DBKEY_REPR, K_DBKEY_REPR)
    return None


def _wallet_secrets(case):
    seeds = [bytes.fromhex(case['seed'])] + [bytes.fromhex(s) for s in case.get('cosigner_seeds', [])]
    if case['wtype'] in ACCOUNT_WTYPES:
        base = tuple(account_path(case['network'], case['witness_type'], case['wtype'] == 'multisig_account'))
        seeds = [(sd, base) for sd in seeds]
    singles = []
    if case.get('single_secret'):
        singles.append(int(case['single_secret'], 16))
    if case.get('import_secret'):
        singles.append(int(case['import_secret'], 16))
    return seeds, singles


def scan_tx_forms(col, taint, case, ctx):
    for forms in ctx.get('tx_forms', [])[:4]:
        col.probe('tx_default_forms')
        for oname, rendered in forms:
            for form, (fh, val) in scan_rendered(col, taint, rendered).items():
                if fh:
                    report(col, None, 'default %s of %s' % (form, oname), case, oname, form, fh)


WALLET_VIEW_METHODS = ('wif', 'info', 'keys', 'as_dict', 'as_json', 'public_master')


def scan_wallet_exports(col, taint, case, ww, label):
    """Default / public exports of one Wallet object (the wallet itself or one of its cosigner wallets)."""
    check_default_forms(col, taint, case, ww, label)
    for ename, fn in (('wif()', lambda: ww.wif()), ('wif(is_private=False)', lambda: ww.wif(is_private=False))):
        try:
            val = fn()
        except Exception as e:
            refused(col, 'wallet_export_refused', '%s %s.%s' % (case['wtype'], label, ename), e)
            continue
        col.probe('wallet_export_scan')
        col.probe('wallet_wif_export_scan')
        h = _tag(scan_graph(taint, val)[0], ename)
        if h:
            report(col, None, '%s.%s' % (label, ename), case, label, ename, h)


def scan_public_master(col, taint, case, ww, label, cls, ident):
    try:
        pm = ww.public_master()
    except Exception as e:
        refused(col, 'view_refused', '%s %s.public_master()' % (case['wtype'], label), e)
        return
    for v in (pm if isinstance(pm, list) else ([pm] if pm is not None else [])):
        col.case('%s/%s.public_master()' % (cls, label), nontrivial=ident + (label, 'public_master'),
                 sample=dict(case, view='%s.public_master()' % label))
        check_public_view(col, taint, case, v, '%s.public_master()' % label)
        for sub, get in (('._hdkey_object', lambda: v._hdkey_object), ('.key()', lambda: v.key())):
            try:
                hk = get()
                if hk is not None and not isinstance(hk, list):
                    check_public_view(col, taint, case, hk, '%s.public_master()%s' % (label, sub))
            except Exception as e:
                refused(col, 'view_refused', '%s %s.public_master()%s' % (case['wtype'], label, sub), e)


def run_wallet_case(case, col):
    from bitcoinlib.wallets import Wallet, WalletKey
    ddir = os.environ.get('BCL_DATA_DIR') or '.'
    n = next(_uniq)
    db_path = os.path.join(ddir, 'c16-wallet-%d-%d.sqlite' % (os.getpid(), n))
    name = 'c16w%d' % n
    seeds, singles = _wallet_secrets(case)
    ctx = {'import_secret': singles[-1] if case.get('import_secret') else None, 'col': col}
    ident = (case['wtype'], case['network'], case['witness_type'], tuple(case['history']))
    try:
        w = make_wallet(case, db_path, name)
    except Exception as e:
        col.probe('wallet_create_refused')
        col.note_inconclusive('wallet case could not be created: %r %r' % (case, e))
        return
    try:
        w = run_wallet_history(w, case, ctx, col)
        taint, n_priv = wallet_taint(col, db_path, seeds, singles)
        col.probe('wallet_taint_secrets', len(taint.labels))
        cls = 'wallet/%s/%s/hist%d' % (case['wtype'], case['network'], len(case['history']))
        # ---- 1. default forms of the private wallet and of the objects it hands out
        col.case(cls + '/default-forms', nontrivial=ident + ('defaults',), sample=dict(case, view='defaults'))
        scan_tx_forms(col, taint, case, ctx)
        scan_wallet_exports(col, taint, case, w, 'Wallet')
        for label, fn in (('keys(as_dict=True)', lambda: w.keys(as_dict=True)),
                          ('keys_addresses(as_dict)', lambda: w.keys_addresses(as_dict=True)),
                          ('keys_accounts(as_dict)', lambda: w.keys_accounts(as_dict=True)),
                          ('keys_networks(as_dict)', lambda: w.keys_networks(as_dict=True)),
                          ('addresslist()', lambda: w.addresslist()),
                          ('accounts()', lambda: w.accounts()),
                          ('info(detail=5)', lambda: capture(w.info, 5))):
            try:
                val = fn()
            except Exception as e:
                refused(col, 'wallet_export_refused', '%s Wallet.%s' % (case['wtype'], label), e)
                continue
            col.probe('wallet_export_scan')
            h = _tag(scan_graph(taint, val)[0], label)
            if h:
                report(col, None, 'Wallet.%s' % label, case, 'private Wallet', label, h)
        row_ids = []
        for ww, wl in [(w, '')] + [(cw, 'cosigner ') for cw in (w.cosigner or [])]:
            if wl:
                scan_wallet_exports(col, taint, case, ww, 'cosigner Wallet')
            rows = ww.keys()
            ids = [r.id for r in rows]
            if not wl:
                row_ids = ids
            for r in rows[:12]:
                col.probe('dbkey_repr_scan')
                check_default_forms(col, taint, case, r, wl + 'DbKey row', forms=('repr', 'str'), keyer=dbkey_keyer)
            del rows
            wks = []
            if ww.main_key:
                wks.append(ww.main_key)
            for rid in ids[-3:]:
                try:
                    wks.append(ww.key(rid))
                except Exception as e:
                    refused(col, 'view_refused', '%s Wallet.key(id)' % case['wtype'], e)
            for wk in wks:
                col.probe('walletkey_default_scan')
                check_default_forms(col, taint, case, wk, wl + 'WalletKey', forms=('repr', 'str', 'as_dict'), keyer=walletkey_keyer)
            del wks
            if ww.main_key and ww.main_key.key_type != 'multisig' and ww.main_key.is_private:
                try:
                    check_default_forms(col, taint, case, ww.main_key.key(), 'private HDKey', keyer=key_default_keyer)
                except Exception as e:
                    refused(col, 'view_refused', 'main_key.key()', e)
        # ---- 2. public views (WalletKey.public() rewrites the wallet's own key object, so they come after the defaults)
        watch_keys = None
        try:
            watch_keys = w.wif(is_private=False)
        except Exception as e:
            refused(col, 'view_refused', '%s Wallet.wif(is_private=False)' % case['wtype'], e)
        scan_public_master(col, taint, case, w, 'Wallet', cls, ident)
        for rid in row_ids[-2:]:
            try:
                v = WalletKey(rid, w.session).public()
            except Exception as e:
                refused(col, 'view_refused', '%s WalletKey.public()' % case['wtype'], e)
                continue
            col.case(cls + '/WalletKey.public()', nontrivial=ident + ('walletkey_public',), sample=dict(case, view='WalletKey.public()'))
            check_public_view(col, taint, case, v, 'WalletKey.public()')
            if getattr(v, '_hdkey_object', None) is not None and not isinstance(v._hdkey_object, list):
                check_public_view(col, taint, case, v._hdkey_object, 'WalletKey.public()._hdkey_object')
        # ---- 3. exports that strip ORM instance state in place (utxos, transactions(as_dict), networks(as_dict)) go last
        for label, fn in (('networks(as_dict)', lambda: w.networks(as_dict=True)),
                          ('utxos()', lambda: w.utxos()),
                          ('transactions(as_dict)', lambda: w.transactions(as_dict=True)),
                          ('transactions_export()', lambda: w.transactions_export()),
                          ('transactions()', lambda: [render_forms(col, t, ('repr', 'str', 'as_dict', 'as_json', 'info')) for t in w.transactions()[:3]])):
            try:
                val = fn()
            except Exception as e:
                refused(col, 'wallet_export_refused', '%s Wallet.%s' % (case['wtype'], label), e)
                continue
            col.probe('wallet_export_scan')
            h = _tag(scan_graph(taint, val)[0], label)
            if h:
                report(col, None, 'Wallet.%s' % label, case, 'private Wallet', label, h)
        # ---- 3b. the same exports through a freshly opened handle (nothing cached by the history)
        try:
            wr = Wallet(name, db_uri=_db_uri(db_path))
        except Exception as e:
            refused(col, 'view_refused', '%s reopen' % case['wtype'], e)
            wr = None
        if wr is not None:
            col.case(cls + '/reopened-exports', nontrivial=ident + ('reopened',), sample=dict(case, view='reopened wallet exports'))
            col.probe('reopened_wallet_scan')
            try:
                for ww, wl in [(wr, 'reopened Wallet')] + [(cw, 'reopened cosigner Wallet') for cw in (wr.cosigner or [])]:
                    scan_wallet_exports(col, taint, case, ww, wl)
                    scan_public_master(col, taint, case, ww, wl, cls, ident)
                # optional arguments of the export methods (account_id, detail, key filters, witness_type, network ...)
                try:
                    wr.public_master(account_id=1)       # lets the account-1 keys exist before the taint set is rebuilt
                except Exception:
                    pass
                taint2, _ = wallet_taint(col, db_path, seeds, singles)
                col.case(cls + '/optional-args', nontrivial=ident + ('optargs',), sample=dict(case, view='optional-argument sweep'))
                for ww, wl in [(wr, 'reopened Wallet')] + [(cw, 'reopened cosigner Wallet') for cw in (wr.cosigner or [])]:
                    sweep_public_methods(col, taint2, case, ww, wl, WALLET_VIEW_METHODS if ww is wr else ('wif', 'public_master'),
                                         overrides={'keys': {'is_private': [None, True, False]}}, fixed={'keys': {'as_dict': True}})
            finally:
                _close_wallet(wr)
                del wr
        # ---- 4. watch-only wallet from the exported public key(s)
        if watch_keys:
            try:
                if isinstance(watch_keys, list):
                    w2 = Wallet.create(name + 'watch', keys=watch_keys, sigs_required=case.get('sigs_required', 2), cosigner_id=0,
                                       network=case['network'], witness_type=case['witness_type'], db_uri=_db_uri(db_path))
                elif case['wtype'] == 'single':
                    w2 = Wallet.create(name + 'watch', keys=watch_keys, network=case['network'], witness_type=case['witness_type'],
                                       scheme='single', db_uri=_db_uri(db_path))
                else:
                    w2 = Wallet.create(name + 'watch', keys=watch_keys, network=case['network'], witness_type=case['witness_type'],
                                       db_uri=_db_uri(db_path))
            except Exception as e:
                refused(col, 'watch_only_refused', '%s watch-only create' % case['wtype'], e)
                w2 = None
            if w2 is not None:
                col.case(cls + '/watch-only', nontrivial=ident + ('watch',), sample=dict(case, view='watch-only wallet'))
                try:
                    w2.get_key()
                    w2.new_key()
                except Exception:
                    pass
                check_public_view(col, taint, case, w2, 'watch-only Wallet')
                try:
                    for r in w2.keys()[:8]:
                        check_default_forms(col, taint, case, r, 'watch-only DbKey row', forms=('repr', 'str'))
                        h = _tag(scan_graph(taint, r)[0], 'graph')
                        col.probe('graph_scan')
                        if h:
                            report(col, None, 'watch-only DbKey row', case, 'watch-only Wallet', 'row', h)
                    if w2.main_key:
                        check_public_view(col, taint, case, w2.main_key, 'watch-only Wallet.main_key')
                except Exception as e:
                    refused(col, 'view_refused', '%s watch-only rows' % case['wtype'], e)
                _close_wallet(w2)
    finally:
        _close_wallet(w)
        _close_all()
        for suffix in ('', '-journal', '-wal', '-shm'):
            try:
                os.remove(db_path + suffix)
            except OSError:
                pass


def gen_wallet_case(rnd, wtype=None, maxhist=6):
    wtype = wtype or rnd.choice(['hd', 'hd', 'hd_account', 'hd_account', 'watch_account', 'single', 'multisig', 'multisig_account'])
    net = rnd.choice(WALLET_NETS)
    wts = sorted(chain.NETWORKS[net]['hd'])
    case = {'kind': 'wallet', 'wtype': wtype, 'network': net, 'witness_type': rnd.choice(wts), 'seed': rnd.randbytes(32).hex()}
    if wtype == 'single':
        case['single_secret'] = '%064x' % gen_secret(rnd)
    if wtype in ('multisig', 'multisig_account'):
        case['cosigner_seeds'] = [rnd.randbytes(32).hex() for _ in range(rnd.choice([1, 2]))]
        case['sigs_required'] = rnd.choice([1, 2])
    ops = [o for o in W_OP_NAMES if not (wtype != 'hd' and o in ('new_account', 'import_key'))]
    if wtype == 'single':
        ops = [o for o in ops if o not in ('new_key', 'new_key_change')]
    case['history'] = [rnd.choice(ops) for _ in range(rnd.randint(0, maxhist))]
    if 'import_key' in case['history']:
        case['import_secret'] = '%064x' % gen_secret(rnd)
    return case


# ------------------------------------------------------------------ at-rest cases
def scan_file(taint, path):
    with open(path, 'rb') as f:
        blob = f.read()
    return taint.scan_bytes(blob), len(blob)


def run_atrest_case(case, col):
    """Several wallets in one sqlite file; close everything; scan the raw file bytes."""
    mode = _atrest_mode(case)
    encrypted = mode != 'control'
    if not _env_matches_mode(mode):
        col.note_inconclusive('at-rest case of mode %s needs its own process environment' % mode)
        return
    import bitcoinlib.db as bdb
    import bitcoinlib.config.config as bcfg
    if ATREST_MODES[mode].get('config') and not bcfg.DATABASE_ENCRYPTION_ENABLED:
        col.note_inconclusive('mode %s: config.ini database_encryption_enabled was not picked up' % mode)
        return
    if not encrypted and bdb.EncryptedBinary.key is not None:
        col.note_inconclusive('control case must run without field encryption')
        return
    ddir = os.environ.get('BCL_DATA_DIR') or '.'
    n = next(_uniq)
    db_path = os.path.join(ddir, 'c16-atrest-%d-%d.sqlite' % (os.getpid(), n))
    seeds, singles = [], []
    wallets = []
    for i, wc in enumerate(case['wallets']):
        s, g = _wallet_secrets(wc)
        seeds += s
        singles += g
        ctx = {'import_secret': int(wc['import_secret'], 16) if wc.get('import_secret') else None, 'store': True, 'col': col}
        try:
            w = make_wallet(wc, db_path, 'c16r%d_%d' % (n, i))
        except Exception as e:
            col.note_inconclusive('at-rest wallet could not be created: %r' % (e,))
            continue
        w = run_wallet_history(w, wc, ctx, col)
        wallets.append(w)
    try:
        taint, n_priv = wallet_taint(col, db_path, seeds, singles)
    finally:
        for w in wallets:
            _close_wallet(w)
        del wallets
        _close_all()
    kinds = sorted({wc['wtype'] for wc in case['wallets']})
    col.case('atrest/%s/%s' % (('encrypted-' + mode) if encrypted else 'control-plaintext', '+'.join(kinds)),
             nontrivial=('atrest', mode, tuple((wc['wtype'], wc['network'], wc['witness_type'], tuple(wc['history'])) for wc in case['wallets'])),
             sample=case)
    files = [db_path + s for s in ('', '-journal', '-wal', '-shm') if os.path.exists(db_path + s)]
    all_hits = []
    for p in files:
        hits, size = scan_file(taint, p)
        col.probe('dbfile_scan_encrypted' if encrypted else 'dbfile_scan_control')
        if encrypted:
            col.probe('dbfile_scan_encrypted/' + mode)
        col.probe('dbfile_bytes', size)
        all_hits += [{'path': os.path.basename(p)[len(os.path.basename(db_path)):] or 'main', 'enc': e, 'label': l, 'where': 'sqlite'} for e, l in hits]
    if encrypted:
        col.probe('atrest_private_rows', n_priv)
        if n_priv == 0:
            col.note_inconclusive('encrypted at-rest case stored no private key rows')
        if all_hits:
            report(col, None, 'sqlite file written with field encryption on (mode %s: %s%s)' % (
                mode, '+'.join(sorted(ATREST_MODES[mode]['env'])), ' + config.ini flag' if ATREST_MODES[mode].get('config') else ''),
                   case, 'database file', 'raw-bytes', all_hits,
                   'no private key / WIF readable in plaintext')
    else:
        # control: the scanner must find the raw key and an extended/WIF form of the stored private rows
        labels_raw = {h['label'] for h in all_hits if h['enc'] == 'raw32-be'}
        labels_txt = {h['label'] for h in all_hits if h['enc'].startswith(('extkey-', 'wif-'))}
        col.probe('dbfile_control_found_raw', len(labels_raw))
        col.probe('dbfile_control_found_text', len(labels_txt))
        if n_priv == 0 or not labels_raw or not labels_txt:
            col.note_inconclusive('control (no encryption): scanner found raw=%d text=%d of %d private rows - monitor is blind'
                                  % (len(labels_raw), len(labels_txt), n_priv))
    # information only (the statement speaks of the database file): every other file of the data directory (log, cache db)
    for dirpath, _, fns in os.walk(ddir):
        for fn in fns:
            fp = os.path.join(dirpath, fn)
            if fp in files or fn.startswith('c16-') or fn in ('spec.json', 'out.json'):
                continue
            try:
                hits, _ = scan_file(taint, fp)
                col.probe('other_file_scan_info_only')
                if hits:
                    col.extra.setdefault('other_file_hits_info_only', {})[fn] = sorted({e for e, _ in hits})[:6]
            except OSError:
                pass
    for p in files:
        try:
            os.remove(p)
        except OSError:
            pass


def _atrest_mode(case):
    m = case.get('mode')
    if m is None:
        m = 'key' if case.get('encrypted') else 'control'
    return m


def _env_matches_mode(mode):
    want = ATREST_MODES[mode]['env']
    for var in ('DB_FIELD_ENCRYPTION_KEY', 'DB_FIELD_ENCRYPTION_PASSWORD'):
        if (os.environ.get(var) or None) != want.get(var):
            return False
    return True


def write_config_ini(ddir):
    """config.ini is read from BCL_DATA_DIR when bitcoinlib.config is imported (before the library copies its defaults)."""
    with open(os.path.join(ddir, 'config.ini'), 'w') as f:
        f.write('[common]\ndatabase_encryption_enabled=True\n')


def gen_atrest_case(rnd, mode):
    if mode is True or mode is False:
        mode = 'key' if mode else 'control'
    ws = [gen_wallet_case(rnd, 'hd', 4), gen_wallet_case(rnd, 'single', 3), gen_wallet_case(rnd, 'multisig', 3),
          gen_wallet_case(rnd, rnd.choice(['hd_account', 'multisig_account']), 3)]
    if rnd.random() < 0.5:
        ws.append(gen_wallet_case(rnd, 'hd', 5))
    for wc in ws:
        if 'send' not in wc['history']:
            wc['history'].append('send')
        wc['history'] = [o for o in wc['history'] if o != 'reopen'] + (['reopen'] if 'reopen' in wc['history'] else [])
    if 'import_key' not in ws[0]['history']:
        ws[0]['history'].insert(0, 'import_key')
        ws[0]['import_secret'] = '%064x' % gen_secret(rnd)
    return {'kind': 'atrest', 'mode': mode, 'encrypted': mode != 'control', 'wallets': ws}


# ------------------------------------------------------------------ plan / shards / replay
def run_case(case, col):
    k = case.get('kind')
    if k == 'key':
        run_key_case(case, col)
    elif k == 'wallet':
        run_wallet_case(case, col)
    elif k == 'atrest':
        run_atrest_case(case, col)


def _no_network():
    import socket

    def refuse(*a, **kw):
        raise OSError('C16 harness: network access disabled')
    socket.socket.connect = refuse
    socket.create_connection = refuse


def _prepare(col):
    import sys
    _no_network()
    # half-built copies of WalletKey/Wallet (copy refused on the Session) complain in __del__; keep workers silent
    sys.unraisablehook = lambda *a, **kw: None
    try:
        ec.selfcheck()
        codec.selfcheck()
        chain.selfcheck()
        bip32.selfcheck()
    except Exception as e:
        col.note_inconclusive('reference self-check failed: %r' % (e,))
        return False
    try:
        return scanner_selfcheck(col)
    except Exception as e:
        col.note_inconclusive('scanner self-check raised %r' % (e,))
        return False


def replay(case, col):
    if not _prepare(col):
        return
    case = {k: v for k, v in case.items() if k not in ('view', 'form')}
    if case.get('kind') == 'atrest' and (not _env_matches_mode(_atrest_mode(case)) or ATREST_MODES[_atrest_mode(case)].get('config')):
        # the replay worker carries REPLAY_ENV (key mode); every other configuration is replayed in a child process
        _atrest_in_child(case, col)
        return
    run_case(case, col)


def _atrest_in_child(case, col):
    """Run one at-rest case in a child process whose environment / config.ini switch encryption on the way the case says."""
    import sys
    import json
    import subprocess
    from vf.collect import jsonable
    mode = _atrest_mode(case)
    ddir = os.path.join(os.environ.get('BCL_DATA_DIR') or '.', 'c16-child-%d-%d' % (os.getpid(), next(_uniq)))
    os.makedirs(ddir, exist_ok=True)
    env = dict(os.environ)
    env.pop('DB_FIELD_ENCRYPTION_KEY', None)
    env.pop('DB_FIELD_ENCRYPTION_PASSWORD', None)
    env.update(ATREST_MODES[mode]['env'])
    env['BCL_DATA_DIR'] = ddir
    cpath, opath = os.path.join(ddir, 'case.json'), os.path.join(ddir, 'result.json')
    with open(cpath, 'w') as f:
        json.dump(jsonable(case), f)
    try:
        p = subprocess.run([sys.executable, '-m', 'vf.props.c16', cpath, opath], env=env, stdout=subprocess.PIPE,
                           stderr=subprocess.STDOUT, timeout=1500)
    except subprocess.TimeoutExpired:
        col.note_inconclusive('at-rest child process hit the watchdog')
        return
    if not os.path.exists(opath):
        col.note_inconclusive('at-rest child process gave no result: %s' % p.stdout.decode(errors='replace')[-600:])
        return
    res = json.load(open(opath))
    for k, n in res['probes'].items():
        col.probe(k, n)
    for r in res['inconclusive']:
        col.note_inconclusive(r)
    for key, ent in res['violations'].items():
        for w in ent['witnesses']:
            col.violation(key, w['desc'], w['case'], w['observed'], w['expected'])
    for w in res['unkeyed']:
        col.violation(None, w['desc'], w['case'], w['observed'], w['expected'])
    col.evaluations += res['evaluations']


def _child_main(argv):
    import json
    from vf.collect import Collector
    case = json.load(open(argv[1]))
    col = Collector(ID, 'quick', 0)
    try:
        if ATREST_MODES[_atrest_mode(case)].get('config'):
            write_config_ini(os.environ['BCL_DATA_DIR'])
        if _prepare(col):
            run_atrest_case(case, col)
    except BaseException as e:
        col.note_inconclusive('at-rest child raised %r' % (e,))
    with open(argv[2], 'w') as f:
        json.dump(col.dump(), f)


def _histories(names, maxlen, skip_long=()):
    for L in range(maxlen + 1):
        for h in itertools.product(names, repeat=L):
            if L > 1 and any(o in skip_long for o in h):
                continue
            yield list(h)


def plan(tier, seed, scale=1.0):
    thorough = tier == 'thorough'
    specs = []
    nk = 16 if thorough else 8
    for i in range(nk):
        specs.append({'part': 'keys', 'shard': i, 'nshard': nk, 'exh_len': 3 if thorough else 2,
                      'n_random': int((15000 if thorough else 300) * scale / nk) + 1,
                      'timeout': 3 * 3600 if thorough else 600})
    nw = 16 if thorough else 6
    for i in range(nw):
        specs.append({'part': 'wallets', 'shard': 100 + i, 'n_wallets': max(1, int((800 if thorough else 36) * scale / nw)),
                      'timeout': 3 * 3600 if thorough else 600})
    na = 2 if thorough else 1
    for i in range(na):
        for j, mode in enumerate(ENC_MODES):
            specs.append({'part': 'atrest', 'shard': 200 + 10 * j + i, 'mode': mode, 'n_cases': max(1, int((5 if thorough else 1) * scale)),
                          'env': dict(ATREST_MODES[mode]['env']), 'config_ini': bool(ATREST_MODES[mode].get('config')),
                          'timeout': 3 * 3600 if thorough else 600})
        specs.append({'part': 'atrest', 'shard': 300 + i, 'mode': 'control', 'n_cases': max(1, int((2 if thorough else 1) * scale)),
                      'timeout': 3 * 3600 if thorough else 600})
    return specs


def run_shard(spec, col):
    for p in ('scanner_selfcheck', 'graph_scan', 'pickle_scan', 'deepcopy_scan', 'repr_scan', 'str_scan', 'as_dict_scan',
              'as_json_scan', 'info_scan', 'history_op', 'wallet_history_op', 'wallet_export_scan', 'wallet_wif_export_scan',
              'reopened_wallet_scan', 'dbkey_repr_scan',
              'walletkey_default_scan', 'tx_default_forms', 'dbfile_scan_encrypted', 'dbfile_scan_control',
              'dbfile_control_found_raw', 'dbfile_control_found_text', 'atrest_private_rows') + tuple('dbfile_scan_encrypted/' + m for m in ENC_MODES) + (
            'optarg_scan', 'optarg_scan/HDKey.wif', 'optarg_scan/HDKey.wif_public', 'optarg_scan/HDKey.public_master', 'optarg_scan/Key.address',
            'optarg_scan/Wallet.wif', 'optarg_scan/Wallet.public_master', 'optarg_scan/Wallet.keys', 'optarg_scan/Wallet.info'):
        col.require(p)
    if spec.get('config_ini'):
        write_config_ini(os.environ['BCL_DATA_DIR'])      # before the first import of bitcoinlib
    if not _prepare(col):
        return
    rnd = random.Random('%s-%d-%d' % (ID, spec['seed'], spec['shard']))
    part = spec['part']
    if part == 'keys':
        sh, ns = spec['shard'], spec['nshard']
        # a small pool of objects per shard for the exhaustive history enumeration (taint sets are cached per object)
        pool = {'Key': [gen_key_case(rnd, 'Key') for _ in range(3)], 'HDKey': [gen_key_case(rnd, 'HDKey') for _ in range(3)]}
        pool['HDKey'][0].update({'how': 'seed', 'path': 'm'})
        pool['HDKey'][0].pop('secret', None)
        pool['HDKey'][0].setdefault('seed', rnd.randbytes(32).hex())
        idx = 0
        for cls, names in (('Key', KEY_OP_NAMES), ('HDKey', HD_OP_NAMES)):
            for h in _histories(names, spec['exh_len'], skip_long=() if spec['exh_len'] >= 3 else ('encrypt',)):
                idx += 1
                if idx % ns != sh:
                    continue
                base = pool[cls][(idx // ns) % len(pool[cls])]
                run_key_case(dict(base, history=h, more_views=(len(h) <= 1), sweep=(len(h) <= 1)), col)
        for _ in range(spec['n_random']):
            case = gen_key_case(rnd)
            names = HD_OP_NAMES if case['cls'] == 'HDKey' else KEY_OP_NAMES
            L = rnd.randint(0, 6)
            case['history'] = [rnd.choice([n for n in names if n != 'encrypt' or rnd.random() < 0.15]) for _ in range(L)]
            case['more_views'] = rnd.random() < 0.3
            case['sweep'] = rnd.random() < 0.25
            run_key_case(case, col)
    elif part == 'wallets':
        for j in range(spec['n_wallets']):
            order = ['hd_account', 'multisig_account', 'hd', 'single', 'multisig', 'watch_account']
            case = gen_wallet_case(rnd, wtype=order[(j + spec['shard']) % 6] if j < 6 else None)
            run_wallet_case(case, col)
    elif part == 'atrest':
        for _ in range(spec['n_cases']):
            run_atrest_case(gen_atrest_case(rnd, spec.get('mode', 'key' if spec.get('encrypted') else 'control')), col)


if __name__ == '__main__':
    import sys as _sys
    _child_main(_sys.argv)
