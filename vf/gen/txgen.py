"""Transaction workload generator shared by C01/C02 (and usable by others).

A *spec* is a JSON-able description of a transaction to build through the library API together with the key
material.  The harness derives the prevouts (scriptPubKey, amount, script code) from the spec with the
references only (`prevout_of`), builds the transaction with the real library (`build`), and judges what the
library produced with vf.refs.tx.
"""
import random

from vf.refs import secp256k1 as ec
from vf.refs import chain
from vf.refs import codec
from vf.refs import tx as rtx

IN_KINDS = ['p2pkh', 'p2pkh_u', 'p2pk', 'p2sh_ms', 'p2wpkh', 'p2wsh_ms', 'p2sh_p2wpkh', 'p2sh_p2wsh_ms']
SEGWIT_KINDS = {'p2wpkh', 'p2wsh_ms', 'p2sh_p2wpkh', 'p2sh_p2wsh_ms'}
MS_KINDS = {'p2sh_ms', 'p2wsh_ms', 'p2sh_p2wsh_ms'}
OUT_KINDS = ['p2pkh', 'p2sh', 'p2wpkh', 'p2wsh', 'p2tr', 'nulldata', 'raw']
WALLET_NETWORKS = ['bitcoin', 'testnet', 'litecoin', 'bitcoinlib_test', 'regtest', 'litecoin_testnet', 'dogecoin',
                   'testnet4', 'signet', 'litecoin_legacy', 'dogecoin_testnet']


def rand_secret(rnd):
    return rnd.getrandbits(256) % (ec.N - 1) + 1


def gen_input(rnd, kind, max_n=4, idx=0):
    inp = {'kind': kind, 'txid': '%064x' % rnd.getrandbits(256), 'n': rnd.choice([0, 1, 2, 7, 255, 256, 65535, rnd.getrandbits(16)]),
           'seq': rnd.choice([0xffffffff, 0xffffffff, 0xfffffffe, 0xfffffffd, 0, 1, 0x80000001, rnd.getrandbits(32)]),
           'value': rnd.choice([1, 546, 1000, 99999, 2 ** 32 - 1, 2 ** 32, 2 ** 32 + 1, 5 * 10 ** 9, 21 * 10 ** 14, rnd.randrange(1, 21 * 10 ** 14),
                                rnd.randrange(1000, 10 ** 8)])}
    if kind in MS_KINDS:
        n = rnd.randint(1, max_n)
        m = rnd.randint(1, n)
        inp['secrets'] = ['%064x' % rand_secret(rnd) for _ in range(n)]
        inp['m'] = m
        inp['sort'] = rnd.random() < 0.5
        inp['compressed'] = True if kind != 'p2sh_ms' else rnd.random() < 0.8
    else:
        inp['secrets'] = ['%064x' % rand_secret(rnd)]
        inp['m'] = 1
        inp['sort'] = False
        inp['compressed'] = kind != 'p2pkh_u' and (kind != 'p2pk' or rnd.random() < 0.5)
    if rnd.random() < 0.2:
        inp['with_locking_script'] = True
    if kind in ('p2pkh', 'p2pkh_u', 'p2wpkh', 'p2sh_p2wpkh') and rnd.random() < 0.15:
        inp['omit_script_type'] = True    # only witness_type is given; the library infers the script type
    if kind in ('p2pkh', 'p2pkh_u', 'p2wpkh', 'p2sh_p2wpkh') and rnd.random() < 0.2:
        inp['addr_only'] = True           # declared by address only (no keys); the keys arrive with sign()
    return inp


def gen_output(rnd, network, kind=None):
    kind = kind or rnd.choice(OUT_KINDS)
    value = rnd.choice([0, 1, 546, 1000, 2 ** 32 - 1, 2 ** 32, rnd.randrange(1, 10 ** 8), rnd.randrange(1, 21 * 10 ** 14)])
    o = {'kind': kind, 'value': value}
    if kind in ('p2pkh', 'p2sh', 'p2wpkh'):
        o['payload'] = rnd.randbytes(20).hex()
    elif kind in ('p2wsh', 'p2tr'):
        o['payload'] = rnd.randbytes(32).hex()
    elif kind == 'nulldata':
        o['value'] = 0   # the library refuses OP_RETURN outputs with a value (policy, legitimate)
        o['script'] = (b'\x6a' + codec.push_data(rnd.randbytes(rnd.choice([1, 20, 40, 75, 76, 80])))).hex()
    else:
        L = rnd.choice([2, 3, 23, 24, 26, 35, 75, 76, 255, 256, 520])
        # deterministic, parseable non-standard scripts: a run of OP_NOPs / small pushes ending in OP_1
        body = bytearray()
        while len(body) < L - 1:
            if L - 1 - len(body) >= 4 and rnd.random() < 0.5:
                body += b'\x03' + rnd.randbytes(3)
            else:
                body.append(0x61)
        body.append(0x51)
        o['script'] = bytes(body).hex()
    if network in ('dogecoin', 'dogecoin_testnet') and kind in ('p2wpkh', 'p2wsh', 'p2tr'):
        pass
    return o


def gen_spec(rnd, network=None, n_in=None, n_out=None, kinds=None, max_n=4, out_kinds=None):
    network = network or rnd.choice(WALLET_NETWORKS)
    n_in = n_in or rnd.randint(1, 6)
    n_out = n_out or rnd.randint(1, 5)
    kinds = kinds or IN_KINDS
    spec = {'network': network,
            'version': rnd.choice([1, 1, 2, 2, rnd.getrandbits(32) or 1]),
            'locktime': rnd.choice([0, 0, 1, 499999999, 500000000, 2 ** 32 - 1, rnd.getrandbits(32)]),
            'ins': [gen_input(rnd, rnd.choice(kinds), max_n, i) for i in range(n_in)],
            'outs': [gen_output(rnd, network, rnd.choice(out_kinds) if out_kinds else None) for _ in range(n_out)]}
    # inputs must be distinct outpoints
    seen = set()
    for i in spec['ins']:
        while (i['txid'], i['n']) in seen:
            i['n'] += 1
        seen.add((i['txid'], i['n']))
    return spec


# ------------------------------------------------------------------ reference view of a spec
def pubs_of(inp):
    pubs = [ec.pub_from_secret(int(s, 16), inp['compressed']) for s in inp['secrets']]
    if inp['sort']:
        pubs = sorted(pubs)
    return pubs


def prevout_of(inp):
    """-> dict(spk, amount, script_code, segwit, pubs, redeem) computed with the references only."""
    kind = inp['kind']
    pubs = pubs_of(inp)
    redeem = None
    if kind in ('p2pkh', 'p2pkh_u'):
        spk = chain.script_p2pkh(ec.hash160(pubs[0]))
        code = spk
    elif kind == 'p2pk':
        spk = chain.script_p2pk(pubs[0])
        code = spk
    elif kind == 'p2sh_ms':
        redeem = chain.script_multisig(inp['m'], pubs)
        spk = chain.script_p2sh(ec.hash160(redeem))
        code = redeem
    elif kind == 'p2wpkh':
        h = ec.hash160(pubs[0])
        spk = chain.script_witness(0, h)
        code = chain.script_p2pkh(h)
    elif kind == 'p2wsh_ms':
        redeem = chain.script_multisig(inp['m'], pubs)
        spk = chain.script_witness(0, ec.sha256(redeem))
        code = redeem
    elif kind == 'p2sh_p2wpkh':
        h = ec.hash160(pubs[0])
        spk = chain.script_p2sh(ec.hash160(chain.script_witness(0, h)))
        code = chain.script_p2pkh(h)
    elif kind == 'p2sh_p2wsh_ms':
        redeem = chain.script_multisig(inp['m'], pubs)
        spk = chain.script_p2sh(ec.hash160(chain.script_witness(0, ec.sha256(redeem))))
        code = redeem
    else:
        raise ValueError(kind)
    return {'spk': spk, 'amount': inp['value'], 'script_code': code, 'segwit': kind in SEGWIT_KINDS, 'pubs': pubs,
            'redeem': redeem}


def prevout_address(inp, network):
    try:
        return chain.address_for_script(network, prevout_of(inp)['spk'])
    except Exception:
        return None


def out_script(o, network):
    k = o['kind']
    if k == 'p2pkh':
        return chain.script_p2pkh(bytes.fromhex(o['payload']))
    if k == 'p2sh':
        return chain.script_p2sh(bytes.fromhex(o['payload']))
    if k in ('p2wpkh', 'p2wsh'):
        return chain.script_witness(0, bytes.fromhex(o['payload']))
    if k == 'p2tr':
        return chain.script_witness(1, bytes.fromhex(o['payload']))
    return bytes.fromhex(o['script'])


def out_address(o, network):
    k = o['kind']
    if k in ('p2pkh', 'p2sh'):
        return chain.address_base58(network, k, bytes.fromhex(o['payload']))
    if k in ('p2wpkh', 'p2wsh'):
        return chain.address_segwit(network, 0, bytes.fromhex(o['payload']))
    if k == 'p2tr':
        return chain.address_segwit(network, 1, bytes.fromhex(o['payload']))
    return None


def reference_tx(spec):
    """The transaction the spec asks for, unsigned, as a vf.refs.tx dict."""
    ins = [{'txid': bytes.fromhex(i['txid'])[::-1], 'n': i['n'], 'script': b'', 'seq': i['seq'], 'wit': []} for i in spec['ins']]
    outs = [{'value': o['value'], 'script': out_script(o, spec['network'])} for o in spec['outs']]
    return rtx.tx(spec['version'], ins, outs, spec['locktime'])


# ------------------------------------------------------------------ library side
LIB_INPUT_ARGS = {
    'p2pkh': dict(script_type='sig_pubkey', witness_type='legacy'),
    'p2pkh_u': dict(script_type='sig_pubkey', witness_type='legacy'),
    'p2pk': dict(script_type='signature', witness_type='legacy'),
    'p2sh_ms': dict(script_type='p2sh_multisig', witness_type='legacy'),
    'p2wpkh': dict(script_type='sig_pubkey', witness_type='segwit'),
    'p2wsh_ms': dict(script_type='p2sh_multisig', witness_type='segwit'),
    'p2sh_p2wpkh': dict(script_type='p2sh_p2wpkh', witness_type='p2sh-segwit'),
    'p2sh_p2wsh_ms': dict(script_type='p2sh_p2wsh', witness_type='p2sh-segwit'),
}


def lib_keys(inp, network, private=True):
    """Key objects for an input, in spec order; public-only when private=False."""
    from bitcoinlib.keys import Key
    keys = []
    for s in inp['secrets']:
        k = Key(s, network=network, compressed=inp['compressed'])
        keys.append(k if private else Key(k.public_byte, network=network, compressed=inp['compressed']))
    return keys


def build_objects(spec, private_in_inputs=True):
    """Same transaction, built from Input / Output objects handed to the Transaction constructor."""
    from bitcoinlib.transactions import Transaction, Input, Output
    network = spec['network']
    ins = []
    for k, inp in enumerate(spec['ins']):
        keys = lib_keys(inp, network, private=private_in_inputs)
        kw = dict(LIB_INPUT_ARGS[inp['kind']])
        if inp['kind'] in MS_KINDS:
            kw['sigs_required'] = inp['m']
            kw['sort'] = inp['sort']
        if inp.get('with_locking_script'):
            kw['locking_script'] = prevout_of(inp)['spk']
        if inp.get('omit_script_type'):
            kw.pop('script_type', None)
        ins.append(Input(inp['txid'], inp['n'], keys=keys, sequence=inp['seq'], value=inp['value'], compressed=inp['compressed'],
                         index_n=k, network=network, **kw))
    outs = []
    for k, o in enumerate(spec['outs']):
        addr = out_address(o, network)
        if addr is not None:
            outs.append(Output(o['value'], address=addr, network=network, output_n=k))
        else:
            outs.append(Output(o['value'], lock_script=bytes.fromhex(o['script']), network=network, output_n=k, strict=False))
    return Transaction(ins, outs, locktime=spec['locktime'], version=spec['version'], network=network,
                       witness_type=spec.get('tx_witness_type', 'segwit'))


def build(spec, private_in_inputs=True, route='add_input'):
    """Build the unsigned transaction through the library API. Returns Transaction."""
    from bitcoinlib.transactions import Transaction
    if route == 'objects':
        return build_objects(spec, private_in_inputs)
    network = spec['network']
    t = Transaction(network=network, version=spec['version'], locktime=spec['locktime'], witness_type=spec.get('tx_witness_type', 'segwit'))
    for inp in spec['ins']:
        keys = lib_keys(inp, network, private=private_in_inputs)
        kw = dict(LIB_INPUT_ARGS[inp['kind']])
        if inp['kind'] in MS_KINDS:
            kw['sigs_required'] = inp['m']
            kw['sort'] = inp['sort']
        if inp.get('with_locking_script'):
            # the documented optional argument: the caller passes the scriptPubKey of the output being spent
            kw['locking_script'] = prevout_of(inp)['spk']
        if inp.get('omit_script_type'):
            kw.pop('script_type', None)
        if inp.get('addr_only') and not private_in_inputs:
            addr = prevout_address(inp, network)
            if addr:
                keys = None
                kw['address'] = addr
                kw.pop('locking_script', None)
        t.add_input(inp['txid'], inp['n'], keys=keys, sequence=inp['seq'], value=inp['value'],
                    compressed=inp['compressed'], **kw)
    for o in spec['outs']:
        addr = out_address(o, network)
        if addr is not None:
            t.add_output(o['value'], address=addr)
        else:
            t.add_output(o['value'], lock_script=bytes.fromhex(o['script']), strict=False)
    return t


def version_bump_expected(spec):
    """The library documents that adding an input with a relative lock-time sequence switches version 1 -> 2."""
    return spec['version'] == 1 and any(0 < i['seq'] < 0x80000000 for i in spec['ins'])
