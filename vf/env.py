"""Environment isolation for workers.

Every worker process gets
  * a fresh, empty BCL_DATA_DIR under /verif/.run/ (bitcoinlib copies bitcoinlib/data/*.json there on
    first import, so the working tree's data files are what is exercised),
  * $VERIF_REPO (default /repo) first on sys.path / PYTHONPATH so the current working tree is imported,
  * PYTHONHASHSEED=0.
"""
import os
import sys
import json
import shutil
import tempfile

VERIF_DIR = os.path.dirname(os.path.dirname(os.path.abspath(__file__)))
RUN_DIR = os.path.join(VERIF_DIR, '.run')
DEPS_DIR = os.path.join(VERIF_DIR, '.deps')
WHEELS = '/opt/veriftools/wheels'
PYTHON = os.environ.get('VERIF_PYTHON', '/venv/bin/python')


def repo_dir():
    return os.path.abspath(os.environ.get('VERIF_REPO', '/repo'))


def make_data_dir(tag):
    os.makedirs(RUN_DIR, exist_ok=True)
    return tempfile.mkdtemp(prefix='%s-' % tag, dir=RUN_DIR)


def worker_env(data_dir, extra=None):
    env = dict(os.environ)
    env['BCL_DATA_DIR'] = data_dir
    env['PYTHONHASHSEED'] = '0'
    pp = [repo_dir(), VERIF_DIR, DEPS_DIR]
    if env.get('PYTHONPATH'):
        pp.append(env['PYTHONPATH'])
    env['PYTHONPATH'] = os.pathsep.join(pp)
    env['PYTHONDONTWRITEBYTECODE'] = '1'
    env.pop('DB_FIELD_ENCRYPTION_KEY', None)
    env.pop('DB_FIELD_ENCRYPTION_PASSWORD', None)
    if extra:
        env.update(extra)
    return env


def ensure_deps(packages=('icontract',)):
    """Install pure-python helpers from the offline wheelhouse into /verif/.deps if they are missing."""
    import subprocess
    missing = []
    for p in packages:
        if not os.path.isdir(os.path.join(DEPS_DIR, p)):
            missing.append(p)
    if not missing:
        return True
    os.makedirs(DEPS_DIR, exist_ok=True)
    r = subprocess.run([PYTHON, '-m', 'pip', 'install', '--quiet', '--no-index', '--find-links', WHEELS,
                        '--target', DEPS_DIR] + missing, stdout=subprocess.PIPE, stderr=subprocess.STDOUT)
    return r.returncode == 0


def assert_repo_imported():
    """Called inside a worker after importing bitcoinlib: the package must come from $VERIF_REPO."""
    import bitcoinlib
    got = os.path.dirname(os.path.dirname(os.path.abspath(bitcoinlib.__file__)))
    if got != repo_dir():
        raise RuntimeError('bitcoinlib imported from %s, expected %s' % (got, repo_dir()))
    return got


def write_providers(data_dir, providers):
    with open(os.path.join(data_dir, 'providers.json'), 'w') as f:
        json.dump(providers, f)


def cleanup(path):
    shutil.rmtree(path, ignore_errors=True)
