"""Base58Check, Bech32/Bech32m (BIP173/BIP350), segwit address rules, CompactSize, script numbers, pushes.
Written from the specifications; stdlib only; never imports bitcoinlib."""
import hashlib

B58 = '123456789ABCDEFGHJKLMNPQRSTUVWXYZabcdefghijkmnopqrstuvwxyz'
_B58I = {c: i for i, c in enumerate(B58)}


def _dsha(b):
    return hashlib.sha256(hashlib.sha256(b).digest()).digest()


def b58encode(b):
    b = bytes(b)
    n = int.from_bytes(b, 'big')
    s = ''
    while n:
        n, r = divmod(n, 58)
        s = B58[r] + s
    z = len(b) - len(b.lstrip(b'\0'))
    return '1' * z + s


def b58decode(s):
    """Canonical base58: returns bytes or None if a character is outside the alphabet."""
    n = 0
    for c in s:
        if c not in _B58I:
            return None
        n = n * 58 + _B58I[c]
    z = len(s) - len(s.lstrip('1'))
    body = n.to_bytes((n.bit_length() + 7) // 8, 'big') if n else b''
    return b'\0' * z + body


def b58check_encode(payload):
    payload = bytes(payload)
    return b58encode(payload + _dsha(payload)[:4])


def b58check_decode(s):
    """payload bytes (version included) or None when s is not a canonical Base58Check string."""
    if not isinstance(s, str) or not s:
        return None
    raw = b58decode(s)
    if raw is None or len(raw) < 5:
        return None
    if b58encode(raw) != s:
        return None
    payload, chk = raw[:-4], raw[-4:]
    if _dsha(payload)[:4] != chk:
        return None
    return payload


# ---------------------------------------------------------------- bech32
CHARSET = 'qpzry9x8gf2tvdw0s3jn54khce6mua7l'
BECH32_CONST = 1
BECH32M_CONST = 0x2bc830a3


def _polymod(values):
    gen = [0x3b6a57b2, 0x26508e6d, 0x1ea119fa, 0x3d4233dd, 0x2a1462b3]
    chk = 1
    for v in values:
        b = chk >> 25
        chk = (chk & 0x1ffffff) << 5 ^ v
        for i in range(5):
            chk ^= gen[i] if ((b >> i) & 1) else 0
    return chk


def _hrp_expand(hrp):
    return [ord(x) >> 5 for x in hrp] + [0] + [ord(x) & 31 for x in hrp]


def bech32_encode(hrp, data, const):
    values = _hrp_expand(hrp) + list(data)
    pm = _polymod(values + [0] * 6) ^ const
    chk = [(pm >> 5 * (5 - i)) & 31 for i in range(6)]
    return hrp + '1' + ''.join(CHARSET[d] for d in list(data) + chk)


def bech32_decode(s):
    """-> (hrp, data5, const) or None. Enforces BIP173 character/case/length rules."""
    if not isinstance(s, str):
        return None
    if any(ord(x) < 33 or ord(x) > 126 for x in s):
        return None
    if s.lower() != s and s.upper() != s:
        return None
    s = s.lower()
    pos = s.rfind('1')
    if pos < 1 or pos + 7 > len(s) or len(s) > 90:
        return None
    if not all(x in CHARSET for x in s[pos + 1:]):
        return None
    hrp = s[:pos]
    data = [CHARSET.find(x) for x in s[pos + 1:]]
    pm = _polymod(_hrp_expand(hrp) + data)
    if pm == BECH32_CONST:
        const = BECH32_CONST
    elif pm == BECH32M_CONST:
        const = BECH32M_CONST
    else:
        return None
    return hrp, data[:-6], const


def convertbits(data, frombits, tobits, pad=True):
    acc = 0
    bits = 0
    ret = []
    maxv = (1 << tobits) - 1
    for value in data:
        if value < 0 or (value >> frombits):
            return None
        acc = (acc << frombits) | value
        bits += frombits
        while bits >= tobits:
            bits -= tobits
            ret.append((acc >> bits) & maxv)
    if pad:
        if bits:
            ret.append((acc << (tobits - bits)) & maxv)
    elif bits >= frombits or ((acc << (tobits - bits)) & maxv):
        return None
    return ret


def segwit_encode(hrp, witver, prog):
    const = BECH32_CONST if witver == 0 else BECH32M_CONST
    return bech32_encode(hrp, [witver] + convertbits(prog, 8, 5), const)


def segwit_decode(s):
    """-> (hrp, witver, program bytes) or None, per BIP173 + BIP350 (no hrp restriction here)."""
    d = bech32_decode(s)
    if d is None:
        return None
    hrp, data, const = d
    if not data:
        return None
    prog = convertbits(data[1:], 5, 8, False)
    if prog is None or len(prog) < 2 or len(prog) > 40:
        return None
    witver = data[0]
    if witver > 16:
        return None
    if witver == 0 and len(prog) not in (20, 32):
        return None
    if witver == 0 and const != BECH32_CONST:
        return None
    if witver != 0 and const != BECH32M_CONST:
        return None
    return hrp, witver, bytes(prog)


# ---------------------------------------------------------------- CompactSize / script numbers / pushes
def compact_size(n):
    if n < 0 or n >= 2 ** 64:
        raise ValueError('out of range')
    if n < 0xfd:
        return bytes([n])
    if n <= 0xffff:
        return b'\xfd' + n.to_bytes(2, 'little')
    if n <= 0xffffffff:
        return b'\xfe' + n.to_bytes(4, 'little')
    return b'\xff' + n.to_bytes(8, 'little')


def read_compact_size(b, pos=0):
    """-> (value, size). Raises ValueError when truncated."""
    f = b[pos]
    if f < 0xfd:
        return f, 1
    w = {0xfd: 2, 0xfe: 4, 0xff: 8}[f]
    if len(b) < pos + 1 + w:
        raise ValueError('truncated')
    return int.from_bytes(b[pos + 1:pos + 1 + w], 'little'), 1 + w


def scriptnum_encode(n):
    """CScriptNum::serialize"""
    if n == 0:
        return b''
    neg = n < 0
    a = abs(n)
    out = bytearray()
    while a:
        out.append(a & 0xff)
        a >>= 8
    if out[-1] & 0x80:
        out.append(0x80 if neg else 0)
    elif neg:
        out[-1] |= 0x80
    return bytes(out)


def scriptnum_decode(b):
    """CScriptNum set_vch (no size/minimality restriction)."""
    b = bytes(b)
    if not b:
        return 0
    v = int.from_bytes(b, 'little')
    if b[-1] & 0x80:
        return -(v & ~(0x80 << (8 * (len(b) - 1))))
    return v


def push_data(data):
    """Minimal direct push opcode + data (length based only; no OP_N substitution)."""
    data = bytes(data)
    n = len(data)
    if n < 0x4c:
        return bytes([n]) + data
    if n <= 0xff:
        return b'\x4c' + bytes([n]) + data
    if n <= 0xffff:
        return b'\x4d' + n.to_bytes(2, 'little') + data
    return b'\x4e' + n.to_bytes(4, 'little') + data


def script_tokens(script):
    """Consensus GetOp tokenisation: list of (opcode, data|None). Raises ValueError on truncated push."""
    script = bytes(script)
    out = []
    i = 0
    while i < len(script):
        op = script[i]
        i += 1
        if op <= 0x4e:
            if op < 0x4c:
                n = op
            elif op == 0x4c:
                if i + 1 > len(script):
                    raise ValueError('truncated')
                n = script[i]
                i += 1
            elif op == 0x4d:
                if i + 2 > len(script):
                    raise ValueError('truncated')
                n = int.from_bytes(script[i:i + 2], 'little')
                i += 2
            else:
                if i + 4 > len(script):
                    raise ValueError('truncated')
                n = int.from_bytes(script[i:i + 4], 'little')
                i += 4
            if i + n > len(script):
                raise ValueError('truncated')
            out.append((op, script[i:i + n]))
            i += n
        else:
            out.append((op, None))
    return out


def selfcheck():
    assert b58check_encode(bytes.fromhex('00' + '00' * 20)) == '1111111111111111111114oLvT2'
    assert b58check_decode('1BvBMSEYstWetqTFn5Au4m4GFg7xJaNVN2') == bytes.fromhex('0077bff20c60e522dfaa3350c39b030a5d004e839a')
    assert b58check_decode('1BvBMSEYstWetqTFn5Au4m4GFg7xJaNVN3') is None
    # BIP173 / BIP350 vectors
    v = segwit_decode('BC1QW508D6QEJXTDG4Y5R3ZARVARY0C5XW7KV8F3T4')
    assert v == ('bc', 0, bytes.fromhex('751e76e8199196d454941c45d1b3a323f1433bd6'))
    v = segwit_decode('bc1p0xlxvlhemja6c4dqv22uapctqupfhlxm9h8z3k2e72q4k9hcz7vqzk5jj0')
    assert v == ('bc', 1, bytes.fromhex('79be667ef9dcbbac55a06295ce870b07029bfcdb2dce28d959f2815b16f81798'))
    assert segwit_decode('bc1pw508d6qejxtdg4y5r3zarvary0c5xw7kw508d6qejxtdg4y5r3zarvary0c5xw7kt5nd6y') == (
        'bc', 1, bytes.fromhex('751e76e8199196d454941c45d1b3a323f1433bd6751e76e8199196d454941c45d1b3a323f1433bd6'))
    assert segwit_decode('BC1SW50QGDZ25J') == ('bc', 16, bytes.fromhex('751e'))
    assert segwit_decode('bc1zw508d6qejxtdg4y5r3zarvaryvaxxpcs') == ('bc', 2, bytes.fromhex('751e76e8199196d454941c45d1b3a323'))
    for bad in ['bc1qw508d6qejxtdg4y5r3zarvary0c5xw7kemeawh',  # v0 with bech32m
                'tb1q0xlxvlhemja6c4dqv22uapctqupfhlxm9h8z3k2e72q4k9hcz7vq24jc47',
                'bc1p38j9r5y49hruaue7wxjce0updqjuyyx0kh56v8s25huc6995vvpql3jow4',
                'BC130XLXVLHEMJA6C4DQV22UAPCTQUPFHLXM9H8Z3K2E72Q4K9HCZ7VQ7ZWS8R',
                'bc1pw5dgrnzv', 'bc1p0xlxvlhemja6c4dqv22uapctqupfhlxm9h8z3k2e72q4k9hcz7v8n0nx0muaewav253zgeav',
                'BC1QR508D6QEJXTDG4Y5R3ZARVARYV98GJ9P', 'tb1p0xlxvlhemja6c4dqv22uapctqupfhlxm9h8z3k2e72q4k9hcz7vq47Zagq',
                'bc1p0xlxvlhemja6c4dqv22uapctqupfhlxm9h8z3k2e72q4k9hcz7v07qwwzcrf', 'bc1gmk9yu',
                'bc1qw508d6qejxtdg4y5r3zarvary0c5xw7kv8f3t5', 'BC13W508D6QEJXTDG4Y5R3ZARVARY0C5XW7KN40WF2',
                'bc1rw5uspcuh', 'bc10w508d6qejxtdg4y5r3zarvary0c5xw7kw508d6qejxtdg4y5r3zarvary0c5xw7kw5rljs90',
                'tb1qrp33g0q5c5txsp9arysrx4k6zdkfs4nce4xj0gdcccefvpysxf3q0sL5k7',
                'bc1zw508d6qejxtdg4y5r3zarvaryvqyzf3du', 'tb1qrp33g0q5c5txsp9arysrx4k6zdkfs4nce4xj0gdcccefvpysxf3pjxtptv']:
        assert segwit_decode(bad) is None, bad
    assert segwit_encode('bc', 0, bytes.fromhex('751e76e8199196d454941c45d1b3a323f1433bd6')) == 'bc1qw508d6qejxtdg4y5r3zarvary0c5xw7kv8f3t4'
    assert compact_size(0xfc) == b'\xfc' and compact_size(0xfd) == b'\xfd\xfd\x00' and compact_size(0xffff) == b'\xfd\xff\xff'
    assert compact_size(0x10000) == b'\xfe\x00\x00\x01\x00' and compact_size(0xffffffff) == b'\xfe\xff\xff\xff\xff'
    assert compact_size(2 ** 32) == b'\xff\x00\x00\x00\x00\x01\x00\x00\x00'
    for n in (0, 1, -1, 127, 128, -127, -128, 255, 256, 32767, 32768, -32768, 2 ** 31 - 1, -(2 ** 31 - 1), 2 ** 31):
        assert scriptnum_decode(scriptnum_encode(n)) == n
    assert scriptnum_encode(128) == b'\x80\x00' and scriptnum_encode(-128) == b'\x80\x80' and scriptnum_encode(-1) == b'\x81'
    assert scriptnum_decode(b'\x80') == 0 and scriptnum_decode(b'\x00\x80') == 0
    assert push_data(b'a' * 75)[0] == 75 and push_data(b'a' * 76)[:2] == b'\x4c\x4c' and push_data(b'a' * 256)[:3] == b'\x4d\x00\x01'
    return True
