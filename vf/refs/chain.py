"""Network constants (golden table) and the standard script <-> address mapping (BIP13/16/141/173/350).
Never imports bitcoinlib."""
import os
import json

from vf.refs import codec
from vf.refs.secp256k1 import hash160, sha256

_HERE = os.path.dirname(os.path.abspath(__file__))
GOLDEN = os.path.join(os.path.dirname(os.path.dirname(_HERE)), 'golden', 'chainparams.json')
NETWORKS = json.load(open(GOLDEN))['networks']
NETWORK_NAMES = sorted(NETWORKS)


def net(name):
    return NETWORKS[name]


# ------------------------------------------------------------ scripts
def script_p2pkh(h):
    return b'\x76\xa9\x14' + bytes(h) + b'\x88\xac'


def script_p2sh(h):
    return b'\xa9\x14' + bytes(h) + b'\x87'


def script_witness(ver, prog):
    return bytes([0x50 + ver if ver else 0]) + bytes([len(prog)]) + bytes(prog)


def script_p2pk(pub):
    return bytes([len(pub)]) + bytes(pub) + b'\xac'


def script_multisig(m, pubs):
    return bytes([0x50 + m]) + b''.join(bytes([len(p)]) + bytes(p) for p in pubs) + bytes([0x50 + len(pubs)]) + b'\xae'


def classify_script(spk):
    """-> (type, payload, witver) for the standard templates, else ('nonstandard', None, None)."""
    spk = bytes(spk)
    if len(spk) == 25 and spk[:3] == b'\x76\xa9\x14' and spk[23:] == b'\x88\xac':
        return 'p2pkh', spk[3:23], None
    if len(spk) == 23 and spk[:2] == b'\xa9\x14' and spk[22] == 0x87:
        return 'p2sh', spk[2:22], None
    if 4 <= len(spk) <= 42 and (spk[0] == 0 or 0x51 <= spk[0] <= 0x60) and spk[1] == len(spk) - 2 and 2 <= spk[1] <= 40:
        ver = 0 if spk[0] == 0 else spk[0] - 0x50
        prog = spk[2:]
        if ver == 0:
            if len(prog) == 20:
                return 'p2wpkh', prog, 0
            if len(prog) == 32:
                return 'p2wsh', prog, 0
            return 'nonstandard', None, None
        if ver == 1 and len(prog) == 32:
            return 'p2tr', prog, 1
        return 'witness_unknown', prog, ver
    if len(spk) in (35, 67) and spk[0] == len(spk) - 2 and spk[-1] == 0xac:
        return 'p2pk', spk[1:-1], None
    return 'nonstandard', None, None


# ------------------------------------------------------------ addresses
def address_base58(network, kind, h):
    """kind: 'p2pkh' | 'p2sh'"""
    ver = bytes.fromhex(NETWORKS[network][kind])
    return codec.b58check_encode(ver + bytes(h))


def address_segwit(network, witver, prog):
    return codec.segwit_encode(NETWORKS[network]['hrp'], witver, prog)


def address_for_script(network, spk):
    """Standard address for a locking script on `network`, or None when the script has no address."""
    t, payload, ver = classify_script(spk)
    if t in ('p2pkh', 'p2sh'):
        return address_base58(network, t, payload)
    if t in ('p2wpkh', 'p2wsh', 'p2tr', 'witness_unknown'):
        return address_segwit(network, ver, payload)
    return None


def decode_address(s):
    """All readings of string s as an address: list of dicts {networks:[..], type, payload, witver, encoding,
    script}. Empty list = not a valid address of any known network."""
    out = []
    pl = codec.b58check_decode(s) if isinstance(s, str) else None
    if pl is not None and len(pl) == 21:
        v = pl[:1].hex().upper()
        for kind in ('p2pkh', 'p2sh'):
            nets = [n for n in NETWORK_NAMES if NETWORKS[n][kind] == v]
            if nets:
                h = pl[1:]
                out.append({'networks': nets, 'type': kind, 'payload': h, 'witver': None, 'encoding': 'base58',
                            'script': script_p2pkh(h) if kind == 'p2pkh' else script_p2sh(h)})
    d = codec.segwit_decode(s) if isinstance(s, str) else None
    if d is not None:
        hrp, ver, prog = d
        nets = [n for n in NETWORK_NAMES if NETWORKS[n]['hrp'] == hrp]
        if nets:
            t = classify_script(script_witness(ver, prog))[0]
            out.append({'networks': nets, 'type': t, 'payload': prog, 'witver': ver, 'encoding': 'bech32',
                        'script': script_witness(ver, prog)})
    return out


def address_network_ok(s, network):
    """True when some reading of s belongs to `network` (shared prefixes are not foreign)."""
    return any(network in r['networks'] for r in decode_address(s))


# ------------------------------------------------------------ key encodings
def wif_encode(network, secret32, compressed=True):
    return codec.b58check_encode(bytes.fromhex(NETWORKS[network]['wif']) + bytes(secret32) + (b'\x01' if compressed else b''))


def wif_decode(s):
    """-> (networks, secret32, compressed) or None."""
    pl = codec.b58check_decode(s)
    if pl is None:
        return None
    v = pl[:1].hex().upper()
    nets = [n for n in NETWORK_NAMES if NETWORKS[n]['wif'] == v]
    if not nets:
        return None
    if len(pl) == 33:
        return nets, pl[1:], False
    if len(pl) == 34 and pl[33] == 1:
        return nets, pl[1:33], True
    return None


def hd_prefix(network, witness_type='legacy', multisig=False, private=False):
    ent = NETWORKS[network]['hd'].get(witness_type)
    if ent is None:
        return None
    return bytes.fromhex(ent['multisig' if multisig else 'single'][1 if private else 0])


def hd_prefix_readings(prefix4):
    """All (network, witness_type, multisig, is_private) that use this 4-byte extended key version."""
    out = []
    h = bytes(prefix4).hex().upper()
    for n in NETWORK_NAMES:
        for wt, ent in NETWORKS[n]['hd'].items():
            for ms in ('single', 'multisig'):
                for priv in (0, 1):
                    if ent[ms][priv] == h:
                        out.append((n, wt, ms == 'multisig', bool(priv)))
    return out


def selfcheck():
    h = bytes.fromhex('751e76e8199196d454941c45d1b3a323f1433bd6')
    assert address_base58('bitcoin', 'p2pkh', h) == '1BgGZ9tcN4rm9KBzDn7KprQz87SZ26SAMH'
    assert address_segwit('bitcoin', 0, h) == 'bc1qw508d6qejxtdg4y5r3zarvary0c5xw7kv8f3t4'
    assert address_base58('bitcoin', 'p2sh', hash160(script_witness(0, h))) == '3JvL6Ymt8MVWiCNHC7oWU6nLeHNJKLZGLN'
    r = decode_address('1BgGZ9tcN4rm9KBzDn7KprQz87SZ26SAMH')
    assert len(r) == 1 and r[0]['type'] == 'p2pkh' and 'bitcoin' in r[0]['networks'] and r[0]['payload'] == h
    assert classify_script(script_p2pkh(h))[0] == 'p2pkh' and classify_script(script_witness(1, b'\1' * 32))[0] == 'p2tr'
    assert wif_encode('bitcoin', (1).to_bytes(32, 'big')) == 'KwDiBf89QgGbjEhKnhXJuH7LrciVrZi3qYjgd9M7rFU73sVHnoWn'
    assert wif_encode('bitcoin', (1).to_bytes(32, 'big'), False) == '5HpHagT65TZzG1PH3CSu63k8DbpvD8s5ip4nEB3kEsreAnchuDf'
    assert wif_decode('5HpHagT65TZzG1PH3CSu63k8DbpvD8s5ip4nEB3kEsreAnchuDf')[1:] == ((1).to_bytes(32, 'big'), False)
    return True
