"""Independent transaction / block serializer and parser (legacy + BIP144), ids, weight, legacy and BIP143
signature hashes, and a consensus-style spend verifier for the standard templates. stdlib only."""
import struct

from vf.refs import secp256k1 as ec
from vf.refs import codec
from vf.refs.codec import compact_size as cs

SIGHASH_ALL, SIGHASH_NONE, SIGHASH_SINGLE, SIGHASH_ANYONECANPAY = 1, 2, 3, 0x80


class Reader:
    def __init__(self, b, pos=0):
        self.b = bytes(b)
        self.i = pos

    def rd(self, k):
        v = self.b[self.i:self.i + k]
        if len(v) != k:
            raise ValueError('truncated')
        self.i += k
        return v

    def cs(self):
        f = self.rd(1)[0]
        if f < 0xfd:
            return f
        return int.from_bytes(self.rd({0xfd: 2, 0xfe: 4, 0xff: 8}[f]), 'little')


def tx(version=1, ins=(), outs=(), locktime=0, segwit=None):
    """ins: dicts {txid(32 bytes, internal order), n, script, seq, wit:[items]}; outs: {value, script}."""
    t = {'version': version, 'ins': [dict(i) for i in ins], 'outs': [dict(o) for o in outs], 'locktime': locktime}
    for i in t['ins']:
        i.setdefault('script', b'')
        i.setdefault('seq', 0xffffffff)
        i.setdefault('wit', [])
    t['segwit'] = any(i['wit'] for i in t['ins']) if segwit is None else segwit
    return t


def ser_in(i, script=None):
    sc = i['script'] if script is None else script
    return i['txid'] + struct.pack('<I', i['n']) + cs(len(sc)) + sc + struct.pack('<I', i['seq'])


def ser_out(o):
    return struct.pack('<q', o['value']) + cs(len(o['script'])) + o['script']


def ser_stripped(t):
    return (struct.pack('<I', t['version'] & 0xffffffff) + cs(len(t['ins'])) + b''.join(ser_in(i) for i in t['ins']) +
            cs(len(t['outs'])) + b''.join(ser_out(o) for o in t['outs']) + struct.pack('<I', t['locktime']))


def ser_wit(i):
    return cs(len(i['wit'])) + b''.join(cs(len(w)) + w for w in i['wit'])


def serialize(t):
    if not t['segwit']:
        return ser_stripped(t)
    return (struct.pack('<I', t['version'] & 0xffffffff) + b'\x00\x01' + cs(len(t['ins'])) +
            b''.join(ser_in(i) for i in t['ins']) + cs(len(t['outs'])) + b''.join(ser_out(o) for o in t['outs']) +
            b''.join(ser_wit(i) for i in t['ins']) + struct.pack('<I', t['locktime']))


def parse(raw, pos=0, whole=True):
    r = Reader(raw, pos)
    version = struct.unpack('<I', r.rd(4))[0]
    seg = False
    if r.b[r.i:r.i + 2] == b'\x00\x01':
        seg = True
        r.rd(2)
    ins = []
    for _ in range(r.cs()):
        txid = r.rd(32)
        n = struct.unpack('<I', r.rd(4))[0]
        script = r.rd(r.cs())
        seq = struct.unpack('<I', r.rd(4))[0]
        ins.append({'txid': txid, 'n': n, 'script': script, 'seq': seq, 'wit': []})
    outs = []
    for _ in range(r.cs()):
        value = struct.unpack('<q', r.rd(8))[0]
        outs.append({'value': value, 'script': r.rd(r.cs())})
    if seg:
        for i in ins:
            i['wit'] = [r.rd(r.cs()) for _ in range(r.cs())]
    locktime = struct.unpack('<I', r.rd(4))[0]
    if whole and r.i != len(r.b):
        raise ValueError('trailing bytes')
    t = {'version': version, 'ins': ins, 'outs': outs, 'locktime': locktime, 'segwit': seg}
    return t if whole else (t, r.i)


def txid(t):
    """hex, display order"""
    return ec.dsha256(ser_stripped(t))[::-1].hex()


def wtxid(t):
    return ec.dsha256(serialize(t))[::-1].hex()


def weight(t):
    return len(ser_stripped(t)) * 3 + len(serialize(t))


def vsize(t):
    return (weight(t) + 3) // 4


def is_coinbase(t):
    return len(t['ins']) == 1 and t['ins'][0]['txid'] == b'\0' * 32 and t['ins'][0]['n'] == 0xffffffff


# ------------------------------------------------------------------ signature hashes
def find_and_delete_codesep(script):
    # scriptCode for legacy: OP_CODESEPARATOR removed (only matters for non-standard scripts; templates have none)
    return script


def sighash_legacy(t, idx, script_code, hashtype=1):
    """Original SignatureHash (pre-segwit). Returns 32 bytes."""
    base = hashtype & 0x1f
    acp = bool(hashtype & SIGHASH_ANYONECANPAY)
    if idx >= len(t['ins']):
        return (1).to_bytes(32, 'little')
    if base == SIGHASH_SINGLE and idx >= len(t['outs']):
        return (1).to_bytes(32, 'little')
    ins = []
    for j, i in enumerate(t['ins']):
        if acp and j != idx:
            continue
        sc = script_code if j == idx else b''
        seq = i['seq']
        if j != idx and base in (SIGHASH_NONE, SIGHASH_SINGLE):
            seq = 0
        ins.append(i['txid'] + struct.pack('<I', i['n']) + cs(len(sc)) + sc + struct.pack('<I', seq))
    if base == SIGHASH_NONE:
        outs = []
    elif base == SIGHASH_SINGLE:
        outs = [struct.pack('<q', -1) + cs(0)] * idx + [ser_out(t['outs'][idx])]
    else:
        outs = [ser_out(o) for o in t['outs']]
    pre = (struct.pack('<I', t['version'] & 0xffffffff) + cs(len(ins)) + b''.join(ins) + cs(len(outs)) + b''.join(outs) +
           struct.pack('<I', t['locktime']) + struct.pack('<I', hashtype & 0xffffffff))
    return ec.dsha256(pre)


def sighash_bip143(t, idx, script_code, amount, hashtype=1):
    base = hashtype & 0x1f
    acp = bool(hashtype & SIGHASH_ANYONECANPAY)
    zero = b'\0' * 32
    hp = zero if acp else ec.dsha256(b''.join(i['txid'] + struct.pack('<I', i['n']) for i in t['ins']))
    hs = zero if (acp or base in (SIGHASH_NONE, SIGHASH_SINGLE)) else ec.dsha256(b''.join(struct.pack('<I', i['seq']) for i in t['ins']))
    if base not in (SIGHASH_NONE, SIGHASH_SINGLE):
        ho = ec.dsha256(b''.join(ser_out(o) for o in t['outs']))
    elif base == SIGHASH_SINGLE and idx < len(t['outs']):
        ho = ec.dsha256(ser_out(t['outs'][idx]))
    else:
        ho = zero
    i = t['ins'][idx]
    pre = (struct.pack('<I', t['version'] & 0xffffffff) + hp + hs + i['txid'] + struct.pack('<I', i['n']) + cs(len(script_code)) +
           script_code + struct.pack('<q', amount) + struct.pack('<I', i['seq']) + ho + struct.pack('<I', t['locktime']) +
           struct.pack('<I', hashtype & 0xffffffff))
    return ec.dsha256(pre)


# ------------------------------------------------------------------ spend verification of standard templates
def push_only_items(script):
    """Items of a push-only script (OP_0, direct pushes, OP_1NEGATE/OP_1..16), else ValueError."""
    out = []
    for op, data in codec.script_tokens(script):
        if data is not None:
            out.append(data)
        elif op == 0x4f:
            out.append(b'\x81')
        elif 0x51 <= op <= 0x60:
            out.append(bytes([op - 0x50]))
        else:
            raise ValueError('non-push opcode %02x' % op)
    return out


def parse_multisig(script):
    """OP_m <pub>... OP_n OP_CHECKMULTISIG -> (m, [pubs]) or None."""
    try:
        toks = codec.script_tokens(script)
    except ValueError:
        return None
    if len(toks) < 4 or toks[-1] != (0xae, None):
        return None
    opm, opn = toks[0][0], toks[-2][0]
    if not (0x51 <= opm <= 0x60 and 0x51 <= opn <= 0x60) or toks[0][1] is not None or toks[-2][1] is not None:
        return None
    pubs = []
    for op, data in toks[1:-2]:
        if data is None or len(data) not in (33, 65):
            return None
        pubs.append(data)
    m, n = opm - 0x50, opn - 0x50
    if n != len(pubs) or m > n or m < 1:
        return None
    return m, pubs


def check_sig(sig, pub, digestfn, strict=True):
    """sig includes the hash-type byte. Returns True iff a consensus node (with DERSIG) accepts."""
    if len(sig) < 9:
        return False
    rs = ec.der_parse_strict(sig[:-1])
    if rs is None:
        return False
    pt = ec.decode_pub(pub)
    if pt is None:
        return False
    z = int.from_bytes(digestfn(sig[-1]), 'big')
    return ec.ecdsa_verify(z, rs[0], rs[1], pt)


def check_multisig(sigs, m, pubs, digestfn):
    """Consensus CHECKMULTISIG ordering: signatures must match keys in order; exactly m signatures."""
    if len(sigs) != m:
        return False, []
    used = []
    ki = 0
    for s in sigs:
        while ki < len(pubs) and not check_sig(s, pubs[ki], digestfn):
            ki += 1
        if ki >= len(pubs):
            return False, used
        used.append(ki)
        ki += 1
    return True, used


class SpendResult:
    def __init__(self, ok, reason='', kind='', signers=(), hashtypes=()):
        self.ok = ok
        self.reason = reason
        self.kind = kind
        self.signers = list(signers)   # indices into the key list that produced valid signatures
        self.hashtypes = list(hashtypes)

    def __bool__(self):
        return self.ok

    def __repr__(self):
        return 'SpendResult(%s, %r, %s, signers=%s)' % (self.ok, self.reason, self.kind, self.signers)


def verify_input(t, idx, spk, amount):
    """Does input idx of parsed tx t validly spend an output with locking script spk and value amount?
    Covers P2PK, P2PKH, bare multisig, P2SH-multisig, P2WPKH, P2WSH-multisig, P2SH-P2WPKH, P2SH-P2WSH-multisig."""
    i = t['ins'][idx]
    spk = bytes(spk)

    def leg(sc):
        return lambda ht: sighash_legacy(t, idx, sc, ht)

    def seg(sc):
        return lambda ht: sighash_bip143(t, idx, sc, amount, ht)

    def p2wpkh(prog, wit):
        if len(wit) != 2:
            return SpendResult(False, 'p2wpkh witness must have 2 items', 'p2wpkh')
        sig, pub = wit
        if ec.hash160(pub) != prog:
            return SpendResult(False, 'pubkey hash mismatch', 'p2wpkh')
        ok = check_sig(sig, pub, seg(b'\x76\xa9\x14' + prog + b'\x88\xac'))
        return SpendResult(ok, '' if ok else 'bad signature', 'p2wpkh', [0] if ok else [], [sig[-1]] if sig else [])

    def p2wsh(prog, wit):
        if not wit:
            return SpendResult(False, 'empty witness', 'p2wsh')
        ws = wit[-1]
        if ec.sha256(ws) != prog:
            return SpendResult(False, 'witness script hash mismatch', 'p2wsh')
        ms = parse_multisig(ws)
        if ms is None:
            return SpendResult(False, 'witness script is not a multisig template', 'p2wsh')
        if len(wit) < 2 or wit[0] != b'':
            return SpendResult(False, 'missing dummy element', 'p2wsh')
        ok, used = check_multisig(wit[1:-1], ms[0], ms[1], seg(ws))
        return SpendResult(ok, '' if ok else 'multisig check failed', 'p2wsh', used, [s[-1] for s in wit[1:-1] if s])

    try:
        t_, payload, ver = _classify(spk)
        if t_ == 'p2pkh':
            items = push_only_items(i['script'])
            if i['wit']:
                return SpendResult(False, 'unexpected witness', t_)
            if len(items) != 2:
                return SpendResult(False, 'scriptSig must be <sig> <pub>', t_)
            sig, pub = items
            if ec.hash160(pub) != payload:
                return SpendResult(False, 'pubkey hash mismatch', t_)
            ok = check_sig(sig, pub, leg(spk))
            return SpendResult(ok, '' if ok else 'bad signature', t_, [0] if ok else [], [sig[-1]] if sig else [])
        if t_ == 'p2pk':
            items = push_only_items(i['script'])
            if i['wit'] or len(items) != 1:
                return SpendResult(False, 'scriptSig must be <sig>', t_)
            ok = check_sig(items[0], payload, leg(spk))
            return SpendResult(ok, '' if ok else 'bad signature', t_, [0] if ok else [], [items[0][-1]] if items[0] else [])
        if t_ == 'multisig':
            items = push_only_items(i['script'])
            if i['wit'] or not items or items[0] != b'':
                return SpendResult(False, 'missing dummy', t_)
            m, pubs = payload
            ok, used = check_multisig(items[1:], m, pubs, leg(spk))
            return SpendResult(ok, '' if ok else 'multisig check failed', t_, used)
        if t_ == 'p2wpkh':
            if i['script']:
                return SpendResult(False, 'scriptSig must be empty', t_)
            return p2wpkh(payload, i['wit'])
        if t_ == 'p2wsh':
            if i['script']:
                return SpendResult(False, 'scriptSig must be empty', t_)
            return p2wsh(payload, i['wit'])
        if t_ == 'p2sh':
            items = push_only_items(i['script'])
            if not items:
                return SpendResult(False, 'empty scriptSig', t_)
            rs = items[-1]
            if ec.hash160(rs) != payload:
                return SpendResult(False, 'redeem script hash mismatch', t_)
            if len(rs) == 22 and rs[:2] == b'\x00\x14':
                if len(items) != 1 or i['script'] != codec.push_data(rs):
                    return SpendResult(False, 'nested scriptSig must be exactly one push of the program', 'p2sh-p2wpkh')
                r = p2wpkh(rs[2:], i['wit'])
                r.kind = 'p2sh-p2wpkh'
                return r
            if len(rs) == 34 and rs[:2] == b'\x00\x20':
                if len(items) != 1 or i['script'] != codec.push_data(rs):
                    return SpendResult(False, 'nested scriptSig must be exactly one push of the program', 'p2sh-p2wsh')
                r = p2wsh(rs[2:], i['wit'])
                r.kind = 'p2sh-p2wsh'
                return r
            ms = parse_multisig(rs)
            if ms is None:
                return SpendResult(False, 'redeem script is not a multisig template', 'p2sh')
            if i['wit'] or items[0] != b'':
                return SpendResult(False, 'missing dummy / unexpected witness', 'p2sh-multisig')
            ok, used = check_multisig(items[1:-1], ms[0], ms[1], leg(rs))
            return SpendResult(ok, '' if ok else 'multisig check failed', 'p2sh-multisig', used, [s[-1] for s in items[1:-1] if s])
        return SpendResult(False, 'unsupported locking script', 'unknown')
    except (ValueError, IndexError) as e:
        return SpendResult(False, 'malformed: %r' % (e,), 'error')


def _classify(spk):
    from vf.refs.chain import classify_script
    t_, payload, ver = classify_script(spk)
    if t_ == 'nonstandard':
        ms = parse_multisig(spk)
        if ms is not None:
            return 'multisig', ms, None
    return t_, payload, ver


# ------------------------------------------------------------------ blocks
def block_header(version, prev, merkle, time, bits, nonce):
    return struct.pack('<I', version) + prev + merkle + struct.pack('<I', time) + struct.pack('<I', bits) + struct.pack('<I', nonce)


def merkle_root(txids_internal):
    layer = list(txids_internal)
    if not layer:
        return b'\0' * 32
    while len(layer) > 1:
        if len(layer) & 1:
            layer.append(layer[-1])
        layer = [ec.dsha256(layer[k] + layer[k + 1]) for k in range(0, len(layer), 2)]
    return layer[0]


def bits_to_target(bits):
    exp = bits >> 24
    mant = bits & 0x007fffff
    if exp <= 3:
        return mant >> (8 * (3 - exp))
    return mant << (8 * (exp - 3))


def selfcheck():
    # BIP143 native P2WPKH example
    raw = bytes.fromhex('0100000002fff7f7881a8099afa6940d42d1e7f6362bec38171ea3edf433541db4e4ad969f0000000000eeffffffef51e1b804cc89d182d279655c3aa89e815b1b309fe287d9b2b55d57b90ec68a0100000000ffffffff02202cb206000000001976a9148280b37df378db99f66f85c95a783a76ac7a6d5988ac9093510d000000001976a9143bde42dbee7e4dbe6a21b2d50ce2f0167faa815988ac11000000')
    t = parse(raw)
    assert serialize(t) == raw
    sc = bytes.fromhex('76a9141d0f172a0ecb48aee1be1f2687d2963ae33f71a188ac')
    assert sighash_bip143(t, 1, sc, 600000000, 1).hex() == 'c37af31116d1b27caf68aae9e3ac82f1477929014d5b917657d0eb49478cb670'
    # BIP143 P2SH-P2WPKH example
    raw2 = bytes.fromhex('0100000001db6b1b20aa0fd7b23880be2ecbd4a98130974cf4748fb66092ac4d3ceb1a54770100000000feffffff02b8b4eb0b000000001976a914a457b684d7f0d539a46a45bbc043f35b59d0d96388ac0008af2f000000001976a914fd270b1ee6abcaea97fea7ad0402e8bd8ad6d77c88ac92040000')
    t2 = parse(raw2)
    sc2 = bytes.fromhex('76a91479091972186c449eb1ded22b78e40d009bdf008988ac')
    assert sighash_bip143(t2, 0, sc2, 1000000000, 1).hex() == '64f3b0f4dd2bb3aa1ce8566d220cc74dda9df97d8490cc81d89d735c92e59fb6'
    # BIP143 P2WSH example with SIGHASH_SINGLE (first sig, before codeseparator): only hash check with full script
    raw3 = bytes.fromhex('0100000002fe3dc9208094f3ffd12645477b3dc56f60ec4fa8e6f5d67c565d1c6b9216b36e0000000000ffffffff0815cf020f013ed6cf91d29f4202e8a58726b1ac6c79da47c23d1bee0a6925f80000000000ffffffff0100f2052a010000001976a914a30741f8145e5acadf23f751864167f32e0963f788ac00000000')
    t3 = parse(raw3)
    ws = bytes.fromhex('21026dccc749adc2a9d0d89497ac511f760f45c47dc5ed9cf352a58ac706453880aeadab210255a9626aebf5e29c0e6538428ba0d1dcf6ca98ffdf086aa8ced5e0d0215ea465ac')
    assert sighash_bip143(t3, 1, ws, 4900000000, 3).hex() == '82dde6e4f1e94d02c2b7ad03d2115d691f48d064e9d52f58194a6637e4194391'
    # a real mainnet P2PKH spend (block 170 tx spends P2PK): f4184fc5...
    raw4 = bytes.fromhex('0100000001c997a5e56e104102fa209c6a852dd90660a20b2d9c352423edce25857fcd3704000000004847304402204e45e16932b8af514961a1d3a1a25fdf3f4f7732e9d624c6c61548ab5fb8cd410220181522ec8eca07de4860a4acdd12909d831cc56cbbac4622082221a8768d1d0901ffffffff0200ca9a3b00000000434104ae1a62fe09c5f51b13905f07f06b99a2f7159b2225f374cd378d71302fa28414e7aab37397f554a7df5f142c21c1b7303b8a0626f1baded5c72a704f7e6cd84cac00286bee0000000043410411db93e1dcdb8a016b49840f8c53bc1eb68a382e97b1482ecad7b148a6909a5cb2e0eaddfb84ccf9744464f82e160bfa9b8b64f9d4c03f999b8643f656b412a3ac00000000')
    t4 = parse(raw4)
    assert txid(t4) == 'f4184fc596403b9d638783cf57adfe4c75c605f6356fbc91338530e9831e9e16'
    spk4 = bytes.fromhex('410411db93e1dcdb8a016b49840f8c53bc1eb68a382e97b1482ecad7b148a6909a5cb2e0eaddfb84ccf9744464f82e160bfa9b8b64f9d4c03f999b8643f656b412a3ac')
    assert verify_input(t4, 0, spk4, 5000000000).ok
    assert bits_to_target(0x1d00ffff) == 0xffff << 208
    return True
