"""Consensus script interpreter for the opcode set bitcoinlib implements.

Written from the semantics of Bitcoin Core's `script/interpreter.cpp` (`EvalScript`, `CastToBool`, `CScriptNum`,
`CheckSignatureEncoding`, `GenericTransactionSignatureChecker::CheckLockTime/CheckSequence`) for signature version
BASE.  Standard library + vf.refs.secp256k1 only; never imports bitcoinlib.

A script is a list of commands: ints are opcodes (0, 0x4f, 0x51..0x60 push small numbers), bytes are data pushes.
The signature digest is *supplied* (bytes, or a callable hash_type -> bytes); computing it is the subject of C01.

Flags: the block-validation (consensus) set is the default: DERSIG (BIP66), NULLDUMMY (BIP147), CLTV (BIP65),
CSV (BIP112).  Policy-only flags (MINIMALDATA, MINIMALIF for BASE, LOW_S, STRICTENC, NULLFAIL, CLEANSTACK,
DISCOURAGE_UPGRADABLE_NOPS) are not applied.
"""
import hashlib

from vf.refs import secp256k1 as ec

# ------------------------------------------------------------------ opcode table (script/script.h)
_NAMES = {
    0x00: 'OP_0', 0x4c: 'OP_PUSHDATA1', 0x4d: 'OP_PUSHDATA2', 0x4e: 'OP_PUSHDATA4', 0x4f: 'OP_1NEGATE',
    0x50: 'OP_RESERVED', 0x61: 'OP_NOP', 0x62: 'OP_VER', 0x63: 'OP_IF', 0x64: 'OP_NOTIF', 0x65: 'OP_VERIF',
    0x66: 'OP_VERNOTIF', 0x67: 'OP_ELSE', 0x68: 'OP_ENDIF', 0x69: 'OP_VERIFY', 0x6a: 'OP_RETURN',
    0x6b: 'OP_TOALTSTACK', 0x6c: 'OP_FROMALTSTACK', 0x6d: 'OP_2DROP', 0x6e: 'OP_2DUP', 0x6f: 'OP_3DUP',
    0x70: 'OP_2OVER', 0x71: 'OP_2ROT', 0x72: 'OP_2SWAP', 0x73: 'OP_IFDUP', 0x74: 'OP_DEPTH', 0x75: 'OP_DROP',
    0x76: 'OP_DUP', 0x77: 'OP_NIP', 0x78: 'OP_OVER', 0x79: 'OP_PICK', 0x7a: 'OP_ROLL', 0x7b: 'OP_ROT',
    0x7c: 'OP_SWAP', 0x7d: 'OP_TUCK', 0x7e: 'OP_CAT', 0x7f: 'OP_SUBSTR', 0x80: 'OP_LEFT', 0x81: 'OP_RIGHT',
    0x82: 'OP_SIZE', 0x83: 'OP_INVERT', 0x84: 'OP_AND', 0x85: 'OP_OR', 0x86: 'OP_XOR', 0x87: 'OP_EQUAL',
    0x88: 'OP_EQUALVERIFY', 0x89: 'OP_RESERVED1', 0x8a: 'OP_RESERVED2', 0x8b: 'OP_1ADD', 0x8c: 'OP_1SUB',
    0x8d: 'OP_2MUL', 0x8e: 'OP_2DIV', 0x8f: 'OP_NEGATE', 0x90: 'OP_ABS', 0x91: 'OP_NOT', 0x92: 'OP_0NOTEQUAL',
    0x93: 'OP_ADD', 0x94: 'OP_SUB', 0x95: 'OP_MUL', 0x96: 'OP_DIV', 0x97: 'OP_MOD', 0x98: 'OP_LSHIFT',
    0x99: 'OP_RSHIFT', 0x9a: 'OP_BOOLAND', 0x9b: 'OP_BOOLOR', 0x9c: 'OP_NUMEQUAL', 0x9d: 'OP_NUMEQUALVERIFY',
    0x9e: 'OP_NUMNOTEQUAL', 0x9f: 'OP_LESSTHAN', 0xa0: 'OP_GREATERTHAN', 0xa1: 'OP_LESSTHANOREQUAL',
    0xa2: 'OP_GREATERTHANOREQUAL', 0xa3: 'OP_MIN', 0xa4: 'OP_MAX', 0xa5: 'OP_WITHIN', 0xa6: 'OP_RIPEMD160',
    0xa7: 'OP_SHA1', 0xa8: 'OP_SHA256', 0xa9: 'OP_HASH160', 0xaa: 'OP_HASH256', 0xab: 'OP_CODESEPARATOR',
    0xac: 'OP_CHECKSIG', 0xad: 'OP_CHECKSIGVERIFY', 0xae: 'OP_CHECKMULTISIG', 0xaf: 'OP_CHECKMULTISIGVERIFY',
    0xb0: 'OP_NOP1', 0xb1: 'OP_CHECKLOCKTIMEVERIFY', 0xb2: 'OP_CHECKSEQUENCEVERIFY', 0xb3: 'OP_NOP4',
    0xb4: 'OP_NOP5', 0xb5: 'OP_NOP6', 0xb6: 'OP_NOP7', 0xb7: 'OP_NOP8', 0xb8: 'OP_NOP9', 0xb9: 'OP_NOP10',
}
for _i in range(1, 17):
    _NAMES[0x50 + _i] = 'OP_%d' % _i
OPNAME = dict(_NAMES)
OP = {v: k for k, v in OPNAME.items()}

DISABLED = frozenset(OP[n] for n in ('OP_CAT', 'OP_SUBSTR', 'OP_LEFT', 'OP_RIGHT', 'OP_INVERT', 'OP_AND', 'OP_OR',
                                     'OP_XOR', 'OP_2MUL', 'OP_2DIV', 'OP_MUL', 'OP_DIV', 'OP_MOD', 'OP_LSHIFT',
                                     'OP_RSHIFT'))
# opcodes that make a script fail even inside a non-executed branch
ALWAYS_FAIL = DISABLED | {OP['OP_VERIF'], OP['OP_VERNOTIF']}
NOPS = frozenset([OP['OP_NOP'], OP['OP_NOP1']] + [OP['OP_NOP%d' % i] for i in range(4, 11)])

MAX_ELEMENT = 520
MAX_OPS = 201
MAX_STACK = 1000
MAX_SCRIPT_SIZE = 10000
MAX_PUBKEYS = 20
LOCKTIME_THRESHOLD = 500000000
SEQUENCE_FINAL = 0xffffffff
SEQ_DISABLE = 1 << 31
SEQ_TYPE = 1 << 22
SEQ_MASK = 0x0000ffff

CONSENSUS_FLAGS = frozenset({'DERSIG', 'NULLDUMMY', 'CLTV', 'CSV'})


class ScriptFail(Exception):
    def __init__(self, reason):
        Exception.__init__(self, reason)
        self.reason = reason


# ------------------------------------------------------------------ values
def cast_to_bool(v):
    """CastToBool: false iff all bytes are zero, allowing 0x80 in the last byte (negative zero)."""
    v = bytes(v)
    for i, b in enumerate(v):
        if b != 0:
            return not (i == len(v) - 1 and b == 0x80)
    return False


def num_encode(n):
    """CScriptNum::serialize"""
    if n == 0:
        return b''
    neg = n < 0
    a = -n if neg else n
    out = bytearray()
    while a:
        out.append(a & 0xff)
        a >>= 8
    if out[-1] & 0x80:
        out.append(0x80 if neg else 0x00)
    elif neg:
        out[-1] |= 0x80
    return bytes(out)


def num_decode(v, max_size=4, minimal=False, ctx=None):
    """CScriptNum(vch, fRequireMinimal, nMaxNumSize): ScriptFail on overflow."""
    v = bytes(v)
    if len(v) > max_size and not (ctx is not None and 'NUM_ANYSIZE' in ctx.model):
        raise ScriptFail('script number overflow')
    if minimal and v:
        if (v[-1] & 0x7f) == 0 and (len(v) <= 1 or not (v[-2] & 0x80)):
            raise ScriptFail('non-minimally encoded script number')
    if not v:
        return 0
    r = int.from_bytes(v, 'little')
    if v[-1] & 0x80:
        return -(r & ~(0x80 << (8 * (len(v) - 1))))
    return r


def _bool(b):
    return b'\x01' if b else b''


def push_size(data):
    n = len(data)
    return n + (1 if n < 0x4c else 2 if n <= 0xff else 3 if n <= 0xffff else 5)


def script_size(cmds):
    return sum(1 if isinstance(c, int) else push_size(c) for c in cmds)


def is_push(c):
    return (not isinstance(c, int)) or c == 0 or c == 0x4f or 0x51 <= c <= 0x60


def push_value(c):
    if not isinstance(c, int):
        return bytes(c)
    if c == 0:
        return b''
    if c == 0x4f:
        return num_encode(-1)
    return num_encode(c - 0x50)


# ------------------------------------------------------------------ signatures
def is_valid_signature_encoding(sig):
    """BIP66 IsValidSignatureEncoding (sig includes the hash-type byte)."""
    sig = bytes(sig)
    if len(sig) < 9 or len(sig) > 73:
        return False
    if sig[0] != 0x30 or sig[1] != len(sig) - 3:
        return False
    len_r = sig[3]
    if 5 + len_r >= len(sig):
        return False
    len_s = sig[5 + len_r]
    if len_r + len_s + 7 != len(sig):
        return False
    if sig[2] != 0x02 or len_r == 0 or (sig[4] & 0x80):
        return False
    if len_r > 1 and sig[4] == 0 and not (sig[5] & 0x80):
        return False
    if sig[len_r + 4] != 0x02 or len_s == 0 or (sig[len_r + 6] & 0x80):
        return False
    if len_s > 1 and sig[len_r + 6] == 0 and not (sig[len_r + 7] & 0x80):
        return False
    return True


def parse_der_lax(sig):
    """ecdsa_signature_parse_der_lax (pubkey.cpp): -> (r, s) or None. Overflowing values give (0, 0)."""
    sig = bytes(sig)
    n = len(sig)
    pos = 0
    if pos == n or sig[pos] != 0x30:
        return None
    pos += 1
    if pos == n:
        return None
    lenbyte = sig[pos]
    pos += 1
    if lenbyte & 0x80:
        lenbyte -= 0x80
        if lenbyte > n - pos:
            return None
        pos += lenbyte
    out = []
    for _ in range(2):
        if pos == n or sig[pos] != 0x02:
            return None
        pos += 1
        if pos == n:
            return None
        lenbyte = sig[pos]
        pos += 1
        if lenbyte & 0x80:
            lenbyte -= 0x80
            if lenbyte > n - pos:
                return None
            while lenbyte > 0 and sig[pos] == 0:
                pos += 1
                lenbyte -= 1
            if lenbyte >= 8:
                return None
            ilen = 0
            while lenbyte > 0:
                ilen = (ilen << 8) + sig[pos]
                pos += 1
                lenbyte -= 1
        else:
            ilen = lenbyte
        if ilen > n - pos:
            return None
        ipos = pos
        pos += ilen
        out.append((ipos, ilen))
    vals = []
    overflow = False
    for ipos, ilen in out:
        while ilen > 0 and sig[ipos] == 0:
            ilen -= 1
            ipos += 1
        if ilen > 32:
            overflow = True
            vals.append(0)
        else:
            vals.append(int.from_bytes(sig[ipos:ipos + ilen], 'big'))
    if overflow or vals[0] >= ec.N or vals[1] >= ec.N:
        return (0, 0)
    return (vals[0], vals[1])


def decode_pubkey(pub):
    """CPubKey + secp256k1_ec_pubkey_parse: compressed, uncompressed and hybrid (06/07) encodings."""
    pub = bytes(pub)
    if len(pub) == 65 and pub[0] in (6, 7):
        pt = (int.from_bytes(pub[1:33], 'big'), int.from_bytes(pub[33:], 'big'))
        if not ec.on_curve(pt) or (pt[1] & 1) != (pub[0] & 1):
            return None
        return pt
    return ec.decode_pub(pub)


class Ctx:
    """Evaluation context: supplied digest, flags, and the transaction fields CLTV/CSV look at."""

    def __init__(self, digest=None, flags=CONSENSUS_FLAGS, locktime=None, sequence=None, version=None, model=()):
        self.digest = digest
        self.flags = frozenset(flags)
        # `model`: named departures from consensus, used ONLY to attribute an already established disagreement to a
        # mechanism (feature ablation), never to judge: NOLIMITS (no size/count limits), NO_UNEXECUTED_FAIL (disabled
        # opcodes / OP_VERIF only fail when executed), SINGLE_ELSE (only the first OP_ELSE of a level switches, later
        # ones are ignored), FINAL_BYTEWISE (final check is `top != b''`), CMS_COUNTS_UNCHECKED (CHECKMULTISIG counts of any
        # size/sign/relation accepted, a negative count meaning zero items), CMS_DUMMY_OPTIONAL (the extra element is only
        # popped when present), SIG_RAW64 (a 64-byte r||s string is accepted as a signature), NUM_ANYSIZE (no 4/5-byte
        # operand limit), CLTV_THRESHOLD_5E7 (locktime type threshold 50,000,000), CLTV_ZERO_TXLOCKTIME_FAILS.
        self.model = frozenset(model)
        self.locktime = locktime
        self.sequence = sequence
        self.version = version
        self.sigchecks = 0

    def get_digest(self, hash_type):
        d = self.digest
        if callable(d):
            d = d(hash_type)
        return d

    def check_sig_encoding(self, sig):
        # CheckSignatureEncoding: an empty signature is always allowed (it simply fails the check)
        if len(sig) == 0:
            return
        if 'SIG_RAW64' in self.model and len(sig) == 64:
            return
        if 'DERSIG' in self.flags and not is_valid_signature_encoding(sig):
            raise ScriptFail('non-canonical DER signature')

    def check_sig(self, sig, pub):
        """GenericTransactionSignatureChecker::CheckECDSASignature with the supplied digest."""
        self.sigchecks += 1
        sig = bytes(sig)
        pt = decode_pubkey(pub)
        if pt is None:
            return False
        if not sig:
            return False
        hash_type = sig[-1]
        if 'SIG_RAW64' in self.model and len(sig) == 64:
            hash_type = 1
            rs = (int.from_bytes(sig[:32], 'big'), int.from_bytes(sig[32:], 'big'))
        else:
            rs = parse_der_lax(sig[:-1])
        if rs is None:
            return False
        d = self.get_digest(hash_type)
        if d is None:
            return False
        z = int.from_bytes(d, 'big')
        r, s = rs
        return ec.ecdsa_verify(z, r, s, pt)

    def check_locktime(self, n):
        if self.locktime is None or self.sequence is None:
            raise ScriptFail('no transaction context for CLTV')
        tx = self.locktime
        thr = 50000000 if 'CLTV_THRESHOLD_5E7' in self.model else LOCKTIME_THRESHOLD
        if 'CLTV_ZERO_TXLOCKTIME_FAILS' in self.model and tx == 0:
            return False
        if not ((tx < thr and n < thr) or (tx >= thr and n >= thr)):
            return False
        if n > tx:
            return False
        if self.sequence == SEQUENCE_FINAL:
            return False
        return True

    def check_sequence(self, n):
        if self.sequence is None or self.version is None:
            raise ScriptFail('no transaction context for CSV')
        if (self.version & 0xffffffff) < 2:
            return False
        txseq = self.sequence
        if txseq & SEQ_DISABLE:
            return False
        mask = SEQ_TYPE | SEQ_MASK
        a = txseq & mask
        b = n & mask
        if not ((a < SEQ_TYPE and b < SEQ_TYPE) or (a >= SEQ_TYPE and b >= SEQ_TYPE)):
            return False
        if b > a:
            return False
        return True


# ------------------------------------------------------------------ single opcodes
def _need(stack, n):
    if len(stack) < n:
        raise ScriptFail('invalid stack operation')


def apply_op(opcode, stack, ctx=None, alt=None, state=None):
    """Execute one non-push, non-conditional opcode on `stack` (a list of bytes, mutated in place).
    Raises ScriptFail when the script fails at this opcode.  `state` (dict) carries the op counter."""
    ctx = ctx or Ctx()
    name = OPNAME.get(opcode)
    if name is None or opcode in (OP['OP_RESERVED'], OP['OP_VER'], OP['OP_RESERVED1'], OP['OP_RESERVED2'],
                                  OP['OP_VERIF'], OP['OP_VERNOTIF']) or 0x4c <= opcode <= 0x4e:
        raise ScriptFail('bad opcode')
    if opcode in DISABLED:
        raise ScriptFail('disabled opcode')
    if opcode in NOPS or name == 'OP_CODESEPARATOR':
        return stack
    s = stack
    if name == 'OP_VERIFY':
        _need(s, 1)
        if not cast_to_bool(s[-1]):
            raise ScriptFail('verify')
        s.pop()
    elif name == 'OP_RETURN':
        raise ScriptFail('op_return')
    elif name == 'OP_TOALTSTACK':
        _need(s, 1)
        if alt is None:
            raise ScriptFail('no altstack')
        alt.append(s.pop())
    elif name == 'OP_FROMALTSTACK':
        if not alt:
            raise ScriptFail('invalid altstack operation')
        s.append(alt.pop())
    elif name == 'OP_2DROP':
        _need(s, 2)
        del s[-2:]
    elif name == 'OP_2DUP':
        _need(s, 2)
        s.extend(s[-2:])
    elif name == 'OP_3DUP':
        _need(s, 3)
        s.extend(s[-3:])
    elif name == 'OP_2OVER':
        _need(s, 4)
        s.extend(s[-4:-2])
    elif name == 'OP_2ROT':
        _need(s, 6)
        a = s[-6:-4]
        del s[-6:-4]
        s.extend(a)
    elif name == 'OP_2SWAP':
        _need(s, 4)
        s[-4:] = s[-2:] + s[-4:-2]
    elif name == 'OP_IFDUP':
        _need(s, 1)
        if cast_to_bool(s[-1]):
            s.append(s[-1])
    elif name == 'OP_DEPTH':
        s.append(num_encode(len(s)))
    elif name == 'OP_DROP':
        _need(s, 1)
        s.pop()
    elif name == 'OP_DUP':
        _need(s, 1)
        s.append(s[-1])
    elif name == 'OP_NIP':
        _need(s, 2)
        del s[-2]
    elif name == 'OP_OVER':
        _need(s, 2)
        s.append(s[-2])
    elif name in ('OP_PICK', 'OP_ROLL'):
        _need(s, 2)
        n = num_decode(s[-1], ctx=ctx)
        s.pop()
        if n < 0 or n >= len(s):
            raise ScriptFail('invalid stack operation')
        v = s[-n - 1]
        if name == 'OP_ROLL':
            del s[-n - 1]
        s.append(v)
    elif name == 'OP_ROT':
        _need(s, 3)
        s.append(s.pop(-3))
    elif name == 'OP_SWAP':
        _need(s, 2)
        s[-2], s[-1] = s[-1], s[-2]
    elif name == 'OP_TUCK':
        _need(s, 2)
        s.insert(len(s) - 2, s[-1])
    elif name == 'OP_SIZE':
        _need(s, 1)
        s.append(num_encode(len(s[-1])))
    elif name in ('OP_EQUAL', 'OP_EQUALVERIFY'):
        _need(s, 2)
        eq = bytes(s[-2]) == bytes(s[-1])
        del s[-2:]
        s.append(_bool(eq))
        if name == 'OP_EQUALVERIFY':
            if not eq:
                raise ScriptFail('equalverify')
            s.pop()
    elif name in ('OP_1ADD', 'OP_1SUB', 'OP_NEGATE', 'OP_ABS', 'OP_NOT', 'OP_0NOTEQUAL'):
        _need(s, 1)
        n = num_decode(s[-1])
        if name == 'OP_1ADD':
            r = num_encode(n + 1)
        elif name == 'OP_1SUB':
            r = num_encode(n - 1)
        elif name == 'OP_NEGATE':
            r = num_encode(-n)
        elif name == 'OP_ABS':
            r = num_encode(abs(n))
        elif name == 'OP_NOT':
            r = num_encode(1 if n == 0 else 0)
        else:
            r = num_encode(1 if n != 0 else 0)
        s.pop()
        s.append(r)
    elif name in ('OP_ADD', 'OP_SUB', 'OP_BOOLAND', 'OP_BOOLOR', 'OP_NUMEQUAL', 'OP_NUMEQUALVERIFY',
                  'OP_NUMNOTEQUAL', 'OP_LESSTHAN', 'OP_GREATERTHAN', 'OP_LESSTHANOREQUAL',
                  'OP_GREATERTHANOREQUAL', 'OP_MIN', 'OP_MAX'):
        _need(s, 2)
        a = num_decode(s[-2])
        b = num_decode(s[-1])
        if name == 'OP_ADD':
            r = a + b
        elif name == 'OP_SUB':
            r = a - b
        elif name == 'OP_BOOLAND':
            r = int(a != 0 and b != 0)
        elif name == 'OP_BOOLOR':
            r = int(a != 0 or b != 0)
        elif name in ('OP_NUMEQUAL', 'OP_NUMEQUALVERIFY'):
            r = int(a == b)
        elif name == 'OP_NUMNOTEQUAL':
            r = int(a != b)
        elif name == 'OP_LESSTHAN':
            r = int(a < b)
        elif name == 'OP_GREATERTHAN':
            r = int(a > b)
        elif name == 'OP_LESSTHANOREQUAL':
            r = int(a <= b)
        elif name == 'OP_GREATERTHANOREQUAL':
            r = int(a >= b)
        elif name == 'OP_MIN':
            r = a if a < b else b
        else:
            r = a if a > b else b
        del s[-2:]
        s.append(num_encode(r))
        if name == 'OP_NUMEQUALVERIFY':
            if not cast_to_bool(s[-1]):
                raise ScriptFail('numequalverify')
            s.pop()
    elif name == 'OP_WITHIN':
        _need(s, 3)
        x = num_decode(s[-3])
        lo = num_decode(s[-2])
        hi = num_decode(s[-1])
        del s[-3:]
        s.append(_bool(lo <= x < hi))
    elif name in ('OP_RIPEMD160', 'OP_SHA1', 'OP_SHA256', 'OP_HASH160', 'OP_HASH256'):
        _need(s, 1)
        v = bytes(s.pop())
        if name == 'OP_RIPEMD160':
            h = hashlib.new('ripemd160', v).digest()
        elif name == 'OP_SHA1':
            h = hashlib.sha1(v).digest()
        elif name == 'OP_SHA256':
            h = hashlib.sha256(v).digest()
        elif name == 'OP_HASH160':
            h = hashlib.new('ripemd160', hashlib.sha256(v).digest()).digest()
        else:
            h = hashlib.sha256(hashlib.sha256(v).digest()).digest()
        s.append(h)
    elif name in ('OP_CHECKSIG', 'OP_CHECKSIGVERIFY'):
        _need(s, 2)
        sig = bytes(s[-2])
        pub = bytes(s[-1])
        ctx.check_sig_encoding(sig)
        ok = ctx.check_sig(sig, pub)
        if not ok and 'NULLFAIL' in ctx.flags and len(sig):
            raise ScriptFail('nullfail')
        del s[-2:]
        s.append(_bool(ok))
        if name == 'OP_CHECKSIGVERIFY':
            if not ok:
                raise ScriptFail('checksigverify')
            s.pop()
    elif name in ('OP_CHECKMULTISIG', 'OP_CHECKMULTISIGVERIFY'):
        i = 1
        _need(s, i)
        lax = 'CMS_COUNTS_UNCHECKED' in ctx.model
        nkeys = num_decode(s[-i], max_size=10 ** 6 if lax else 4)
        if lax:
            nkeys = max(nkeys, 0)
        elif nkeys < 0 or (nkeys > MAX_PUBKEYS and 'NOLIMITS' not in ctx.model):
            raise ScriptFail('pubkey count')
        if state is not None and 'NOLIMITS' not in ctx.model:
            state['ops'] = state.get('ops', 0) + nkeys
            if state['ops'] > MAX_OPS:
                raise ScriptFail('op count')
        i += 1
        ikey = i
        i += nkeys
        _need(s, i)
        nsigs = num_decode(s[-i], max_size=10 ** 6 if lax else 4)
        if lax:
            nsigs = max(nsigs, 0)
        elif nsigs < 0 or nsigs > nkeys:
            raise ScriptFail('sig count')
        i += 1
        isig = i
        i += nsigs
        _need(s, i - 1 if 'CMS_DUMMY_OPTIONAL' in ctx.model else i)
        ok = not (lax and nsigs > nkeys)
        while ok and nsigs > 0:
            sig = bytes(s[-isig])
            pub = bytes(s[-ikey])
            ctx.check_sig_encoding(sig)
            if ctx.check_sig(sig, pub):
                isig += 1
                nsigs -= 1
            ikey += 1
            nkeys -= 1
            if nsigs > nkeys:
                ok = False
        while i > 1:
            i -= 1
            s.pop()
        if 'CMS_DUMMY_OPTIONAL' in ctx.model and not s:
            pass
        else:
            _need(s, 1)
            if 'NULLDUMMY' in ctx.flags and len(s[-1]):
                raise ScriptFail('dummy CHECKMULTISIG argument must be zero')
            s.pop()
        s.append(_bool(ok))
        if name == 'OP_CHECKMULTISIGVERIFY':
            if not ok:
                raise ScriptFail('checkmultisigverify')
            s.pop()
    elif name == 'OP_CHECKLOCKTIMEVERIFY':
        if 'CLTV' not in ctx.flags:
            return s
        _need(s, 1)
        n = num_decode(s[-1], 5, ctx=ctx)
        if n < 0:
            raise ScriptFail('negative locktime')
        if not ctx.check_locktime(n):
            raise ScriptFail('unsatisfied locktime')
    elif name == 'OP_CHECKSEQUENCEVERIFY':
        if 'CSV' not in ctx.flags:
            return s
        _need(s, 1)
        n = num_decode(s[-1], 5)
        if n < 0:
            raise ScriptFail('negative locktime')
        if not (n & SEQ_DISABLE):
            if not ctx.check_sequence(n):
                raise ScriptFail('unsatisfied locktime')
    else:
        raise ScriptFail('bad opcode')
    return s


def step(opcode, stack, ctx=None):
    """Reference result of one opcode on a copy of `stack`: (ok, stack_after | None, reason)."""
    s = [bytes(x) for x in stack]
    try:
        apply_op(opcode, s, ctx, alt=[], state={})
    except ScriptFail as e:
        return False, None, e.reason
    if len(s) > MAX_STACK:
        return False, None, 'stack size'
    return True, s, ''


# ------------------------------------------------------------------ conditionals on a command list
def split_conditional(rest, cond, single_else=False):
    """Consensus view of `OP_IF rest...` once the condition is known.

    -> (found, selected, tail, poisoned): `found` whether a matching OP_ENDIF exists; `selected` the commands of the
    executed segments (every OP_ELSE at nesting level 0 toggles execution); `tail` the commands after OP_ENDIF;
    `poisoned` whether a skipped segment contains an opcode that fails the script even when not executed."""
    depth = 0
    execute = bool(cond)
    selected = []
    poisoned = False
    for i, c in enumerate(rest):
        if isinstance(c, int):
            if c in (OP['OP_IF'], OP['OP_NOTIF']):
                depth += 1
            elif c == OP['OP_ENDIF']:
                if depth == 0:
                    return True, selected, list(rest[i + 1:]), poisoned
                depth -= 1
            elif c == OP['OP_ELSE'] and depth == 0:
                # single_else is an attribution model: only the first OP_ELSE switches, later ones are dropped
                execute = (not bool(cond)) if single_else else (not execute)
                continue
        if execute:
            selected.append(c)
        elif isinstance(c, int) and c in ALWAYS_FAIL:
            poisoned = True
        elif not isinstance(c, int) and len(c) > MAX_ELEMENT:
            poisoned = True
    return False, selected, [], poisoned


# ------------------------------------------------------------------ whole scripts
class Result:
    def __init__(self, ok, stack, reason='', nsteps=0, pos=None, vf=None):
        self.ok = ok
        self.stack = stack
        self.reason = reason
        self.nsteps = nsteps
        self.pos = pos
        self.vf = vf        # conditional execution flags still open when evaluation stopped

    def __repr__(self):
        return 'Result(ok=%r, stack=%r, reason=%r)' % (self.ok, [x.hex() for x in (self.stack or [])], self.reason)


def eval_script(cmds, ctx=None, hook=None, trace=None, stack=None):
    """EvalScript. -> Result(ok, stack).  `hook(j, opcode, stack_before)` may return (ok, stack_after) to replace
    the reference semantics of the j-th executed plain opcode (used to replay observed step results under the
    consensus dispatch loop); `trace` collects (pos, opcode, stack_before, stack_after|None)."""
    ctx = ctx or Ctx()
    s = [bytes(x) for x in (stack or [])]
    alt = []
    vf = []
    vorig = []
    state = {'ops': 0}
    j = 0
    nolimits = 'NOLIMITS' in ctx.model
    lazyfail = 'NO_UNEXECUTED_FAIL' in ctx.model
    if script_size(cmds) > MAX_SCRIPT_SIZE and not nolimits:
        return Result(False, s, 'script size', 0, 0)
    pos = 0
    try:
        for pos, c in enumerate(cmds):
            fexec = all(vf)
            if not isinstance(c, int):
                if len(c) > MAX_ELEMENT and not nolimits:
                    raise ScriptFail('push size')
                if fexec:
                    s.append(bytes(c))
            else:
                if c < 0 or c > 0xff:
                    raise ScriptFail('bad opcode')
                if c > 0x60:
                    state['ops'] += 1
                    if state['ops'] > MAX_OPS and not nolimits:
                        raise ScriptFail('op count')
                if c in DISABLED and (fexec or not lazyfail):
                    raise ScriptFail('disabled opcode')
                if is_push(c):
                    if fexec:
                        s.append(push_value(c))
                elif 0x01 <= c <= 0x4e:
                    # a bare push opcode without data cannot occur in a serialised script; treat as malformed
                    raise ScriptFail('bad opcode')
                elif c in (OP['OP_IF'], OP['OP_NOTIF']):
                    v = False
                    if fexec:
                        if len(s) < 1:
                            raise ScriptFail('unbalanced conditional')
                        v = cast_to_bool(s[-1])
                        if c == OP['OP_NOTIF']:
                            v = not v
                        s.pop()
                    vf.append(v)
                    vorig.append(v)
                elif c == OP['OP_ELSE']:
                    if not vf:
                        raise ScriptFail('unbalanced conditional')
                    if 'SINGLE_ELSE' in ctx.model:
                        vf[-1] = not vorig[-1]
                    else:
                        vf[-1] = not vf[-1]
                elif c == OP['OP_ENDIF']:
                    if not vf:
                        raise ScriptFail('unbalanced conditional')
                    vf.pop()
                    vorig.pop()
                elif c in (OP['OP_VERIF'], OP['OP_VERNOTIF']):
                    if fexec or not lazyfail:
                        raise ScriptFail('bad opcode')
                elif fexec:
                    before = list(s)
                    sub = None
                    if hook is not None:
                        sub = hook(j, c, before)
                    j += 1
                    if sub is not None:
                        ok_, after_ = sub
                        if trace is not None:
                            trace.append((pos, c, before, list(after_) if ok_ else None))
                        if not ok_:
                            raise ScriptFail('substituted step failed')
                        s[:] = [bytes(x) for x in after_]
                    else:
                        try:
                            apply_op(c, s, ctx, alt, state)
                        except ScriptFail:
                            if trace is not None:
                                trace.append((pos, c, before, None))
                            raise
                        if trace is not None:
                            trace.append((pos, c, before, list(s)))
            if len(s) + len(alt) > MAX_STACK and not nolimits:
                raise ScriptFail('stack size')
        if vf:
            raise ScriptFail('unbalanced conditional')
    except ScriptFail as e:
        return Result(False, s, e.reason, j, pos, list(vf))
    return Result(True, s, '', j, None, [])


def verify(cmds, ctx=None, hook=None, trace=None):
    """EvalScript followed by the final check of VerifyScript: non-empty stack whose top is true."""
    r = eval_script(cmds, ctx, hook, trace)
    if not r.ok:
        return r
    if not r.stack:
        return Result(False, r.stack, 'eval false (empty stack)', r.nsteps)
    ctx = ctx or Ctx()
    truth = (r.stack[-1] != b'') if 'FINAL_BYTEWISE' in ctx.model else cast_to_bool(r.stack[-1])
    if not truth:
        return Result(False, r.stack, 'eval false', r.nsteps)
    return r


# ------------------------------------------------------------------ self-check
def _asm(text, data=None):
    out = []
    for tok in text.split():
        if tok.startswith('0x'):
            out.append(bytes.fromhex(tok[2:]))
        elif tok.lstrip('-').isdigit():
            n = int(tok)
            if n == 0:
                out.append(0)
            elif n == -1:
                out.append(0x4f)
            elif 1 <= n <= 16:
                out.append(0x50 + n)
            else:
                out.append(num_encode(n))
        elif tok == "''":
            out.append(b'')
        else:
            out.append(OP['OP_' + tok])
    return out


def selfcheck():
    T, F = True, False
    # CastToBool / CScriptNum
    for v, exp in ((b'', F), (b'\x00', F), (b'\x80', F), (b'\x00\x00', F), (b'\x00\x80', F), (b'\x01', T), (b'\x81', T),
                   (b'\x80\x00', T), (b'\x00\x01', T), (b'\x00\x00\x00\x00\x80', F), (b'\x00\x00\x00\x80\x00', T)):
        assert cast_to_bool(v) is exp, v
    for n, enc in ((0, ''), (1, '01'), (-1, '81'), (127, '7f'), (128, '8000'), (-128, '8080'), (255, 'ff00'),
                   (-255, 'ff80'), (256, '0001'), (32767, 'ff7f'), (32768, '008000'), (-32768, '008080'),
                   (2147483647, 'ffffff7f'), (-2147483647, 'ffffffff'), (2147483648, '0000008000')):
        assert num_encode(n).hex() == enc, n
        assert num_decode(bytes.fromhex(enc), 5) == n
    assert num_decode(b'\x80') == 0 and num_decode(b'\x00\x80') == 0 and num_decode(b'\x01\x00') == 1
    try:
        num_decode(b'\x00\x00\x00\x80\x00')
        raise AssertionError('5-byte operand accepted')
    except ScriptFail:
        pass
    # script_tests.json style vectors (scriptSig + scriptPubKey concatenated; all verified by hand against
    # interpreter.cpp): (script, expected validity)
    vec = [
        ('1 2 ADD 3 EQUAL', T), ('2 5 SUB -3 EQUAL', T), ('5 2 SUB 3 EQUAL', T), ('1 2 LESSTHAN', T), ('2 1 LESSTHAN', F),
        ('2 1 GREATERTHAN', T), ('1 1 LESSTHANOREQUAL', T), ('2 1 LESSTHANOREQUAL', F), ('1 2 GREATERTHANOREQUAL', F),
        ('0 0 1 WITHIN', T), ('1 0 1 WITHIN', F), ('-1 -100 100 WITHIN', T), ('0 1 2 WITHIN', F), ('1 1 2 WITHIN', T),
        ('1 2 MIN 1 EQUAL', T), ('1 2 MAX 2 EQUAL', T), ('-2 ABS 2 EQUAL', T), ('2 NEGATE -2 EQUAL', T),
        ('0 NOT', T), ('1 NOT', F), ('11 NOT 0 EQUAL', T), ('0x80 NOT', T), ('0x00 NOT', T), ('0x0080 NOT', T),
        ('0x80 0NOTEQUAL', F), ('0x00 0NOTEQUAL 0 EQUAL', T), ('-11 0NOTEQUAL 1 EQUAL', T),
        ('1 0x00 BOOLAND', F), ('0x80 0x00 BOOLOR', F), ('0x80 16 BOOLOR', T), ('1 1 BOOLAND', T),
        ('1 0x0100 NUMEQUAL', T), ('0 0x80 NUMEQUAL', T), ('0 0x00 NUMNOTEQUAL', F), ('1 0x01000000 NUMEQUALVERIFY 1', T),
        ('1 0x0100 EQUAL', F), ('1 1 EQUALVERIFY 1', T), ('1 2 EQUALVERIFY 1', F),
        ('2147483647 1ADD 1', T), ('2147483647 1ADD 1ADD 1', F), ('2147483647 DUP ADD 4294967294 EQUAL', T),
        ('2147483648 0 ADD 1', F), ('0x0000000001 NOT 1', F), ('0x0000000000 IF 0 ELSE 1 ENDIF', T),
        ('1 2 SWAP 1 EQUALVERIFY 2 EQUAL', T), ('1 2 TUCK DEPTH 3 EQUALVERIFY 2 EQUALVERIFY 1 EQUALVERIFY 2 EQUAL', T),
        ('1 2 OVER 1 EQUALVERIFY 2 EQUALVERIFY 1 EQUAL', T), ('1 2 NIP 2 EQUALVERIFY DEPTH 0 EQUAL', T),
        ('1 2 3 ROT 1 EQUALVERIFY 3 EQUALVERIFY 2 EQUAL', T),
        ('1 2 3 4 2SWAP 2 EQUALVERIFY 1 EQUALVERIFY 4 EQUALVERIFY 3 EQUAL', T),
        ('1 2 3 4 2OVER 2 EQUALVERIFY 1 EQUALVERIFY 2DROP 2DROP DEPTH 0 EQUAL', T),
        ('1 2 3 4 5 6 2ROT 2 EQUALVERIFY 1 EQUALVERIFY 6 EQUALVERIFY 5 EQUALVERIFY 4 EQUALVERIFY 3 EQUAL', T),
        ('1 2 3 2SWAP 1', F), ('1 2 3 4 5 2ROT 1', F),
        ('1 2 3DUP 1', F), ('7 8 9 3DUP DEPTH 6 EQUALVERIFY 9 EQUALVERIFY 8 EQUALVERIFY 7 EQUALVERIFY 2DROP 7 EQUAL', T),
        ('7 8 2DUP 8 EQUALVERIFY 7 EQUALVERIFY 8 EQUALVERIFY 7 EQUAL', T),
        ('22 21 20 0 PICK 20 EQUALVERIFY DEPTH 3 EQUAL', T), ('22 21 20 1 PICK 21 EQUALVERIFY DEPTH 3 EQUAL', T),
        ('22 21 20 2 PICK 22 EQUALVERIFY DEPTH 3 EQUAL', T), ('22 21 20 3 PICK 1', F), ('22 21 20 -1 PICK 1', F),
        ('22 21 20 0 ROLL 20 EQUALVERIFY DEPTH 2 EQUAL', T), ('22 21 20 1 ROLL 21 EQUALVERIFY DEPTH 2 EQUAL', T),
        ('22 21 20 2 ROLL 22 EQUALVERIFY 20 EQUALVERIFY 21 EQUAL', T), ('22 21 20 3 ROLL 1', F), ('1 PICK 1', F),
        ('0 IFDUP DEPTH 1 EQUALVERIFY 0 EQUAL', T), ('1 IFDUP DEPTH 2 EQUALVERIFY 1 EQUALVERIFY 1 EQUAL', T),
        ('0x80 IFDUP DEPTH 1 EQUAL', T), ('0x0100 IFDUP DEPTH 2 EQUAL', T),
        ('0x00 VERIFY 1', F), ('0x80 VERIFY 1', F), ('0x0080 VERIFY 1', F), ('0x0100 VERIFY 1', T), ('0x00', F), ('0x80', F),
        ('0x8000', T), ("''", F), ('', F), ('1 RETURN', F), ('1 NOP NOP1 NOP4 NOP10', T), ('0x01 SIZE 1 EQUAL', T),
        ("'' SIZE 0 EQUAL", T), ('DEPTH 0 EQUAL', T),
        ('1 IF 1 ELSE 0 ENDIF', T), ('0 IF 1 ELSE 0 ENDIF', F), ('0 NOTIF 1 ELSE 0 ENDIF', T), ('1 NOTIF 1 ELSE 0 ENDIF', F),
        ('1 1 IF IF 1 ELSE 0 ENDIF ENDIF', T), ('1 0 IF IF 1 ELSE 0 ENDIF ENDIF', T), ('0 1 IF IF 1 ELSE 0 ENDIF ENDIF', F),
        ('1 IF 1 ELSE 0 ELSE 1 ENDIF ADD 2 EQUAL', T), ('0 IF 1 ELSE 0 ELSE 1 ENDIF 0 EQUAL', T),
        ('0 IF 1 IF 1 ELSE 0 ELSE 1 ENDIF ELSE 1 IF 0 ELSE 1 ELSE 0 ENDIF ENDIF ADD 0 EQUAL', T),
        ('1 IF 1', F), ('1 ENDIF', F), ('1 ELSE 1 ENDIF', F), ('IF 1 ENDIF 1', F), ('1 IF 1 ENDIF ENDIF', F),
        ('0 IF VER ELSE 1 ENDIF', T), ('1 IF VER ELSE 1 ENDIF', F), ('0 IF VERIF ELSE 1 ENDIF', F),
        ('0 IF 0x01 0x01 CAT ELSE 1 ENDIF', F), ('0 IF RESERVED RESERVED1 RESERVED2 ELSE 1 ENDIF', T), ('1 RESERVED', F),
        ('0 IF RETURN ENDIF 1', T), ('1 CODESEPARATOR', T), ('1 2 MUL', F), ('1 2 TOALTSTACK FROMALTSTACK 2 EQUALVERIFY', T),
        ('FROMALTSTACK 1', F),
        ("'' RIPEMD160 0x9c1185a5c5e9fc54612808977ee8f548b2258d31 EQUAL", T),
        ("'' SHA1 0xda39a3ee5e6b4b0d3255bfef95601890afd80709 EQUAL", T),
        ("'' SHA256 0xe3b0c44298fc1c149afbf4c8996fb92427ae41e4649b934ca495991b7852b855 EQUAL", T),
        ("'' HASH160 0xb472a266d0bd89c13706a4132ccfb16f7c3b9fcb EQUAL", T),
        ("'' HASH256 0x5df6e0e2761359d30a8275058e299fcc0381534545f55cf43e41983f5d4c9456 EQUAL", T),
        ('0x616263 SHA1 0xa9993e364706816aba3e25717850c26c9cd0d89d EQUAL', T),
        ('0x616263 RIPEMD160 0x8eb208f7e05d987a9b044a8e98c6b087f15a0bfc EQUAL', T),
        ("0 0 0 CHECKMULTISIG", T), ("0 0 CHECKMULTISIG", F), ("1 0 0 CHECKMULTISIG", F), ("0 0 0 CHECKMULTISIGVERIFY DEPTH 0 EQUAL", T),
        ("0 0 0x01 1 CHECKMULTISIG", T), ("0 0 0x01 0x02 2 CHECKMULTISIG", T), ("0 0 21 CHECKMULTISIG", F),
        ("0 0 0x01 1 CHECKMULTISIG NOT", F), ("0 '' 1 0x01 1 CHECKMULTISIG NOT", T), ("0 1 0 CHECKMULTISIG", F),
        ("'' 0x01 CHECKSIG NOT", T), ("0x01 0x01 CHECKSIG NOT", F), ("0 CHECKSIG", F),
    ]
    for text, exp in vec:
        r = verify(_asm(text), Ctx(digest=b'\x11' * 32))
        assert r.ok is exp, (text, r)
    # op count limit: 201 ok, 202 not
    assert verify([0x51] + [0x61] * 200, Ctx()).ok and not verify([0x51] + [0x61] * 202, Ctx()).ok
    assert not verify([b'\x00' * 521, 0x75, 0x51]).ok and verify([b'\x00' * 520, 0x75, 0x51]).ok
    # signatures
    d1, d2, d3 = 0x1111, 0x2222, 0x3333
    z = bytes(range(32))
    zi = int.from_bytes(z, 'big')

    def sig(d, k=0x4242, ht=1, zz=zi):
        r, s = ec.ecdsa_sign_with_k(zz, d, k)
        return ec.der_encode(r, s) + bytes([ht])
    p1, p2, p3 = (ec.pub_from_secret(d) for d in (d1, d2, d3))
    p1u = ec.pub_from_secret(d1, False)
    ctx = lambda **kw: Ctx(digest=z, **kw)
    assert verify([sig(d1), p1, 0xac], ctx()).ok and verify([sig(d1), p1u, 0xac], ctx()).ok
    assert verify([sig(d1, ht=0x83), p1, 0xac], ctx()).ok
    hyb = bytes([6 + (p1u[-1] & 1)]) + p1u[1:]
    assert verify([sig(d1), hyb, 0xac], ctx()).ok
    assert not verify([sig(d2), p1, 0xac], ctx()).ok and verify([sig(d2), p1, 0xac, 0x91], ctx()).ok
    assert not verify([sig(d1, zz=zi + 1), p1, 0xac], ctx()).ok
    r_, s_ = ec.ecdsa_sign_with_k(zi, d1, 0x4242)
    raw64 = r_.to_bytes(32, 'big') + s_.to_bytes(32, 'big')
    assert not verify([raw64, p1, 0xac, 0x91], ctx()).ok            # DERSIG: script fails, NOT cannot rescue it
    assert verify([raw64, p1, 0xac, 0x91], ctx(flags=())).ok        # pre-BIP66: just an invalid signature
    assert verify([ec.der_encode(r_, ec.N - s_) + b'\x01', p1, 0xac], ctx()).ok   # high S is consensus-valid
    padded = b'\x30' + bytes([len(ec.der_encode(r_, s_)) - 2 + 1]) + b'\x02' + bytes([ec.der_encode(r_, s_)[3] + 1]) + b'\x00' + ec.der_encode(r_, s_)[4:] + b'\x01'
    if not (ec.der_encode(r_, s_)[4] & 0x80) and ec.der_encode(r_, s_)[4] != 0:
        assert not verify([padded, p1, 0xac], ctx()).ok and verify([padded, p1, 0xac], ctx(flags=())).ok
    # P2PKH
    assert verify([sig(d1), p1, 0x76, 0xa9, ec.hash160(p1), 0x88, 0xac], ctx()).ok
    assert not verify([sig(d1), p1, 0x76, 0xa9, ec.hash160(p2), 0x88, 0xac], ctx()).ok
    # bare multisig: order matters, dummy must be present and empty
    ms = [0x52, p1, p2, p3, 0x53, 0xae]
    assert verify([0, sig(d1), sig(d2)] + ms, ctx()).ok and verify([0, sig(d1), sig(d3)] + ms, ctx()).ok
    assert verify([0, sig(d2), sig(d3)] + ms, ctx()).ok
    assert not verify([0, sig(d2), sig(d1)] + ms, ctx()).ok and not verify([0, sig(d1), sig(d1)] + ms, ctx()).ok
    assert not verify([sig(d1), sig(d2)] + ms, ctx()).ok and not verify([0, sig(d1)] + ms, ctx()).ok
    assert not verify([0x51, sig(d1), sig(d2)] + ms, ctx()).ok and verify([0x51, sig(d1), sig(d2)] + ms, ctx(flags=('DERSIG',))).ok
    assert verify([0, sig(d1), sig(d2)] + ms[:-1] + [0xaf, 0x51], ctx()).ok
    # CLTV / CSV
    cl = lambda n, **kw: verify([num_encode(n), 0xb1], Ctx(**kw)).ok
    assert cl(500, locktime=1000, sequence=1) and cl(500, locktime=500, sequence=0xfffffffe) and cl(0, locktime=0, sequence=0) is False
    assert verify([0, 0xb1, 0x51], Ctx(locktime=0, sequence=0)).ok
    assert not cl(500, locktime=499, sequence=1) and not cl(500, locktime=1000, sequence=0xffffffff)
    assert not cl(400000000, locktime=600000000, sequence=1) and cl(400000000, locktime=450000000, sequence=1)
    assert cl(500000000, locktime=600000000, sequence=1) and not cl(-1, locktime=1000, sequence=1)
    assert cl(2 ** 32 - 1, locktime=2 ** 32 - 1, sequence=1) and not verify([b'\x01' * 6, 0xb1], Ctx(locktime=2 ** 40, sequence=1)).ok
    cs = lambda n, **kw: verify([num_encode(n), 0xb2], Ctx(**kw)).ok
    assert cs(10, sequence=10, version=2) and cs(10, sequence=11, version=2) and not cs(10, sequence=9, version=2)
    assert not cs(10, sequence=10, version=1) and not cs(10, sequence=10 | SEQ_DISABLE, version=2)
    assert cs(SEQ_DISABLE | 5, sequence=0, version=1) and not cs(-1, sequence=10, version=2)
    assert not cs(SEQ_TYPE | 5, sequence=10, version=2) and cs(SEQ_TYPE | 5, sequence=SEQ_TYPE | 6, version=2)
    assert not verify([0xb2, 0x51], Ctx(sequence=1, version=2)).ok
    # conditional splitting used by the step oracle of OP_IF agrees with EvalScript
    I, N_, E, X = OP['OP_IF'], OP['OP_NOTIF'], OP['OP_ELSE'], OP['OP_ENDIF']
    assert split_conditional([0x52, E, 0x53, X, 0x54], True) == (True, [0x52], [0x54], False)
    assert split_conditional([0x52, E, 0x53, E, 0x55, X], False) == (True, [0x53], [], False)
    assert split_conditional([0x52, E, 0x53, E, 0x55, X], True) == (True, [0x52, 0x55], [], False)
    assert split_conditional([I, 0x52, E, 0x53, X, E, 0x7e, X], True) == (True, [I, 0x52, E, 0x53, X], [], True)
    assert split_conditional([0x52, E, 0x53], True)[0] is False
    # attribution models depart from consensus only in the named way
    assert verify([b'\x00' * 521, 0x75, 0x51], Ctx(model=('NOLIMITS',))).ok
    assert verify(_asm('0 IF VERIF 0x01 0x01 CAT ELSE 1 ENDIF'), Ctx(model=('NO_UNEXECUTED_FAIL',))).ok
    assert not verify(_asm('1 IF 0x01 0x01 CAT ELSE 1 ENDIF'), Ctx(model=('NO_UNEXECUTED_FAIL',))).ok
    assert verify(_asm('1 IF 1 ELSE 0 ELSE 5 ENDIF 1 EQUAL'), Ctx(model=('SINGLE_ELSE',))).ok
    assert verify(_asm('0 IF 1 ELSE 2 ELSE 5 ENDIF 5 EQUALVERIFY 2 EQUAL'), Ctx(model=('SINGLE_ELSE',))).ok
    assert verify([b'\x00'], Ctx(model=('FINAL_BYTEWISE',))).ok and not verify([b''], Ctx(model=('FINAL_BYTEWISE',))).ok
    # hook replay: substituting a step result changes the outcome under the same dispatch loop
    r = verify(_asm('2 5 SUB 3 EQUAL'), Ctx(), hook=lambda j, op_, st: (True, st[:-2] + [num_encode(3)]) if op_ == 0x94 else None)
    assert r.ok
    return True
